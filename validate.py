#!/usr/bin/env python3-vt
import json,jsonschema,glob,sys
m=json.load(open('/verif/MANIFEST.json')); s=json.load(open('/root/.vp/MANIFEST.schema.json')); jsonschema.validate(m,s)
print('manifest ok: checks',len(m['checks']),'na',len(m['not_applicable']))
s=json.load(open('/root/.vp/EVIDENCE.schema.json'))
for c in m['checks']:
    try:
        e=json.load(open(c['evidence_file'])); jsonschema.validate(e,s)
    except Exception as ex:
        print('EVIDENCE BAD', c['property_id'], str(ex)[:200])
print('evidence checked')
