#!/bin/bash
# usage: mkhunt.sh Cnn ... : creates /tmp/wt-Cnn (scratch worktree of /repo HEAD) and /tmp/hunt-Cnn.txt
for id in "$@"; do
  n=${id#C}; n=$((10#$n))
  git -C /repo worktree add --detach /tmp/wt-$id HEAD >/dev/null 2>&1
  python3 - "$id" "$n" <<'PY'
import sys,json,re
id,n=sys.argv[1],int(sys.argv[2])
line=open('/verif/properties.jsonl').read().splitlines()[n-1]
p=json.loads(line); assert p['id']==id
t=open('/verif/tools/hunt_prompt.txt').read()
t=re.sub(r'\bWT\b','/tmp/wt-'+id,t); t=re.sub(r'\bOUT\b','/tmp/out-'+id,t)
t=t.replace('PROPERTY_JSON',json.dumps(p,indent=1))
open('/tmp/hunt-%s.txt'%id,'w').write(t)
PY
done
git -C /repo worktree list | tail -n +2
