#!/usr/bin/env python3
"""Re-run every stored seeded change (/verif/seeded/*/patch.diff) against the current /repo HEAD in a scratch worktree:
does it still apply and build, and does the property's check (static, on the patched scratch tree) report it?
usage: reseed.py [id-prefix[,id-prefix…]] [--update]   (--update rewrites detected_by_check/reported in meta.json, keeping the first verdict as detected_initially)"""
import json, os, subprocess, sys, glob
env = dict(os.environ, GOFLAGS='-mod=mod', GOPROXY='off', GOSUMDB='off', GOTOOLCHAIN='local')
WT = os.environ.get("RESEED_WT", "/tmp/wt-reseed-%d" % os.getpid())
def sh(cmd, cwd=None):
    p = subprocess.run(cmd, shell=True, cwd=cwd, env=env, capture_output=True, text=True)
    return p.returncode, p.stdout + p.stderr
sh(f'git -C /repo worktree remove --force {WT}')
rc, o = sh(f'git -C /repo worktree add -q --detach {WT} HEAD'); assert rc == 0, o
args = [a for a in sys.argv[1:] if a != '--update']
update = '--update' in sys.argv
prefs = tuple(args[0].split(',')) if args else ('',)
rows = []
for d in sorted(glob.glob('/verif/seeded/*')):
    sid = os.path.basename(d)
    if not sid.startswith(prefs): continue
    meta = json.load(open(os.path.join(d, 'meta.json')))
    prop = meta['property']
    if meta.get('obsolete'):
        rows.append((sid, 'obsolete', meta['obsolete'][:100])); continue
    sh('git checkout -q -- . && git clean -qfd', cwd=WT)
    rc, o = sh(f'git apply {d}/patch.diff', cwd=WT)
    if rc != 0:
        rows.append((sid, 'PATCH-DOES-NOT-APPLY', '')); continue
    rc, o = sh('go build ./...', cwd=WT)
    if rc != 0:
        rows.append((sid, 'BUILD-FAILS', o[:100])); continue
    rc, o = sh(f'/verif/bin/mitumvet -noselftest -repo {WT} -property {prop} -evidence ' + WT + '-ev.json')
    v = [l for l in o.splitlines() if l.startswith(('VIOLATED', 'UNRESOLVED'))]
    rows.append((sid, 'detected' if rc == 1 else 'MISSED(exit %d)' % rc, (v[0][:150] if v else '')))
    if update and rc in (0, 1) and bool(meta.get('detected_by_check')) != (rc == 1):
        meta.setdefault('detected_initially', bool(meta.get('detected_by_check')))
        meta['detected_by_check'] = rc == 1
        meta['reported'] = v[:6]
        json.dump(meta, open(os.path.join(d, 'meta.json'), 'w'), indent=1)
sh(f'git -C /repo worktree remove --force {WT}')
for r in rows: print('%-10s %-22s %s' % r)
print('total', len(rows), 'detected', sum(1 for r in rows if r[1] == 'detected'), 'obsolete', sum(1 for r in rows if r[1] == 'obsolete'))
