#!/usr/bin/env python3
"""usage: seedcheck.py <property> <out-dir> [round-tag]
Confirms each seeded change m<k> of a sub-agent in a scratch worktree (demo passes on the clean tree, the
patch applies and builds, demo fails with it), runs the property's check against the patched scratch tree,
and stores confirmed changes under /verif/seeded/<property>-m<k>/ with meta.json."""
import json, os, re, subprocess, sys, shutil, glob
prop, out = sys.argv[1], sys.argv[2]
round_tag = sys.argv[3] if len(sys.argv) > 3 else ''  # e.g. 'r2' -> stored as <prop>-r2m<k>
env = dict(os.environ, GOFLAGS='-mod=mod', GOPROXY='off', GOSUMDB='off', GOTOOLCHAIN='local')
WT = '/tmp/wt-confirm'
def sh(cmd, cwd=None, timeout=1800):
    p = subprocess.run(cmd, shell=True, cwd=cwd, env=env, capture_output=True, text=True, timeout=timeout)
    return p.returncode, (p.stdout + p.stderr)
if not os.path.isdir(WT):
    rc, o = sh(f'git -C /repo worktree add -q --detach {WT} HEAD'); assert rc == 0, o
def clean():
    sh('git checkout -q -- . && git clean -qfd', cwd=WT)
    sh('git checkout -q --detach $(git -C /repo rev-parse HEAD)', cwd=WT)
results = []
for diff in sorted(glob.glob(os.path.join(out, 'm*.diff'))):
    k = os.path.basename(diff)[:-5]
    clean()
    meta = {}
    try: meta = json.load(open(os.path.join(out, k + '.json')))
    except Exception as e: meta = {'summary': 'meta unreadable: %s' % e}
    demos = [f for f in glob.glob(os.path.join(out, k + '_demo*')) ]
    res = {'id': f'{prop}-{k}', 'property': prop, 'summary': meta.get('summary'), 'needs': meta.get('needs'), 'ran': []}
    demo_cmd = None; placed = None
    for d in demos:
        head = open(d).read(600)
        m = re.search(r'place in ([^\s;]+)\s*;\s*run:\s*(.+)', head)
        if m:
            placed = (d, m.group(1).strip().rstrip('/'))
            demo_cmd = m.group(2).strip().rstrip('`')
    if not demo_cmd:
        res['status'] = 'no demo command found'; results.append(res); print(res); continue
    dst = os.path.join(WT, placed[1], os.path.basename(placed[0]))
    os.makedirs(os.path.dirname(dst), exist_ok=True)
    shutil.copy(placed[0], dst)
    rc0, o0 = sh(demo_cmd, cwd=WT)
    res['ran'].append(f'clean tree: `{demo_cmd}` -> exit {rc0}')
    rca, oa = sh(f'git apply {diff}', cwd=WT)
    if rca != 0:
        res['status'] = 'patch does not apply: ' + oa[:300]; results.append(res); print(res); continue
    rcb, ob = sh('go build ./...', cwd=WT)
    res['ran'].append(f'patched: go build ./... -> exit {rcb}')
    rc1, o1 = sh(demo_cmd, cwd=WT)
    res['ran'].append(f'patched: `{demo_cmd}` -> exit {rc1}')
    confirmed = (rc0 == 0 and rcb == 0 and rc1 != 0)
    res['confirmed'] = confirmed
    if not confirmed:
        res['status'] = f'NOT CONFIRMED clean={rc0} build={rcb} patched={rc1}'
        res['clean_tail'] = o0[-400:]; res['patched_tail'] = o1[-400:]
    os.remove(dst)
    # run the check (static: the demo file is gone, only the production change remains)
    rcc, oc = sh(f'/verif/bin/mitumvet -noselftest -repo {WT} -property {prop} -evidence /tmp/seed-ev.json')
    viol = [l for l in oc.splitlines() if l.startswith(('VIOLATED', 'UNRESOLVED'))]
    res['detected'] = rcc == 1
    res['check_exit'] = rcc
    res['violations'] = [v[:260] for v in viol[:4]]
    if confirmed:
        sd = f'/verif/seeded/{prop}-{round_tag}{k}'
        os.makedirs(sd, exist_ok=True)
        shutil.copy(diff, os.path.join(sd, 'patch.diff'))
        shutil.copy(placed[0], os.path.join(sd, os.path.basename(placed[0])))
        json.dump({'property': prop, 'summary': meta.get('summary'), 'needs_to_manifest': meta.get('needs'),
                   'files': meta.get('files'), 'demo': {'place_in': placed[1], 'run': demo_cmd},
                   'confirmed_by': res['ran'], 'agent_ran': meta.get('ran'),
                   'detected_by_check': res['detected'], 'reported': res['violations']},
                  open(os.path.join(sd, 'meta.json'), 'w'), indent=1)
    results.append(res)
    print(json.dumps({k2: res[k2] for k2 in ('id', 'confirmed', 'detected', 'violations') if k2 in res}, indent=0)[:900])
    if not confirmed: print('   ', res.get('status'), '|', res.get('clean_tail', '')[-200:], '|', res.get('patched_tail', '')[-200:])
clean()
