#!/usr/bin/env python3
# usage: addfinding.py <property> <status known|fixed> <commit or -> <construct> <what> <reproducer>
import json,sys
p,status,commit,construct,what,repro=sys.argv[1:7]
f='/verif/known_findings.json'
d=json.load(open(f))
e={"property":p,"construct":construct,"status":status,"what":what,"reproducer":repro}
if status=='fixed':
    e["commit"]=commit
    e["line"]=f"fixed: property={p} {commit} {what}"
else:
    e["line"]=f"KNOWN-FINDING: property={p} {what}"
d=[x for x in d if not (x['property']==p and x['construct']==construct)]
d.append(e)
json.dump(d,open(f,'w'),indent=1,ensure_ascii=False)
open(f,'a').write('\n')
print(len(d),'entries')
