#!/bin/sh
# usage: trymut.sh <property> <file relative to /repo> <sed expression>
# Applies a one-off textual mutation to /repo, checks it still compiles, runs the property check, reverts.
export GOFLAGS=-mod=mod GOPROXY=off GOSUMDB=off GOTOOLCHAIN=local
P="$1"; F="$2"; E="$3"
cd /repo || exit 9
if ! git diff --quiet; then echo "repo dirty"; exit 9; fi
sed -i "$E" "$F"
if git diff --quiet; then echo "MUTATION DID NOT APPLY"; exit 8; fi
git diff | grep '^[+-]' | grep -v '^+++\|^---' | head -6
if ! go build "./$(dirname "$F")/" 2>&1 | head -5 | grep . ; then
  ${MITUMVET:-/verif/bin/mitumvet} -noselftest -property "$P" -evidence /tmp/mut-ev.json | grep -v "^VIOLATION" | grep -v "^KNOWN-FINDING" | cut -c1-300 | head -8
fi
git checkout -- .
