#!/usr/bin/env python3
"""Regenerates the generated blocks of /verif/DESIGN.md from the checker's registry (-describe),
known_findings.json and seeded/*/meta.json. Blocks are delimited by
<!-- BEGIN GENERATED:name --> ... <!-- END GENERATED:name -->."""
import json, os, re, subprocess, glob

V = '/verif'


def describe():
    out = subprocess.run([V + '/bin/mitumvet', '-describe'], capture_output=True, text=True).stdout
    return json.loads(out)


def evidence_counts():
    res = {}
    for f in glob.glob(V + '/evidence/C*.json'):
        try:
            e = json.load(open(f))
            c = e['coverage']
            res[e['property_id']] = (c.get('obligations'), len(c.get('functions_analysed', [])))
        except Exception:
            pass
    return res


def block_properties():
    ev = evidence_counts()
    lines = []
    for p in describe():
        ob, fns = ev.get(p['id'], ('?', '?'))
        lines.append(f"### {p['id']} — `checker/rules_{p['id']}.go` ({ob} obligations over {fns} functions on the current tree)\n")
        lines.append(f"*Decides:* {p['decides']}\n")
        lines.append(f"*Does not decide:* {p['not_decided']}\n")
    return '\n'.join(lines)


def block_findings():
    k = json.load(open(V + '/known_findings.json'))
    fixed = [e for e in k if e['status'] == 'fixed']
    known = [e for e in k if e['status'] == 'known']
    lines = ['**Repaired (`fix:` commits in /repo; each entry suppresses nothing — the rule named in the construct fires again if the defect returns):**\n',
             '| property | commit | rule / construct | what failed | how it was shown |', '|---|---|---|---|---|']
    for e in fixed:
        cons = e['construct'].split('#')
        rule = cons[1] if len(cons) > 1 else ''
        lines.append(f"| {e['property']} | `{e.get('commit','')}` | {rule}: `{cons[0]}` | {e['what']} | {e['reproducer']} |")
    lines += ['', '**Recorded, not repaired (the check prints `KNOWN-FINDING` for exactly these constructs and exits 0; any other violation of the same rule is still a VIOLATION):**\n',
              '| property | rule / construct | what fails and why it was not repaired | how it was shown |', '|---|---|---|---|']
    for e in known:
        cons = e['construct'].split('#')
        rule = cons[1] if len(cons) > 1 else ''
        lines.append(f"| {e['property']} | {rule}: `{cons[0]}` — {cons[2] if len(cons) > 2 else ''} | {e['what']} | {e['reproducer']} |")
    lines.append('')
    lines.append(f"Totals: {len(fixed)} repaired entries, {len(known)} known findings.")
    return '\n'.join(lines)


def block_seeded():
    rows = []
    for d in sorted(glob.glob(V + '/seeded/*/meta.json')):
        m = json.load(open(d))
        sid = os.path.basename(os.path.dirname(d))
        rules = []
        for r in m.get('reported') or []:
            mm = re.search(r'rule=(\S+) construct=([^#]+)#[^#]+#([^:]*?) site=', r)
            if mm:
                rules.append(f"{mm.group(1)} `{mm.group(2)}`: {mm.group(3).strip()}")
            else:
                mm = re.search(r'rule=(\S+) construct=(\S+)', r)
                if mm:
                    rules.append(f"{mm.group(1)} `{mm.group(2)[:80]}`")
        summ = (m.get('summary') or '').replace('\n', ' ').replace('|', '/')
        if len(summ) > 260:
            summ = summ[:257] + '…'
        det = 'yes' if m.get('detected_by_check') else 'NO'
        if m.get('obsolete'):
            det = 'obsolete'
        note = m.get('note', '')
        what = '; '.join(rules[:2]) if rules else (note[:200] if note else '')
        if m.get('obsolete'):
            what = m['obsolete'][:220]
        rows.append(f"| {sid} | {', '.join(m.get('files') or [])} | {summ} | {det} | {what} |")
    n = len(rows)
    nd = sum(1 for r in rows if '| yes |' in r)
    head = [f"{n} seeded changes are stored under `/verif/seeded/<id>/` (patch.diff, the sub-agent's demonstration, meta.json); {nd} are detected by the property's quick check on a scratch copy with the patch applied (`tools/reseed.py` re-runs all of them).\n",
            '| id | file(s) | change (sub-agent\'s summary) | detected | by rule (first reports) |', '|---|---|---|---|---|']
    return '\n'.join(head + rows)


def main():
    p = V + '/DESIGN.md'
    s = open(p).read()
    for name, fn in [('properties', block_properties), ('findings', block_findings), ('seeded', block_seeded)]:
        a, b = f'<!-- BEGIN GENERATED:{name} -->', f'<!-- END GENERATED:{name} -->'
        if a not in s:
            print('marker missing:', name)
            continue
        i, j = s.index(a) + len(a), s.index(b)
        s = s[:i] + '\n' + fn() + '\n' + s[j:]
    nfix = subprocess.run("git -C /repo log --format=%s | grep -c '^fix:'", shell=True, capture_output=True, text=True).stdout.strip()
    s = re.sub(r'\d+ `fix:` commits were made', nfix + ' `fix:` commits were made', s)
    open(p, 'w').write(s)
    print('DESIGN.md regenerated')


if __name__ == '__main__':
    main()
