package main

import (
	"fmt"
	"go/token"
	"go/types"

	"golang.org/x/tools/go/ssa"
)

func init() {
	Register(&Property{
		ID: "C01",
		Decides: "the structural necessary conditions of the tally, not its arithmetic: " +
			"(R01.1) base.FindMajority returns an index only for an element that was compared >= the clamped threshold (or the quorum), returns DRAW (-2) only after every element was compared, after the slice was sorted descending, and through one of the tabled draw tests over (quorum, sum of all elements, largest element, clamped threshold), returns NOT YET (-1) only for an empty set or after the draw test failed; no other value is returned; " +
			"(R01.2) every unsigned subtraction in FindMajority/FindVoteResult is reached only through an edge asserting subtrahend <= minuend (no wrap-around: the draw test is unsigned arithmetic over a vote sum that may exceed the quorum); " +
			"(R01.3) the threshold used in the comparisons is the clamp φ(quorum|threshold), quorum being chosen only when threshold > quorum; " +
			"(R01.4) FindVoteResult counts every vote exactly once under its own key, hands every distinct count to FindMajority together with the given quorum and threshold, maps -1/-2/index to NOT YET/DRAW/MAJORITY and reports as majority key a key whose count is the element FindMajority pointed at; " +
			"(R01.5) Threshold.VoteResult tallies against its own Threshold(quorum) and the given quorum and set; (R02.*) that required count has an exact ceiling-division shape (the rules of C02).",
		NotDecided: "that these tests give the right verdict for every (quorum, threshold, multiset) — the arithmetic itself (e.g. a draw formula of a tabled shape with a wrong constant operand order is caught, an altogether different correct formula is reported as an untabled shape); which key is reported when two keys have the same winning count (possible only with more votes than the quorum).",
		Technique:  "static analysis over go/ssa: must-pass-through gates on the returns of the tally, guard analysis for unsigned subtractions, descriptor match of the accumulators",
		Run:        runC01,
	})
}

func runC01(c *Ctx) {
	sum := "φ((↺ + set[ι])|0)"
	th := "φ(quorum|threshold)"
	loop := "(ι < len(set))"
	// tabled draw tests: the largest element plus the votes still missing cannot reach the threshold
	drawForms := []string{
		"((quorum - " + sum + ") + set[0])",
		"(set[0] + (quorum - " + sum + "))",
	}
	if fn := c.Need("base.FindMajority"); fn != nil {
		c.Rule("R01.1", "MustPass")
		idx := c.ReturnsD(fn, 0, "ι")
		c.MP(fn, "index: the element reached the clamped threshold", idx, 1, GCmp("set[ι]", ">=", th), GCmp("set[ι]", ">=", "quorum"))
		other := nonMatchingReturns(c, fn, 0, "ι", "-1", "-2")
		c.Report(fn, "only an element index, -1 or -2 is returned", fn.Pos(), len(other) == 0, fmt.Sprintf("%d other returns", len(other)))
		draw := c.ReturnsD(fn, 0, "-2")
		var drawGates []Gate
		for _, f := range drawForms {
			drawGates = append(drawGates, GCmp(globEscape(f), "<", globEscape(th)))
		}
		all := append([]Gate{GCmp(globEscape(sum), ">", "quorum")}, drawGates...)
		c.MP(fn, "draw: no element can still reach the threshold (tabled draw test)", draw, 1, all...)
		c.MP(fn, "draw: every element was compared with the threshold", draw, 1, GLoopDone(loop))
		c.MP(fn, "draw: the set was sorted (set[0] is the largest)", draw, 1, GCalled("sort.Slice(set, func:base.FindMajority$1)"))
		notyet := c.ReturnsD(fn, 0, "-1")
		var failed []Gate
		for _, f := range drawForms {
			failed = append(failed, GCmp(globEscape(f), ">=", globEscape(th)))
		}
		c.MP(fn, "not yet: empty set or the draw test failed", notyet, 1, append([]Gate{GCmp("len(set)", "<", "1")}, failed...)...)
		c.MP(fn, "not yet: empty set or every element was compared", notyet, 1, GCmp("len(set)", "<", "1"), GLoopDone(loop))
		c.ForEach(fn, "each element: compared with the clamped threshold", loop, 1, GCmp("set[ι]", "<", th))
		if cl := c.Need("base.FindMajority$1"); cl != nil {
			c.RetIsCmp(cl, "sort comparator orders descending", "set[i]", ">", "set[j]")
		}
		// R01.3 the clamp
		c.Rule("R01.3", "Dependence")
		var phi ssa.Value
		eachValue(fn, func(v ssa.Value) {
			if _, ok := v.(*ssa.Phi); ok && c.D(v) == th {
				phi = v
			}
		})
		if phi == nil {
			c.Unresolved(fn, "clamped threshold", "no value "+th)
		} else {
			c.MPEdge(fn, "clamp: quorum replaces the threshold only when threshold > quorum", c.PhiLeafEdges(phi, "quorum"), 1, GCmp("threshold", ">", "quorum"))
			c.MPEdge(fn, "clamp: the threshold is kept only when threshold <= quorum", c.PhiLeafEdges(phi, "threshold"), 1, GCmp("threshold", "<=", "quorum"))
		}
	}
	// R01.2 ---------------------------------------------------------------------------------
	c.Rule("R01.2", "BoundsGuard")
	nsub := 0
	for _, key := range []string{"base.FindMajority", "base.FindVoteResult"} {
		fn := c.Need(key)
		if fn == nil {
			continue
		}
		for _, b := range fn.Blocks {
			for _, in := range b.Instrs {
				bo, ok := in.(*ssa.BinOp)
				if !ok || bo.Op != token.SUB || !isUnsigned(bo.Type()) {
					continue
				}
				if _, isConst := bo.X.(*ssa.Const); isConst {
					if _, yc := bo.Y.(*ssa.Const); yc {
						continue
					}
				}
				nsub++
				x, y := c.D(bo.X), c.D(bo.Y)
				c.MP(fn, "unsigned "+x+" - "+y+" only when the subtrahend does not exceed the minuend", []ssa.Instruction{bo}, 1,
					GCmp(globEscape(y), "<=", globEscape(x)))
			}
		}
	}
	c.floors["R01.2 unsigned subtractions in the tally (0 is fine: nothing can wrap)"] = [2]int{0, nsub}
	// R01.4 ---------------------------------------------------------------------------------
	c.Rule("R01.4", "MustPass")
	if fn := c.Need("base.FindVoteResult"); fn != nil {
		count, keys, set := "make(map[string]uint)", "make(map[uint]string)", "make([]uint)"
		calls := c.CallsTo(fn, "base.FindMajority")
		c.ArgIs(fn, "FindMajority: the given quorum", calls, 1, 0, "quorum")
		c.ArgIs(fn, "FindMajority: the given (or clamped) threshold", calls, 1, 1, th, "threshold")
		c.ArgIs(fn, "FindMajority: the slice of counts", calls, 1, 2, set)
		call := "base.FindMajority(quorum, *, " + set + ")"
		maj := c.ReturnsD(fn, 0, "\"MAJORITY\"")
		c.MP(fn, "majority: the tally is not -1", maj, 1, GCmp(call, "!=", "-1"))
		c.MP(fn, "majority: the tally is not -2", maj, 1, GCmp(call, "!=", "-2"))
		for _, r := range maj {
			d := c.D(RetVal(r.(*ssa.Return), 1))
			c.Report(fn, "majority key: the key recorded for the count FindMajority pointed at", c.InstrPos(r),
				P(keys+"["+set+"["+call+"]]").Match(d), d)
		}
		c.MP(fn, "draw: the tally is -2", c.ReturnsD(fn, 0, "\"DRAW\""), 1, GCmp(call, "==", "-2"))
		c.MP(fn, "not yet: no votes or the tally is -1", c.ReturnsD(fn, 0, "\"NOT YET\""), 1, GCmp(call, "==", "-1"), GCmp("len(s)", "<", "1"))
		other := nonMatchingReturns(c, fn, 0, "\"MAJORITY\"", "\"DRAW\"", "\"NOT YET\"", "var:result")
		c.Report(fn, "only the three results are returned", fn.Pos(), len(other) == 0, fmt.Sprintf("%d other returns", len(other)))
		// counting
		c.ForEach(fn, "each vote: counted", "(ι < len(s))", 1, GMapUpdated(count))
		var cu, ku []*ssa.MapUpdate
		for _, b := range fn.Blocks {
			for _, in := range b.Instrs {
				if mu, ok := in.(*ssa.MapUpdate); ok {
					switch c.D(mu.Map) {
					case count:
						cu = append(cu, mu)
					case keys:
						ku = append(ku, mu)
					}
				}
			}
		}
		okc := len(cu) == 1 && c.D(cu[0].Key) == "s[ι]" && c.D(cu[0].Value) == "("+count+"[s[ι]] + 1)"
		w := fmt.Sprintf("%d updates of the count map", len(cu))
		if len(cu) == 1 {
			w = c.D(cu[0].Key) + " <- " + c.D(cu[0].Value)
		}
		c.Report(fn, "a vote adds exactly one to the count of its own key", fn.Pos(), okc, w)
		each := "more(" + count + ")"
		c.ForEach(fn, "each distinct key: its count goes into the set", each, 1, GStoredVal(count+"[κ("+count+")]"))
		c.ForEach(fn, "each distinct key: recorded under its count", each, 1, GMapUpdated(keys))
		okk := len(ku) == 1 && c.D(ku[0].Key) == count+"[κ("+count+")]" && c.D(ku[0].Value) == "κ("+count+")"
		w = fmt.Sprintf("%d updates of the key map", len(ku))
		if len(ku) == 1 {
			w = c.D(ku[0].Key) + " <- " + c.D(ku[0].Value)
		}
		c.Report(fn, "the key map records count -> key of that count", fn.Pos(), okk, w)
		sts := c.StoresD(fn, "&"+set+"[*]")
		c.Exists(fn, "the set slot written is a fresh slot per key", sts, 1)
		for _, s := range sts {
			d := c.D(s.(*ssa.Store).Addr)
			c.Report(fn, "set slot index advances by one per key", c.InstrPos(s), d == "&"+set+"[φ((↺ + 1)|0)]", d)
		}
		lens := c.CallsD(fn, "len("+count+")")
		c.Exists(fn, "the set has one slot per distinct key", lens, 1)
	}
	// R01.5 ---------------------------------------------------------------------------------
	c.Rule("R01.5", "Dependence")
	if fn := c.Need("base.(Threshold).VoteResult"); fn != nil {
		calls := c.CallsTo(fn, "base.FindVoteResult")
		c.ArgIs(fn, "FindVoteResult: the given quorum", calls, 1, 0, "quorum")
		c.ArgIs(fn, "FindVoteResult: this threshold's count for that quorum", calls, 1, 1, "t.Threshold(quorum)")
		c.ArgIs(fn, "FindVoteResult: the given votes", calls, 1, 2, "set")
		rs := Returns(fn)
		c.Floor(fn, "returns", len(rs), 1)
		for _, r := range rs {
			ok := len(r.Results) == 2 && P("base.FindVoteResult(quorum, t.Threshold(quorum), set)#0").Match(c.D(RetVal(r, 0))) &&
				P("base.FindVoteResult(quorum, t.Threshold(quorum), set)#1").Match(c.D(RetVal(r, 1)))
			c.Report(fn, "the tally's result and key are handed back unchanged", c.InstrPos(r), ok, "")
		}
	}
	// the required count itself: C02's rules (R02.*) on Threshold.Threshold, which VoteResult tallies against
	runC02(c)
}

func isUnsigned(t types.Type) bool {
	b, ok := t.Underlying().(*types.Basic)
	return ok && b.Info()&types.IsUnsigned != 0
}

// eachValue calls f for every value-producing instruction and parameter of fn.
func eachValue(fn *ssa.Function, f func(ssa.Value)) {
	for _, p := range fn.Params {
		f(p)
	}
	for _, b := range fn.Blocks {
		for _, in := range b.Instrs {
			if v, ok := in.(ssa.Value); ok {
				f(v)
			}
		}
	}
}
