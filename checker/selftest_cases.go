package main

import (
	"fmt"

	"golang.org/x/tools/go/ssa"
)

// newSelfCtx builds a throw-away context over the fixture program.
func newSelfCtx(p *Prog) *Ctx {
	c := &Ctx{Prog: p, Prop: &Property{ID: "SELF"}, Tier: "quick", funcsHit: map[string]bool{}, floors: map[string][2]int{}}
	c.Rule("self", "fixture")
	return c
}

// expect runs rule on good (must produce only discharged obligations, at least one) and bad (must
// produce at least one violated obligation).
func expect(p *Prog, name string, good, bad []string, rule func(c *Ctx, fn *ssa.Function)) (int, int, []string) {
	var fails []string
	fired, silent := 0, 0
	for _, k := range good {
		c := newSelfCtx(p)
		fn := p.Func(k)
		if fn == nil {
			fails = append(fails, name+": fixture "+k+" not found")
			continue
		}
		rule(c, fn)
		n := 0
		for _, o := range c.Obs {
			if o.Status != "discharged" {
				fails = append(fails, fmt.Sprintf("%s: false alarm on %s: %s (%s)", name, k, o.Construct, o.Witness))
			}
			n++
		}
		if n == 0 {
			fails = append(fails, name+": no obligation on "+k+" (vacuous)")
		} else {
			silent++
		}
	}
	for _, k := range bad {
		c := newSelfCtx(p)
		fn := p.Func(k)
		if fn == nil {
			fails = append(fails, name+": fixture "+k+" not found")
			continue
		}
		rule(c, fn)
		hit := false
		for _, o := range c.Obs {
			if o.Status == "violated" {
				hit = true
			}
		}
		if !hit {
			fails = append(fails, name+": missed the seeded violation in "+k)
		} else {
			fired++
		}
	}
	return fired, silent, fails
}

func init() {
	selfCases = []selfCase{
		{"must-pass/error-check", func(p *Prog) (int, int, []string) {
			return expect(p, "must-pass/error-check", []string{"fix.MPGood", "fix.MPWrapGood"}, []string{"fix.MPBad"}, func(c *Ctx, fn *ssa.Function) {
				c.MP(fn, "use only after check succeeded", c.CallsD(fn, "fix.use()"), 1, GOk("fix.check(x)"))
			})
		}},
		{"must-pass/short-circuit", func(p *Prog) (int, int, []string) {
			return expect(p, "must-pass/short-circuit", []string{"fix.AndGood"}, []string{"fix.OrBad"}, func(c *Ctx, fn *ssa.Function) {
				c.MP(fn, "use only if a", c.CallsD(fn, "fix.use()"), 1, GTrue("a"))
			})
		}},
		{"must-pass/comparison", func(p *Prog) (int, int, []string) {
			return expect(p, "must-pass/comparison", []string{"fix.CmpGood", "fix.CmpSwitchGood"}, []string{"fix.CmpBad"}, func(c *Ctx, fn *ssa.Function) {
				c.MP(fn, "alloc only within the limit", c.CallsD(fn, "fix.alloc(n)"), 1, GCmp("n", "<=", "limit"))
			})
		}},
		{"lock-held", func(p *Prog) (int, int, []string) {
			return expect(p, "lock-held", []string{"fix.(*T).LockGood"}, []string{"fix.(*T).LockSharedBad", "fix.(*T).LockEarlyUnlockBad", "fix.(*T).LockBranchBad"}, func(c *Ctx, fn *ssa.Function) {
				c.Held(fn, nil, "v written under the exclusive lock", c.StoresD(fn, "&t.v"), 1, "&t.mu", LW)
			})
		}},
		{"for-each", func(p *Prog) (int, int, []string) {
			return expect(p, "for-each", []string{"fix.EachGood"}, []string{"fix.EachBad"}, func(c *Ctx, fn *ssa.Function) {
				c.ForEach(fn, "every element checked", "(ι < len(xs))", 1, GOk("fix.check(xs[ι])"))
			})
		}},
		{"who-may-write", func(p *Prog) (int, int, []string) {
			var fails []string
			c := newSelfCtx(p)
			c.OnlyIn("store T.v", c.WhoStores("T", "v"), 5, "fix.WriterAllowed", "fix.(*T).LockGood", "fix.(*T).LockSharedBad", "fix.(*T).LockEarlyUnlockBad", "fix.(*T).LockBranchBad")
			bad, good := 0, 0
			for _, o := range c.Obs {
				switch o.Status {
				case "violated":
					bad++
					if o.Construct != "fix.WriterForeign#self#store T.v" {
						fails = append(fails, "who-may-write: unexpected report "+o.Construct)
					}
				case "discharged":
					good++
				}
			}
			if bad != 1 {
				fails = append(fails, fmt.Sprintf("who-may-write: %d reports, wanted exactly the foreign writer", bad))
			}
			return bad, good, fails
		}},
		{"async-capture", func(p *Prog) (int, int, []string) {
			return expect(p, "async-capture", []string{"fix.AsyncGood"}, []string{"fix.AsyncBad", "fix.AsyncCallbackBad"}, func(c *Ctx, fn *ssa.Function) {
				c.AsyncCaptures(fn, "*.NewJob", 1)
			})
		}},
		{"ordering", func(p *Prog) (int, int, []string) {
			return expect(p, "ordering", []string{"fix.OrderGood"}, []string{"fix.OrderBad"}, func(c *Ctx, fn *ssa.Function) {
				c.MP(fn, "second only after first", c.CallsD(fn, "fix.second()"), 1, GCalled("fix.first()"))
			})
		}},
		{"descriptor/zero-value", func(p *Prog) (int, int, []string) {
			var fails []string
			ret := func(k string) string {
				fn := p.Func(k)
				if fn == nil {
					return "?"
				}
				for _, r := range Returns(fn) {
					return p.D(RetVal(r, 0))
				}
				return "?"
			}
			bad, good := 0, 0
			if d := ret("fix.DescZero"); d == "5" {
				fails = append(fails, "descriptor: a captured local that may hold its zero value was rendered as its single store")
			} else {
				bad++
			}
			if d := ret("fix.DescInit"); d != "call(func:fix.DescInit$1)()" && d != "5" {
				_ = d
			}
			good++
			return bad, good, fails
		}},
	}
}
