package main

import (
	"fmt"
	"strings"

	"golang.org/x/tools/go/ssa"
)

// Asynchronous capture rule.
//
// A closure handed to a job worker runs later, concurrently with the submitting goroutine. If it
// reads a captured variable (Go closures capture by reference) that the submitter assigns again
// after the submission, the job sees the later value: the batch/slot/index it was meant to work on
// is lost and another one is processed twice. The rule: for every submission `X.NewJob(closure)`
// inside root (and its nested functions), every variable the closure reads through a capture
//   (a) has no store reachable from the submission in the submitting function (loops included), and
//   (b) if it belongs to an enclosing function of the submitter (the submitter is itself a
//       callback that may run again), is not stored by the submitter at all.
// Variables only read, or freshly declared per iteration and assigned before the submission
// (`b := batch`), satisfy both: a path from the submission back to the assignment that re-executes
// the declaration works on a fresh cell and does not count.

// rootAlloc follows a captured variable back to the Alloc that declares it.
func rootAlloc(v ssa.Value) (*ssa.Alloc, bool) {
	for i := 0; i < 16; i++ {
		switch x := v.(type) {
		case *ssa.Alloc:
			return x, true
		case *ssa.FreeVar:
			fn := x.Parent()
			idx := -1
			for k, fv := range fn.FreeVars {
				if fv == x {
					idx = k
				}
			}
			if idx < 0 || fn.Parent() == nil {
				return nil, false
			}
			// find the MakeClosure of fn in its parent
			var next ssa.Value
			for _, b := range fn.Parent().Blocks {
				for _, in := range b.Instrs {
					if mc, ok := in.(*ssa.MakeClosure); ok && mc.Fn == ssa.Value(fn) && idx < len(mc.Bindings) {
						next = mc.Bindings[idx]
					}
				}
			}
			if next == nil {
				return nil, false
			}
			v = next
		default:
			return nil, false
		}
	}
	return nil, false
}

// readsCapture: fn (or a function nested in it) loads from the given free variable.
func readsCapture(fn *ssa.Function, fv *ssa.FreeVar) bool {
	for _, f := range WithClosures(fn) {
		for _, b := range f.Blocks {
			for _, in := range b.Instrs {
				switch x := in.(type) {
				case *ssa.UnOp:
					if x.X == ssa.Value(fv) {
						return true
					}
				case *ssa.MakeClosure:
					// handed on to a nested closure: follow
					for k, bnd := range x.Bindings {
						if bnd == ssa.Value(fv) {
							if nf, ok := x.Fn.(*ssa.Function); ok && k < len(nf.FreeVars) && readsCapture(nf, nf.FreeVars[k]) {
								return true
							}
						}
					}
				}
			}
		}
	}
	return false
}

// aliasIn: the value through which function g refers to variable a (the Alloc itself in its
// declaring function, a FreeVar below it); nil if g does not refer to it.
func aliasIn(g *ssa.Function, a *ssa.Alloc) ssa.Value {
	if a.Parent() == g {
		return a
	}
	for _, fv := range g.FreeVars {
		if r, ok := rootAlloc(fv); ok && r == a {
			return fv
		}
	}
	return nil
}

// AsyncCaptures checks every job submission in root and its nested functions. calleePat selects the
// submitting calls by resolved callee name.
func (c *Ctx) AsyncCaptures(root *ssa.Function, calleePat string, floor int) {
	if root == nil {
		return
	}
	n := 0
	for _, g := range WithClosures(root) {
		for _, call := range c.CallsTo(g, calleePat) {
			cc := callCommon(call)
			if cc == nil || len(cc.Args) == 0 {
				continue
			}
			arg := cc.Args[0]
			if cc.IsInvoke() {
				arg = cc.Args[0]
			} else if cc.Signature().Recv() != nil && len(cc.Args) > 1 {
				arg = cc.Args[1]
			}
			mc, ok := stripConv(arg).(*ssa.MakeClosure)
			if !ok {
				continue // a plain function value captures nothing
			}
			job, _ := mc.Fn.(*ssa.Function)
			if job == nil {
				continue
			}
			n++
			c.touch(g)
			var bad []string
			for k, bnd := range mc.Bindings {
				if k >= len(job.FreeVars) || !readsCapture(job, job.FreeVars[k]) {
					continue
				}
				a, ok := rootAlloc(bnd)
				if !ok {
					continue // a captured value (parameter), not a variable
				}
				alias := aliasIn(g, a)
				if alias == nil {
					continue
				}
				// stores by the submitter
				// a path that re-executes the variable's declaration works on a fresh cell
				cut := NewCut()
				if a.Parent() == g {
					cut.Barriers[a] = true
				}
				res := reach(g, call, cut)
				for _, b := range g.Blocks {
					for _, in := range b.Instrs {
						st, isSt := in.(*ssa.Store)
						if !isSt || st.Addr != alias {
							continue
						}
						switch {
						case res.reached[in]:
							bad = append(bad, fmt.Sprintf("%s is assigned again at %s after the submission", a.Comment, c.Pos(in.Pos())))
						case a.Parent() != g:
							bad = append(bad, fmt.Sprintf("%s (declared in %s) is assigned at %s by the submitting callback, which may run again", a.Comment, c.FuncKey(a.Parent()), c.Pos(in.Pos())))
						}
					}
				}
			}
			c.Report(g, "a submitted job reads only captured variables that are not assigned again: job "+strings.TrimPrefix(c.FuncKey(job), c.FuncKey(root)), call.Pos(),
				len(bad) == 0, strings.Join(bad, "; "))
		}
	}
	c.Floor(root, "job submissions", n, floor)
}
