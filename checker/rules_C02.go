package main

import (
	"fmt"
	"go/constant"
	"go/token"

	"golang.org/x/tools/go/ssa"
)

func init() {
	Register(&Property{
		ID: "C02",
		Decides: "(R02.1) in base.Threshold.Threshold no floating-point value is data-dependent on the suffrage-size parameter (the product n*t is never formed or rounded in floating point; floats touch the threshold alone, only as Round(t*10^k)); " +
			"(R02.2) the returned expression has one of the tabled exact ceiling-division shapes (n*K + d-1)/d or n*K/d + [n*K%d != 0], with K = Round(t*s) and d = 100*s consistent; any other shape is reported as undecided (fails).",
		NotDecided: "the numeric result for concrete (n, t) (no evaluation is performed); unsigned overflow for n*K beyond 2^64 (outside the stated grid); float comparison in base.CheckFactSignsBySuffrage (reported under C17).",
		Technique:  "static analysis over go/ssa: def-use slice for float taint from the size parameter + structural recognition of the exact ceiling-division idiom",
		Run:        runC02,
	})
}

func runC02(c *Ctx) {
	runC02b(c)
	c.Rule("R02.1", "Dependence")
	fn := c.Need("base.(Threshold).Threshold")
	if fn == nil {
		return
	}
	if len(fn.Params) != 2 {
		c.Rule("R02.1", "Dependence")
		c.Unresolved(fn, "signature", "expected (receiver, size) parameters")
		return
	}
	t, n := fn.Params[0], fn.Params[1]
	rets := Returns(fn)
	c.Rule("R02.1", "Dependence")
	c.Floor(fn, "returns", len(rets), 1)
	for i, r := range rets {
		if len(r.Results) != 1 {
			continue
		}
		rv := RetVal(r, 0)
		slice := c.BackSlice(rv)
		var bad []string
		for x := range slice {
			if !isFloat(x.Type()) {
				// a float-consuming call returning non-float (e.g. compare) is irrelevant here
				continue
			}
			if x == ssa.Value(n) {
				continue
			}
			if c.DependsOn(x, func(y ssa.Value) bool { return y == ssa.Value(n) }) {
				bad = append(bad, c.D(x))
			}
		}
		ok := len(bad) == 0
		w := "no float value in the def-use slice of the result depends on parameter " + n.Name()
		if !ok {
			w = fmt.Sprintf("float values depending on the size parameter %s: %v", n.Name(), bad)
		}
		c.Report(fn, fmt.Sprintf("return/%d: float-free in %s", i, n.Name()), c.InstrPos(r), ok, w)

		c.Rule("R02.2", "CeilShape")
		shape, ok2 := ceilShape(c, rv, n, t)
		c.Report(fn, fmt.Sprintf("return/%d: exact ceiling-division shape", i), c.InstrPos(r), ok2, shape+"; expression: "+c.D(rv))
		c.Rule("R02.1", "Dependence")
	}
}

func runC02b(c *Ctx) {
	c.Rule("R02.3", "Dependence")
	if fn := c.Need("base.(Threshold).VoteResult"); fn != nil {
		calls := c.CallsTo(fn, "base.FindVoteResult")
		c.ArgIs(fn, "FindVoteResult: quorum is the suffrage size given", calls, 1, 0, "quorum")
		c.ArgIs(fn, "FindVoteResult: threshold count is Threshold(quorum) of the same size", calls, 1, 1, "t.Threshold(quorum)")
		c.ArgIs(fn, "FindVoteResult: the vote set given", calls, 1, 2, "set")
	}
}

func constInt(v ssa.Value) (int64, bool) {
	k, ok := stripConv(v).(*ssa.Const)
	if !ok || k.Value == nil {
		return 0, false
	}
	switch k.Value.Kind() {
	case constant.Int:
		return k.Int64(), true
	case constant.Float:
		f, _ := constant.Float64Val(k.Value)
		if f == float64(int64(f)) {
			return int64(f), true
		}
	}
	return 0, false
}

func binop(v ssa.Value, op token.Token) (x, y ssa.Value, ok bool) {
	b, isb := stripConv(v).(*ssa.BinOp)
	if !isb || b.Op != op {
		return nil, nil, false
	}
	return b.X, b.Y, true
}

// scaledThreshold recognises K = Round(t * s) (s = 10^k, k>=1) converted to an integer, or the
// receiver itself when s == 1 is not accepted (t has one decimal). Returns s.
func scaledThreshold(c *Ctx, v ssa.Value, t *ssa.Parameter) (int64, bool) {
	call, ok := stripConv(v).(*ssa.Call)
	if !ok || CalleeFullName(&call.Call) != "math.Round" || len(call.Call.Args) != 1 {
		return 0, false
	}
	x, y, ok := binop(call.Call.Args[0], token.MUL)
	if !ok {
		return 0, false
	}
	isT := func(v ssa.Value) bool {
		v = stripConv(v)
		if v == ssa.Value(t) {
			return true
		}
		// t.Float64()
		if cl, ok := v.(*ssa.Call); ok && CalleeFullName(&cl.Call) == "(base.Threshold).Float64" && len(cl.Call.Args) == 1 {
			return stripConv(cl.Call.Args[0]) == ssa.Value(t)
		}
		return false
	}
	var s int64
	switch {
	case isT(x):
		s, ok = constInt(y)
	case isT(y):
		s, ok = constInt(x)
	default:
		return 0, false
	}
	if !ok {
		return 0, false
	}
	for _, p := range []int64{10, 100, 1000, 10000} {
		if s == p {
			return s, true
		}
	}
	return 0, false
}

// product recognises n*K in either order; returns the scale of K.
func product(c *Ctx, v ssa.Value, n, t *ssa.Parameter) (int64, bool) {
	x, y, ok := binop(v, token.MUL)
	if !ok {
		return 0, false
	}
	isN := func(v ssa.Value) bool { return stripConv(v) == ssa.Value(n) }
	if isN(x) {
		return scaledThreshold(c, y, t)
	}
	if isN(y) {
		return scaledThreshold(c, x, t)
	}
	return 0, false
}

func ceilShape(c *Ctx, rv ssa.Value, n, t *ssa.Parameter) (string, bool) {
	// shape A: (n*K + (d-1)) / d
	if num, den, ok := binop(rv, token.QUO); ok {
		if d, ok := constInt(den); ok {
			if a, b, ok := binop(num, token.ADD); ok {
				for _, pr := range [][2]ssa.Value{{a, b}, {b, a}} {
					if s, ok := product(c, pr[0], n, t); ok {
						if k, ok := constInt(pr[1]); ok {
							if d == 100*s && k == d-1 {
								return fmt.Sprintf("shape (n*K + d-1)/d with K=Round(t*%d), d=%d", s, d), true
							}
							return fmt.Sprintf("ceiling idiom with inconsistent constants: scale=%d addend=%d divisor=%d (need divisor=100*scale, addend=divisor-1)", s, k, d), false
						}
					}
				}
			}
		}
	}
	// shape B: q = n*K/d ; if n*K%d != 0 { q++ }  (phi of q and q+1)
	if phi, ok := stripConv(rv).(*ssa.Phi); ok && len(phi.Edges) == 2 {
		for _, pr := range [][2]ssa.Value{{phi.Edges[0], phi.Edges[1]}, {phi.Edges[1], phi.Edges[0]}} {
			q, inc := pr[0], pr[1]
			a, one, ok := binop(inc, token.ADD)
			if !ok {
				continue
			}
			if k, ok := constInt(one); !ok || k != 1 || stripConv(a) != stripConv(q) {
				continue
			}
			num, den, ok := binop(q, token.QUO)
			if !ok {
				continue
			}
			d, ok := constInt(den)
			if !ok {
				continue
			}
			s, ok := product(c, num, n, t)
			if !ok || d != 100*s {
				continue
			}
			// the controlling condition must be (n*K % d) != 0 / == 0 / > 0
			for _, b := range phi.Parent().Blocks {
				ifi, ok := b.Instrs[len(b.Instrs)-1].(*ssa.If)
				if !ok {
					continue
				}
				cmp, ok := ifi.Cond.(*ssa.BinOp)
				if !ok {
					continue
				}
				rem, rden, ok := binop(cmp.X, token.REM)
				if !ok {
					continue
				}
				if z, ok := constInt(cmp.Y); !ok || z != 0 {
					continue
				}
				if rd, ok := constInt(rden); !ok || rd != d {
					continue
				}
				if s2, ok := product(c, rem, n, t); !ok || s2 != s {
					continue
				}
				// which edge leads to the increment?
				incBlock := inc.(ssa.Instruction).Block()
				tEdge := b.Succs[0] == incBlock
				want := (cmp.Op == token.NEQ || cmp.Op == token.GTR) == tEdge
				if (cmp.Op == token.NEQ || cmp.Op == token.GTR || cmp.Op == token.EQL) && want {
					return fmt.Sprintf("shape n*K/d + [n*K%%d != 0] with K=Round(t*%d), d=%d", s, d), true
				}
			}
		}
	}
	return "UNDECIDED: the returned expression is none of the tabled exact ceiling-division idioms", false
}
