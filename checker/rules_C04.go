package main

import (
	"strings"

	"golang.org/x/tools/go/ssa"
)

func init() {
	Register(&Property{
		ID: "C04",
		Decides: "(R04.1) voteproofs are sent on the ballotbox's channel only by Ballotbox.newVoteproof, which is called only from the deferred vote closure, countVoterecords and countHoldeds; " +
			"(R04.2) every value handed to newVoteproof is an element of a record's count/countHolded result or the ballot's embedded voteproof after voteproofFromBallots accepted it; count returns only values from voteproofFromBallot (validated by isaac.IsValidVoteproofWithSuffrage through the record's validator, threshold not below the local one, filter passed) or countFromVoted (built by the record's own constructor); " +
			"(R04.3) voteproof constructors receive the record's own stage point and the constructor's stage matches the record's stage; " +
			"(R04.4) every sign fact stored into a record's voted set is keyed by its node and was checked against the suffrage public key (directly or via isValidBallot); " +
			"(R04.5) the record a ballot is stored in is looked up with the point and suffrage-confirm flag of that same ballot's fact; (R04.7) record fields are accessed under the record lock.; (R04.9) countWithExpels counts expel votes against the pair the validator recounts with (suffrage without the expelled, 100%) in every iteration — violated today, known finding; (R04.10) a valid threshold is a number; (R04.11) a voteproof taken from a ballot is accepted only with the local threshold — violated today, known finding",
		NotDecided: "equality of the emitted result with a fresh recount for all vote sets (C01); stuck voteproofs built from copyVoted; scheduling of concurrent voters beyond lock discipline.",
		Run:        runC04,
	})
}

func runC04(c *Ctx) {
	// R04.10: the threshold a voteproof declares is what other nodes recount it with; a declared value is
	// valid only if it is a number (every ordinary comparison is false for NaN)
	c.Rule("R04.10", "MustPass")
	if fn := c.Need("base.(Threshold).IsValid"); fn != nil {
		c.MP(fn, "a valid threshold is a number", c.SuccessReturns(fn), 1, GFalse("math.IsNaN(*)"), GCmp("t", "==", "t"))
	}
	c.Rule("R04.11", "MustPass")
	// R04.11: "its result equals a fresh recount": a voteproof taken from a ballot is emitted only if it
	// declares the local threshold (or was recounted with it); a higher declared threshold turns
	// NOT YET into DRAW
	if fn := c.Need("isaac/states.(*voterecords).voteproofFromBallots"); fn != nil {
		acc := c.ReturnsD(fn, 0, "true")
		exact := allOK(c.MustPass(fn, nil, acc, GCmp("vp.Threshold()", "==", "threshold"), GTrue("vp.Threshold().Equal(threshold)"), GTrue("threshold.Equal(vp.Threshold())"),
			GOk("base.IsValidVoteproofWithSuffrage(vp, *, threshold)")))
		c.Report(fn, "a voteproof from a ballot is accepted only with the local threshold (declared equal, or recounted with it)", fn.Pos(), len(acc) > 0 && exact,
			"accepted whenever the declared threshold is not below the local one; the recount (isValidVoteproof) uses the declared threshold")
	}
	// R04.9: what the ballotbox emits must pass the validation other nodes apply. For a voteproof with
	// expels isaac.IsValidVoteproofWithSuffrage always recounts over (suffrage without the expelled,
	// 100%) — C03 R03.1p; countWithExpels must count against that pair in every iteration.
	c.Rule("R04.9", "SiblingAgreement")
	if fn := c.Need("isaac/states.(*voterecords).countWithExpels"); fn != nil {
		loop := "(ι < len(isaacstates.sortBallotSignFactsByExpels(local, vr.voted, vr.expels)))"
		c.ForEach(fn, "expel votes are counted with the validator's threshold (100%) in every iteration", loop, 1, GStoredVal("base.MaxThreshold"))
		c.ForEach(fn, "expel votes are counted over the validator's quorum (suffrage without the expelled) in every iteration", loop, 1,
			GStoredVal("(suf.Len() - len(isaacstates.sortBallotSignFactsByExpels(local, vr.voted, vr.expels)[ι][0]))"))
	}
	// R04.1 ----------------------------------------------------------------------------------
	c.Rule("R04.1", "WhoMaySend")
	var sends []Site
	for _, fn := range c.Funcs {
		for _, in := range allInstrs(fn) {
			if s, ok := in.(*ssa.Send); ok && P("box.vpch").Match(c.D(s.Chan)) && strings.HasPrefix(c.FuncKey(fn), "isaac/states.(*Ballotbox)") {
				sends = append(sends, Site{fn, in})
			}
		}
	}
	c.OnlyIn("send on Ballotbox.vpch", sends, 1, "isaac/states.(*Ballotbox).newVoteproof")
	for _, s := range sends {
		snd := s.In.(*ssa.Send)
		c.Report(s.Fn, "sent value is newVoteproof's argument", c.InstrPos(s.In), c.D(snd.X) == "vp", "sent: "+c.D(snd.X))
	}
	// any other function selecting/sending on a chan of base.Voteproof typed field vpch
	nv := c.WhoCalls("(*isaac/states.Ballotbox).newVoteproof")
	c.OnlyIn("call Ballotbox.newVoteproof", nv, 3,
		"isaac/states.(*Ballotbox).vote", "isaac/states.(*Ballotbox).countVoterecords", "isaac/states.(*Ballotbox).countHoldeds")
	// R04.2 provenance --------------------------------------------------------------------------
	c.Rule("R04.2", "MustPass")
	if fn := c.Need("isaac/states.(*Ballotbox).vote$1"); fn != nil {
		calls := c.CallsD(fn, "box.newVoteproof(*)")
		c.MP(fn, "embedded voteproof emitted only if voteproofFromBallots accepted it", calls, 1,
			GTrue("box.newVoterecords(signfact.Fact().Point(), isaac.IsSuffrageConfirmBallotFact(signfact.Fact())).voteproofFromBallotsLocked(vp, box.LastPoint(), call(box.getThreshold)(), func:isaac.IsNewVoteproof)"))
		c.ArgIs(fn, "embedded voteproof emitted is the ballot's", calls, 1, 0, "vp")
	}
	if fn := c.Need("isaac/states.(*Ballotbox).countVoterecords"); fn != nil {
		calls := c.CallsD(fn, "box.newVoteproof(*)")
		c.ArgIs(fn, "counted voteproof emitted is a filtered count result", calls, 1, 0, "var:filtered[ι]")
		c.MP(fn, "emission: the record's stage point is still new", calls, 1, GTrue("box.isNewBallot(vr.stagepoint(), vr.isSuffrageConfirm())"))
		c.Held(fn, nil, "emission under countLock", calls, 1, "&box.countLock", LW)
		c.Exists(fn, "count called on the given record with the box's threshold",
			c.CallsD(fn, "vr.count(box.local, box.LastPoint(), call(box.getThreshold)(), box.countAfter)"), 1)
	}
	if cl := c.Need("isaac/states.(*Ballotbox).countVoterecords$1"); cl != nil {
		// filtered only from vps
		sts := c.StoresD(cl, "&var:filtered")
		c.StoredIs(cl, "filtered list derives from the count result", sts, 2,
			"var:vps", "vr.count(box.local, box.LastPoint(), call(box.getThreshold)(), box.countAfter)", "call(util.CompactAppendSlice(3)#1)()")
		adds := c.CallsD(cl, "call(util.CompactAppendSlice(3)#0)(*)")
		c.ArgIs(cl, "filtered element is a count result element", adds, 1, 0, "vr.count(box.local, box.LastPoint(), call(box.getThreshold)(), box.countAfter)[ι]", "var:vps[ι]")
		c.MP(cl, "filtered element is newer than the last point", adds, 1,
			GTrue("call(isaacstates.isNewVoteproofWithSuffrageConfirmFunc(vr.isSuffrageConfirm()))(last, *[ι])"))
	}
	if fn := c.Need("isaac/states.(*Ballotbox).countHoldeds"); fn != nil {
		calls := c.CallsD(fn, "box.newVoteproof(*)")
		c.ArgIs(fn, "held voteproof emitted is a countHolded result", calls, 1, 0,
			"box.unfinishedVoterecords()[ι].countHolded(box.local, box.LastPoint(), box.countAfter)[ι′]")
	}
	if fn := c.Need("isaac/states.(*voterecords).countHolded"); fn != nil {
		for _, r := range nonMatchingReturns(c, fn, 0, "nil") {
			c.Report(fn, "countHolded returns only count results", c.InstrPos(r), P("vr.count(local, last, vr.lastthreshold, duration)").Match(c.D(RetVal(r.(*ssa.Return), 0))), c.D(RetVal(r.(*ssa.Return), 0)))
		}
	}
	if fn := c.Need("isaac/states.(*voterecords).count"); fn != nil {
		// every element appended to the result is a voteproofFromBallot or countFromVoted result
		sts := c.StoresD(fn, "&var:varargs[0]")
		c.StoredIs(fn, "count result elements", sts, 2,
			"vr.voteproofFromBallot(last, threshold, isaacstates.isNewVoteproofWithSuffrageConfirmFunc(vr.isc))",
			"vr.countFromVoted(local, threshold, vr.getSuffrage()#0, countAfter)")
		ts := append(c.CallsD(fn, "vr.countFromVoted(*)"), c.CallsD(fn, "vr.voteproofFromBallot(*)")...)
		c.MP(fn, "counting: record not finished", ts, 2, GNil("vr.vp"))
		c.MP(fn, "counting: record's stage point is ahead of the last point", ts, 2, GTrue("last.Before(vr.sp, vr.isc)"))
		c.Held(fn, nil, "counting under the record lock", ts, 2, "&vr", LW)
		cf := c.CallsD(fn, "vr.countFromVoted(*)")
		c.MP(fn, "countFromVoted: suffrage found", cf, 1, GTrue("vr.getSuffrage()#1"))
		c.MP(fn, "countFromVoted: suffrage lookup succeeded", cf, 1, GOk("vr.getSuffrage()"))
		c.ArgIs(fn, "countFromVoted: counts against the record's suffrage", cf, 1, 2, "vr.getSuffrage()#0")
	}
	if fn := c.Need("isaac/states.(*voterecords).voteproofFromBallot"); fn != nil {
		for _, r := range nonMatchingReturns(c, fn, 0, "nil") {
			c.MP(fn, "voteproof from ballots returned only if accepted", []ssaInstr{r}, 1,
				GTrue("vr.voteproofFromBallots(vr.vps[κ(vr.vps)], last, threshold, filter)"))
			c.Report(fn, "returned voteproof is the accepted one", c.InstrPos(r), c.D(RetVal(r.(*ssa.Return), 0)) == "vr.vps[κ(vr.vps)]", c.D(RetVal(r.(*ssa.Return), 0)))
		}
		c.Exists(fn, "has a non-nil return", nonMatchingReturns(c, fn, 0, "nil"), 1)
	}
	if fn := c.Need("isaac/states.(*voterecords).voteproofFromBallots"); fn != nil {
		acc := c.ReturnsD(fn, 0, "true")
		c.MP(fn, "accept: the record's validator succeeded", acc, 1, GOk("call(vr.isValidVoteproof)(vp, call(vr.getSuffrageFunc)(vp.Point().Height().SafePrev())#0)"))
		c.MP(fn, "accept: suffrage found", acc, 1, GTrue("call(vr.getSuffrageFunc)(vp.Point().Height().SafePrev())#1"))
		c.MP(fn, "accept: suffrage lookup succeeded", acc, 1, GOk("call(vr.getSuffrageFunc)(vp.Point().Height().SafePrev())"))
		c.MP(fn, "accept: threshold not below the local one", acc, 1, GCmp("vp.Threshold()", ">=", "threshold"))
		c.MP(fn, "accept: filter passed", acc, 1, GTrue("call(filter)(last, vp)"))
		c.MP(fn, "accept: record not finished", acc, 1, GFalse("vr.isFinished()"))
	}
	if fn := c.Need("isaac/states.(*Ballotbox).isValidVoteproof"); fn != nil {
		c.MP(fn, "box validator: isaac.IsValidVoteproofWithSuffrage succeeded", c.SuccessReturns(fn), 1, GOk("isaac.IsValidVoteproofWithSuffrage(vp, suf)"))
	}
	if cl := c.Need("isaac/states.(*Ballotbox).newVoterecords$1"); cl != nil {
		calls := c.CallsTo(cl, "isaac/states.newVoterecords")
		c.ArgIs(cl, "records validate with the box validator", calls, 1, 1, "func:.isValidVoteproof$bound")
		c.ArgIs(cl, "records created for the requested stage point", calls, 1, 0, "stagepoint")
		c.ArgIs(cl, "records created with the requested suffrage-confirm flag", calls, 1, 4, "isSuffrageConfirm")
		c.ArgIs(cl, "records use the box's suffrage source", calls, 1, 2, "box.getSuffrage")
	}
	// R04.3 constructors --------------------------------------------------------------------------
	c.Rule("R04.3", "Dependence")
	for _, name := range []string{"newVoteproof", "newStuckVoteproof"} {
		fn := c.Need("isaac/states.(*voterecords)." + name)
		if fn == nil {
			continue
		}
		n := 0
		for _, k := range []struct{ ctor, stage string }{
			{"isaac.NewINITExpelVoteproof", "INIT"}, {"isaac.NewINITVoteproof", "INIT"}, {"isaac.NewINITStuckVoteproof", "INIT"},
			{"isaac.NewACCEPTExpelVoteproof", "ACCEPT"}, {"isaac.NewACCEPTVoteproof", "ACCEPT"}, {"isaac.NewACCEPTStuckVoteproof", "ACCEPT"},
		} {
			calls := c.CallsTo(fn, k.ctor)
			if len(calls) == 0 {
				continue
			}
			n += len(calls)
			c.ArgIs(fn, k.ctor+": the record's own point", calls, 1, 0, "vr.sp")
			c.MP(fn, k.ctor+": record stage is "+k.stage, calls, 1, GCmp("vr.sp.Stage()", "==", "\""+k.stage+"\""))
			if strings.Contains(k.ctor, "Expel") {
				c.MP(fn, k.ctor+": only with expels", calls, 1, GCmp("len(expels)", ">", "0"))
			}
		}
		min := 4
		if name == "newStuckVoteproof" {
			min = 2
		}
		c.Floor(fn, "voteproof constructor calls", n, min)
		sf := c.CallsD(fn, "*.SetSignFacts(sfs)")
		c.Exists(fn, "constructors take the given sign facts", sf, min)
		c.Exists(fn, "constructors take the given majority", c.CallsD(fn, "*.SetMajority(majority)"), min)
	}
	if fn := c.Need("isaac/states.(*voterecords).countFromVoted"); fn != nil {
		sts := c.StoresD(fn, "&vr.vp")
		c.StoredIs(fn, "the record's voteproof is built by its own constructor from its own votes", sts, 2,
			"vr.newVoteproof(vr.countWithExpels(local, suf, threshold)#1, vr.countWithExpels(local, suf, threshold)#2, threshold, vr.countWithExpels(local, suf, threshold)#3)",
			"vr.newVoteproof(vr.sfs(vr.voted)#0, φ(nil|vr.sfs(vr.voted)#2[threshold.VoteResult(suf.Len(), vr.sfs(vr.voted)#1)#1]), threshold, nil)")
		for _, r := range nonMatchingReturns(c, fn, 0, "var:vp", "nil") {
			c.Report(fn, "countFromVoted returns the record's voteproof", c.InstrPos(r), c.D(RetVal(r.(*ssa.Return), 0)) == "vr.vp", c.D(RetVal(r.(*ssa.Return), 0)))
		}
	}
	c.OnlyIn("store voterecords.vp", c.WhoStores("voterecords", "vp"), 2,
		"isaac/states.(*voterecords).countFromVoted", "isaac/states.newVoterecords")
	// R04.4 voted set -------------------------------------------------------------------------------
	c.Rule("R04.4", "MustPass")
	nStores := 0
	for _, fn := range c.FuncsWithPrefix("isaac/states.(*voterecords).") {
		mus := c.MapUpdatesD(fn, "vr.voted")
		for _, in := range mus {
			nStores++
			mu := in.(*ssa.MapUpdate)
			val := c.D(mu.Value)
			key := c.D(mu.Key)
			c.Report(fn, "voted set keyed by the stored sign fact's node", c.InstrPos(in), key == val+".Node().String()", "key "+key+" value "+val)
			c.MP(fn, "voted set entry: signer key checked against the suffrage", []ssaInstr{in}, 1,
				GTrue("suf.ExistsPublickey("+val+".Node(), "+val+".Signer())"),
				GOk("vr.isValidBallot("+val+", *)"))
		}
	}
	c.Floor(nil, "stores into voterecords.voted", nStores, 2)
	if fn := c.Need("isaac/states.(*voterecords).isValidBallot"); fn != nil {
		succ := c.SuccessReturns(fn)
		c.MP(fn, "valid ballot: signer key is the node's key in the suffrage", succ, 1, GTrue("suf.ExistsPublickey(signfact.Node(), signfact.Signer())"))
		c.ForEach(fn, "valid ballot: each expel valid for the suffrage", "(ι < len(vr.expels[signfact.Node().String()]))", 1,
			GOk("isaac.IsValidExpelWithSuffrage(signfact.Fact().Point().Height(), vr.expels[signfact.Node().String()][ι], suf)"))
	}
	if fn := c.Need("isaac/states.(*voterecords).vote"); fn != nil {
		var ts []ssa.Instruction
		for _, m := range []string{"vr.vps", "vr.expels", "vr.ballots", "vr.voted"} {
			ts = append(ts, c.MapUpdatesD(fn, m)...)
		}
		c.MP(fn, "record a vote: node has not voted yet", ts, 4, GFalse("vr.isVoted(signfact.Node())"))
		c.MP(fn, "record a vote: record not finished", ts, 4, GNil("vr.vp"))
		c.MP(fn, "record a vote: stage point ahead of the last point", ts, 4, GTrue("last.Before(vr.sp, vr.isc)"))
		c.Held(fn, nil, "record a vote under the record lock", ts, 4, "&vr", LW)
		for _, in := range ts {
			mu := in.(*ssa.MapUpdate)
			c.Report(fn, "vote maps keyed by the voter's node", c.InstrPos(in), c.D(mu.Key) == "signfact.Node().String()", c.D(mu.Map)+" key "+c.D(mu.Key))
		}
	}
	if fn := c.Need("isaac/states.(*voterecords).isVoted"); fn != nil {
		// consults all three maps
		var looks []string
		for _, in := range allInstrs(fn) {
			if l, ok := in.(*ssa.Lookup); ok {
				looks = append(looks, c.D(l.X))
			}
		}
		have := strings.Join(looks, ",")
		for _, m := range []string{"vr.vps", "vr.ballots", "vr.voted"} {
			c.Report(fn, "isVoted consults "+m, fn.Pos(), strings.Contains(have, m), "lookups: "+have)
		}
	}
	// R04.4e: votes counted together with expels exclude the expelled nodes' own sign facts
	c.Rule("R04.4e", "Dependence")
	if fn := c.Need("isaac/states.extractExpelsFromBallot"); fn != nil {
		if cl := c.ClosureWithCall(fn, "slices.IndexFunc(*)"); cl != nil {
			c.RetIsCmp(cl, "sign facts of expelled nodes are filtered out of the expel count", "slices.IndexFunc(make([]base.SuffrageExpelFact), *)", "<", "0")
			if inner := c.ClosureWithCall(cl, "sf.Node().Equal(*)"); inner != nil {
				c.Exists(inner, "expelled node matched by the sign fact's node", c.ReturnsD(inner, 0, "sf.Node().Equal(j.Node())"), 1)
			}
		}
		c.StoredIs(fn, "filtered sign facts are what is counted", c.StoresD(fn, "&var:m[1]"), 1, "util.FilterSlice(sfs, *)")
		c.StoredIs(fn, "expel facts collected from the given expels", c.StoresD(fn, "&make([]base.SuffrageExpelFact)[ι]"), 1, "expels[ι].ExpelFact()")
	}
	// R04.5 ---------------------------------------------------------------------------------------
	c.Rule("R04.5", "Dependence")
	if fn := c.Need("isaac/states.(*Ballotbox).vote"); fn != nil {
		nr := c.CallsD(fn, "box.newVoterecords(*)")
		c.ArgIs(fn, "record looked up with the ballot fact's point", nr, 1, 0, "signfact.Fact().Point()")
		c.ArgIs(fn, "record looked up with the ballot fact's suffrage-confirm flag", nr, 1, 1, "isaac.IsSuffrageConfirmBallotFact(signfact.Fact())")
		vt := c.CallsTo(fn, "(*isaac/states.voterecords).vote")
		c.ArgIs(fn, "the same sign fact is stored", vt, 1, 0, "signfact")
		c.MP(fn, "vote: ballot's point is new", vt, 1, GTrue("box.isNewBallot(signfact.Fact().Point(), isaac.IsSuffrageConfirmBallotFact(signfact.Fact()))"))
	}
	if fn := c.Need("isaac/states.(*Ballotbox).Vote"); fn != nil {
		v := c.CallsD(fn, "box.vote(*)")
		c.ArgIs(fn, "Vote stores the ballot's sign fact", v, 1, 0, "bl.SignFact()")
		c.ArgIs(fn, "Vote passes the ballot's voteproof", v, 1, 1, "bl.Voteproof()")
		c.MP(fn, "Vote: ballot checked", v, 1, GTrue("box.checkBallot(bl)"))
	}
	if fn := c.Need("isaac/states.(*Ballotbox).checkBallot"); fn != nil {
		c.MP(fn, "checkBallot accepts only suffrage members when the suffrage is known", c.ReturnsD(fn, 0, "true"), 1,
			GTrue("call(box.getSuffrage)(bl.Point().Height().SafePrev())#0.Exists(bl.SignFact().Node())"), GFalse("call(box.getSuffrage)(bl.Point().Height().SafePrev())#1"))
	}
	// R04.7 lock discipline ---------------------------------------------------------------------------
	c.Rule("R04.7", "LockHeld")
	lockRequired := map[string]bool{ // helpers documented to run with the record lock held by the caller
		"isVoted": true, "isFinished": true, "countFromBallots": true, "countFromVoted": true, "isValidBallot": true,
		"newVoteproof": true, "getSuffrage": true, "sfs": true, "copyVoted": true, "newStuckVoteproof": true,
		"countWithExpels": true, "voteproofFromBallot": true, "voteproofFromBallots": true,
	}
	nAcc := 0
	for _, f := range []string{"voted", "ballots", "expels", "vps", "vp", "sp", "isc", "countAfter"} {
		for _, s := range c.WhoTouches("voterecords", f) {
			key := c.FuncKey(s.Fn)
			if !strings.HasPrefix(key, "isaac/states.(*voterecords).") {
				continue
			}
			m := strings.TrimPrefix(key, "isaac/states.(*voterecords).")
			if i := strings.Index(m, "$"); i >= 0 {
				m = m[:i]
			}
			if lockRequired[m] {
				continue
			}
			nAcc++
			st := c.LockStates(s.Fn, nil)
			held := st[s.In]["&vr"]
			_, isStore := s.In.(*ssa.Store)
			_, isMU := s.In.(*ssa.MapUpdate)
			need := LR
			if isStore || isMU {
				need = LW
			}
			c.Report(s.Fn, "voterecords."+f+" accessed under the record lock", c.InstrPos(s.In), held >= need, stateStr(st[s.In]))
		}
	}
	c.Floor(nil, "locked accesses of voterecords fields", nAcc, 15)
	// lock-required helpers are called only with the lock held (or from other lock-required helpers)
	for m := range lockRequired {
		if m == "getSuffrage" {
			continue // reads only sp, which changes only when a record is recycled; Ballotbox.MissingNodes calls it unlocked (noted in DESIGN.md)
		}
		for _, s := range c.WhoCalls("(*isaac/states.voterecords)." + m) {
			key := c.FuncKey(s.Fn)
			caller := strings.TrimPrefix(key, "isaac/states.(*voterecords).")
			if i := strings.Index(caller, "$"); i >= 0 {
				caller = caller[:i]
			}
			if strings.HasPrefix(key, "isaac/states.(*voterecords).") && lockRequired[caller] {
				continue
			}
			st := c.LockStates(s.Fn, nil)
			ok := false
			for k, v := range st[s.In] {
				if v >= LR && (k == "&vr" || strings.HasPrefix(k, "&")) {
					cc := callCommon(s.In)
					if len(cc.Args) > 0 && "&"+strings.TrimPrefix(c.D(cc.Args[0]), "&") == k {
						ok = true
					}
				}
			}
			c.Report(s.Fn, "lock-required helper "+m+" called with the record lock held", c.InstrPos(s.In), ok, stateStr(st[s.In]))
		}
	}
}
