package main

import (
	"go/token"
	"fmt"
	"strings"

	"golang.org/x/tools/go/ssa"
)

func init() {
	Register(&Property{
		ID: "C35",
		Decides: "(R35.1) precedence: the prohibit request and the superuser are decided before any table lookup; the user's table is consulted first and decides whenever it assigned anything; only otherwise the default user's table is consulted, with the same scope and requirement; inside a table the scope entry decides if present, the table's default entry only if the scope entry is absent; every table answer is true only as `assigned >= required` and only for an entry above prohibit; " +
			"(R35.2) text form: String and UnmarshalText map the same literals to the same constants (\"x\" prohibit, \"s\" super) and a run of k 'o' to k+1 and back.",
		NotDecided: "the full decision table over all inputs; a run of 78 or more 'o' parses to super or beyond (rejected by IsValid); how the table is loaded from YAML.",
		Run:        runC35,
	})
}

func runC35(c *Ctx) {
	// R35.1 --------------------------------------------------------------------------------------
	c.Rule("R35.1", "Ordering")
	if fn := c.Need("launch.(*ACL).Allow"); fn != nil {
		lookups := c.CallsTo(fn, "(*launch.ACL).allow")
		c.Report(fn, "two table lookups: the user's and the default user's", fn.Pos(), len(lookups) == 2, fmt.Sprintf("%d lookups", len(lookups)))
		c.MP(fn, "no table lookup for the superuser", lookups, 2, GCmp("user", "!=", "acl.superuser"))
		c.MP(fn, "no table lookup for a prohibit request", lookups, 2, GCmp("required", "!=", "1"))
		first := c.CallsD(fn, "acl.allow(user, scope, required)")
		second := c.CallsD(fn, "acl.allow(\"_default\", scope, required)")
		c.Exists(fn, "the user's own table is looked up with the asked scope and requirement", first, 1)
		c.Exists(fn, "the default user's table is looked up with the same scope and requirement", second, 1)
		c.MP(fn, "the default user is consulted only after the user's table assigned nothing", second, 1, GCmp("acl.allow(user, scope, required)#0", "<", "1"))
		c.MPFrom(fn, nil, "the default user is consulted only after the user's table", second, 1, GCalled("acl.allow(user, scope, required)"))
		for _, r := range Returns(fn) {
			a, b := c.D(RetVal(r, 0)), c.D(RetVal(r, 1))
			switch {
			case b == "true":
				c.MP(fn, "unconditional allow only for the superuser", []ssa.Instruction{r}, 1, GCmp("user", "==", "acl.superuser"))
				c.Report(fn, "the superuser answer is the super permission", c.InstrPos(r), a == "79", a)
			case b == "false":
				c.MP(fn, "unconditional deny only for a prohibit request", []ssa.Instruction{r}, 1, GCmp("required", "==", "1"))
			case strings.HasPrefix(a, "var:"):
			case strings.HasPrefix(b, "acl.allow(user,"):
				c.MP(fn, "the user's table decides only if it assigned something", []ssa.Instruction{r}, 1, GCmp("acl.allow(user, scope, required)#0", ">=", "1"))
				c.Report(fn, "the user's answer is handed out unchanged", c.InstrPos(r), a == "acl.allow(user, scope, required)#0" && b == "acl.allow(user, scope, required)#1", a+", "+b)
			case strings.HasPrefix(b, "acl.allow(\"_default\""):
				c.Report(fn, "the default user's answer is handed out unchanged", c.InstrPos(r), a == "acl.allow(\"_default\", scope, required)#0" && b == "acl.allow(\"_default\", scope, required)#1", a+", "+b)
			default:
				c.Report(fn, "every answer of Allow is one of the tabled forms", c.InstrPos(r), false, a+", "+b)
			}
		}
		c.Held(fn, nil, "lookups run under the table lock", lookups, 2, "&acl.l", LR)
	}
	if parent := c.Need("launch.(*ACL).allow"); parent != nil {
		c.ArgIs(parent, "the table of the asked user is read", c.CallsD(parent, "acl.m.Get(*)"), 1, 0, "user")
		if cl := c.ClosureWithCall(parent, "acl.fromDefault(*)"); cl != nil {
			fd := c.CallsD(cl, "acl.fromDefault(perms, required)")
			c.MP(cl, "the table default is used only if the scope entry is absent", fd, 1, GFalse("perms[scope]#1"))
			c.MP(cl, "nothing is assigned for an unknown user", append(c.StoresD(cl, "&var:assigned"), c.StoresD(cl, "&var:allow")...), 4, GTrue("found"))
			for _, in := range c.StoresD(cl, "&var:assigned") {
				d := c.D(in.(*ssa.Store).Val)
				switch d {
				case "perms[scope]#0":
					c.MP(cl, "the scope entry is assigned only if present", []ssa.Instruction{in}, 1, GTrue("perms[scope]#1"))
				case "acl.fromDefault(perms, required)#0":
				default:
					c.Report(cl, "assigned is the scope entry or the table default", c.InstrPos(in), false, d)
				}
			}
			for _, in := range c.StoresD(cl, "&var:allow") {
				v := in.(*ssa.Store).Val
				if c.D(v) == "acl.fromDefault(perms, required)#1" {
					continue
				}
				tableAnswer(c, cl, in, v, "perms[scope]#0", "the scope entry")
			}
		} else {
			c.Unresolved(parent, "table lookup callback", "not found")
		}
	}
	if fn := c.Need("launch.(*ACL).fromDefault"); fn != nil {
		for _, r := range Returns(fn) {
			a, b := c.D(RetVal(r, 0)), c.D(RetVal(r, 1))
			if b == "false" {
				c.MP(fn, "no table default: nothing assigned, denied", []ssa.Instruction{r}, 1, GFalse("perms[\"_default\"]#1"))
				c.Report(fn, "no table default assigns nothing", c.InstrPos(r), a == "0", a)
				continue
			}
			c.Report(fn, "the table default is what is assigned", c.InstrPos(r), a == "perms[\"_default\"]#0", a)
			tableAnswer(c, fn, r, RetVal(r, 1), "perms[\"_default\"]#0", "the table default")
			c.MP(fn, "the table default is used only if present", []ssa.Instruction{r}, 1, GTrue("perms[\"_default\"]#1"))
		}
	}
	// R35.2 --------------------------------------------------------------------------------------
	c.Rule("R35.2", "KeyTable")
	toText := map[string]string{} // constant -> literal
	if fn := c.Need("launch.(ACLPerm).String"); fn != nil {
		for _, r := range Returns(fn) {
			d := c.D(RetVal(r, 0))
			switch d {
			case "\"x\"":
				c.MP(fn, "\"x\" is printed exactly for prohibit", []ssa.Instruction{r}, 1, GCmp("p", "==", "1"))
				toText["1"] = "x"
			case "\"s\"":
				c.MP(fn, "\"s\" is printed exactly for super", []ssa.Instruction{r}, 1, GCmp("p", "==", "79"))
				toText["79"] = "s"
			case "strings.Repeat(\"o\", (p - 1))":
				toText["o"] = "p-1"
			case "\"<empty perm>\"":
				c.MP(fn, "the empty form is printed only for 0", []ssa.Instruction{r}, 1, GCmp("p", "==", "0"))
			default:
				c.Report(fn, "every printed form is tabled", c.InstrPos(r), false, d)
			}
		}
		c.Report(fn, "String prints prohibit, super and the 'o' run", fn.Pos(), toText["1"] == "x" && toText["79"] == "s" && toText["o"] == "p-1", fmt.Sprintf("%v", toText))
	}
	if fn := c.Need("launch.(*ACLPerm).UnmarshalText"); fn != nil {
		seen := map[string]bool{}
		for _, in := range c.StoresD(fn, "p") {
			d := c.D(in.(*ssa.Store).Val)
			switch d {
			case "1":
				c.MP(fn, "prohibit is parsed exactly from \"x\"", []ssa.Instruction{in}, 1, GCmp("b", "==", "\"x\""))
			case "79":
				c.MP(fn, "super is parsed exactly from \"s\"", []ssa.Instruction{in}, 1, GCmp("b", "==", "\"s\""))
			case "(φ(79|strings.Count(b, \"o\")) + 1)":
				c.MP(fn, "a count is parsed only from a pure run of 'o'", []ssa.Instruction{in}, 1, GTrue("launch.regexpACLPermString.MatchString(b)"))
			default:
				c.Report(fn, "every parsed value is tabled", c.InstrPos(in), false, d)
			}
			seen[d] = true
		}
		c.Report(fn, "UnmarshalText parses prohibit, super and the 'o' run (k 'o' = k+1)", fn.Pos(), len(seen) == 3, fmt.Sprintf("%d forms", len(seen)))
		c.MP(fn, "parsing succeeds only if a value was stored", c.SuccessReturns(fn), 1, GStored("p"))
		// every printed permission parses: the only texts refused are the empty one and those that are
		// not a run of 'o' (any further refusal cuts printable values out of the round trip)
		var errs []ssa.Instruction
		for _, r := range Returns(fn) {
			if len(r.Results) == 1 && c.D(RetVal(r, 0)) != "nil" {
				errs = append(errs, r)
			}
		}
		c.MP(fn, "a text is refused only if it is empty or not a run of 'o'", errs, 1,
			GCmp("len(b)", "<", "1"), GFalse("launch.regexpACLPermString.MatchString(b)"))
	}
	if pat, ok := c.globalStringInit("launch", "regexpACLPermString"); ok {
		c.Report(nil, "the 'o' run pattern is anchored on both sides", 0, pat == "^o+$", pat)
	} else {
		c.Report(nil, "the 'o' run pattern is a constant", 0, false, "")
	}
	if fn := c.Need("launch.(ACLPerm).MarshalText"); fn != nil {
		c.Exists(fn, "MarshalText is String", c.CallsD(fn, "p.String()"), 1)
	}
}

// tableAnswer: the boolean answer v of a table entry E (used at instruction at) is true only if
// E >= required and E is not prohibit. v is a comparison or a (nested) phi of comparisons and false
// (the lowering of && chains); "v is true" then means: some non-false leaf is true and the edge that
// carries it was taken. Both facts must follow, for every such leaf, from the leaf itself or from the
// conditions on every path that takes its edge (or, for a plain value, on every path to the use).
func tableAnswer(c *Ctx, fn *ssa.Function, at ssa.Instruction, v ssa.Value, entry, what string) {
	type want struct {
		name string
		rel  []struct {
			op token.Token
			y  string
		}
		gates []Gate
	}
	e := globEscape(entry)
	wants := []want{
		{"is at least the required permission", []struct {
			op token.Token
			y  string
		}{{token.GEQ, "required"}}, []Gate{GCmp(e, ">=", "required")}},
		{"is not prohibit", []struct {
			op token.Token
			y  string
		}{{token.GTR, "1"}, {token.NEQ, "1"}, {token.GEQ, "2"}}, []Gate{GCmp(e, ">", "1"), GCmp(e, "!=", "1"), GCmp(e, ">=", "2")}},
	}
	leafImplies := func(x ssa.Value, w want) bool {
		b, ok := x.(*ssa.BinOp)
		if !ok {
			return false
		}
		l, r := c.D(b.X), c.D(b.Y)
		for _, rel := range w.rel {
			switch {
			case l == entry && r == rel.y:
				if implies(b.Op, rel.op) {
					return true
				}
			case r == entry && l == rel.y:
				if implies(flipOp[b.Op], rel.op) {
					return true
				}
			}
		}
		return false
	}
	type leaf struct {
		v    ssa.Value
		edge *Edge
	}
	var leaves []leaf
	shapeOK := true
	seen := map[ssa.Value]bool{}
	var walk func(x ssa.Value, e *Edge)
	walk = func(x ssa.Value, e *Edge) {
		if phi, ok := x.(*ssa.Phi); ok {
			if seen[x] {
				return
			}
			seen[x] = true
			for i, ev := range phi.Edges {
				walk(ev, &Edge{phi.Block().Preds[i], phi.Block()})
			}
			return
		}
		if c.D(x) == "false" {
			return
		}
		if _, ok := x.(*ssa.BinOp); !ok {
			shapeOK = false
		}
		leaves = append(leaves, leaf{x, e})
	}
	walk(v, nil)
	if !shapeOK || len(leaves) == 0 {
		c.Report(fn, what+" allows only through comparisons of the entry", c.InstrPos(at), false, c.D(v))
		return
	}
	// the requirement test is exactly ">=" (a permission equal to the requirement allows)
	for _, b := range fn.Blocks {
		for _, in := range b.Instrs {
			bo, ok := in.(*ssa.BinOp)
			if !ok {
				continue
			}
			l, r := c.D(bo.X), c.D(bo.Y)
			op := bo.Op
			switch {
			case l == entry && r == "required":
			case r == entry && l == "required":
				op = flipOp[op]
			default:
				continue
			}
			c.Report(fn, what+" is compared with the requirement only as >= (or its negation <)", c.InstrPos(in), op == token.GEQ || op == token.LSS, c.D(bo))
		}
	}
	for _, w := range wants {
		ok := true
		var why []string
		for _, lf := range leaves {
			if leafImplies(lf.v, w) {
				continue
			}
			if lf.edge == nil {
				if !allOK(c.MustPass(fn, nil, []ssa.Instruction{at}, w.gates...)) {
					ok = false
					why = append(why, "plain "+c.D(lf.v))
				}
				continue
			}
			if !c.edgeGuarded(fn, *lf.edge, w.gates...) {
				ok = false
				why = append(why, "leaf "+c.D(lf.v))
			}
		}
		c.Report(fn, what+" allows only if it "+w.name, c.InstrPos(at), ok, c.D(v)+"; unguarded: "+strings.Join(why, ", "))
	}
}

// edgeGuarded: every path from entry that takes edge e passes one of the gates.
func (c *Ctx) edgeGuarded(fn *ssa.Function, e Edge, gates ...Gate) bool {
	cut, _ := c.buildCut(fn, gates)
	res := reach(fn, nil, cut)
	term := e.From.Instrs[len(e.From.Instrs)-1]
	if !res.reached[term] {
		return true
	}
	if _, isIf := term.(*ssa.If); isIf {
		del := cut.Edges[e.From]
		for si, s := range e.From.Succs {
			if s == e.To && si < 2 && !del[si] {
				return false
			}
		}
		return true
	}
	return false
}
