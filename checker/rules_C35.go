package main

import (
	"fmt"
	"strings"

	"golang.org/x/tools/go/ssa"
)

func init() {
	Register(&Property{
		ID: "C35",
		Decides: "(R35.1) precedence: the prohibit request and the superuser are decided before any table lookup; the user's table is consulted first and decides whenever it assigned anything; only otherwise the default user's table is consulted, with the same scope and requirement; inside a table the scope entry decides if present, the table's default entry only if the scope entry is absent; every table answer is `assigned >= required`; " +
			"(R35.2) text form: String and UnmarshalText map the same literals to the same constants (\"x\" prohibit, \"s\" super) and a run of k 'o' to k+1 and back.",
		NotDecided: "the full decision table over all inputs; a requirement of 0 (not a valid permission) is satisfied by every assigned permission including prohibit; a run of 78 or more 'o' parses to super or beyond (rejected by IsValid); how the table is loaded from YAML.",
		Run:        runC35,
	})
}

func runC35(c *Ctx) {
	// R35.1 --------------------------------------------------------------------------------------
	c.Rule("R35.1", "Ordering")
	if fn := c.Need("launch.(*ACL).Allow"); fn != nil {
		lookups := c.CallsTo(fn, "(*launch.ACL).allow")
		c.Report(fn, "two table lookups: the user's and the default user's", fn.Pos(), len(lookups) == 2, fmt.Sprintf("%d lookups", len(lookups)))
		c.MP(fn, "no table lookup for the superuser", lookups, 2, GCmp("user", "!=", "acl.superuser"))
		c.MP(fn, "no table lookup for a prohibit request", lookups, 2, GCmp("required", "!=", "1"))
		first := c.CallsD(fn, "acl.allow(user, scope, required)")
		second := c.CallsD(fn, "acl.allow(\"_default\", scope, required)")
		c.Exists(fn, "the user's own table is looked up with the asked scope and requirement", first, 1)
		c.Exists(fn, "the default user's table is looked up with the same scope and requirement", second, 1)
		c.MP(fn, "the default user is consulted only after the user's table assigned nothing", second, 1, GCmp("acl.allow(user, scope, required)#0", "<", "1"))
		c.MPFrom(fn, nil, "the default user is consulted only after the user's table", second, 1, GCalled("acl.allow(user, scope, required)"))
		for _, r := range Returns(fn) {
			a, b := c.D(RetVal(r, 0)), c.D(RetVal(r, 1))
			switch {
			case b == "true":
				c.MP(fn, "unconditional allow only for the superuser", []ssa.Instruction{r}, 1, GCmp("user", "==", "acl.superuser"))
				c.Report(fn, "the superuser answer is the super permission", c.InstrPos(r), a == "79", a)
			case b == "false":
				c.MP(fn, "unconditional deny only for a prohibit request", []ssa.Instruction{r}, 1, GCmp("required", "==", "1"))
			case strings.HasPrefix(a, "var:"):
			case strings.HasPrefix(b, "acl.allow(user,"):
				c.MP(fn, "the user's table decides only if it assigned something", []ssa.Instruction{r}, 1, GCmp("acl.allow(user, scope, required)#0", ">=", "1"))
				c.Report(fn, "the user's answer is handed out unchanged", c.InstrPos(r), a == "acl.allow(user, scope, required)#0" && b == "acl.allow(user, scope, required)#1", a+", "+b)
			case strings.HasPrefix(b, "acl.allow(\"_default\""):
				c.Report(fn, "the default user's answer is handed out unchanged", c.InstrPos(r), a == "acl.allow(\"_default\", scope, required)#0" && b == "acl.allow(\"_default\", scope, required)#1", a+", "+b)
			default:
				c.Report(fn, "every answer of Allow is one of the tabled forms", c.InstrPos(r), false, a+", "+b)
			}
		}
		c.Held(fn, nil, "lookups run under the table lock", lookups, 2, "&acl.l", LR)
	}
	if parent := c.Need("launch.(*ACL).allow"); parent != nil {
		c.ArgIs(parent, "the table of the asked user is read", c.CallsD(parent, "acl.m.Get(*)"), 1, 0, "user")
		if cl := c.ClosureWithCall(parent, "acl.fromDefault(*)"); cl != nil {
			fd := c.CallsD(cl, "acl.fromDefault(perms, required)")
			c.MP(cl, "the table default is used only if the scope entry is absent", fd, 1, GFalse("perms[scope]#1"))
			c.MP(cl, "nothing is assigned for an unknown user", append(c.StoresD(cl, "&var:assigned"), c.StoresD(cl, "&var:allow")...), 4, GTrue("found"))
			for _, in := range c.StoresD(cl, "&var:assigned") {
				d := c.D(in.(*ssa.Store).Val)
				switch d {
				case "perms[scope]#0":
					c.MP(cl, "the scope entry is assigned only if present", []ssa.Instruction{in}, 1, GTrue("perms[scope]#1"))
				case "acl.fromDefault(perms, required)#0":
				default:
					c.Report(cl, "assigned is the scope entry or the table default", c.InstrPos(in), false, d)
				}
			}
			for _, in := range c.StoresD(cl, "&var:allow") {
				d := c.D(in.(*ssa.Store).Val)
				c.Report(cl, "allow is `entry >= required` or the table default's answer", c.InstrPos(in),
					d == "(perms[scope]#0 >= required)" || d == "acl.fromDefault(perms, required)#1", d)
			}
		} else {
			c.Unresolved(parent, "table lookup callback", "not found")
		}
	}
	if fn := c.Need("launch.(*ACL).fromDefault"); fn != nil {
		for _, r := range Returns(fn) {
			a, b := c.D(RetVal(r, 0)), c.D(RetVal(r, 1))
			if b == "false" {
				c.MP(fn, "no table default: nothing assigned, denied", []ssa.Instruction{r}, 1, GFalse("perms[\"_default\"]#1"))
				c.Report(fn, "no table default assigns nothing", c.InstrPos(r), a == "0", a)
				continue
			}
			c.Report(fn, "the table default answers `default >= required`", c.InstrPos(r), a == "perms[\"_default\"]#0" && b == "(perms[\"_default\"]#0 >= required)", a+", "+b)
			c.MP(fn, "the table default is used only if present", []ssa.Instruction{r}, 1, GTrue("perms[\"_default\"]#1"))
		}
	}
	// R35.2 --------------------------------------------------------------------------------------
	c.Rule("R35.2", "KeyTable")
	toText := map[string]string{} // constant -> literal
	if fn := c.Need("launch.(ACLPerm).String"); fn != nil {
		for _, r := range Returns(fn) {
			d := c.D(RetVal(r, 0))
			switch d {
			case "\"x\"":
				c.MP(fn, "\"x\" is printed exactly for prohibit", []ssa.Instruction{r}, 1, GCmp("p", "==", "1"))
				toText["1"] = "x"
			case "\"s\"":
				c.MP(fn, "\"s\" is printed exactly for super", []ssa.Instruction{r}, 1, GCmp("p", "==", "79"))
				toText["79"] = "s"
			case "strings.Repeat(\"o\", (p - 1))":
				toText["o"] = "p-1"
			case "\"<empty perm>\"":
				c.MP(fn, "the empty form is printed only for 0", []ssa.Instruction{r}, 1, GCmp("p", "==", "0"))
			default:
				c.Report(fn, "every printed form is tabled", c.InstrPos(r), false, d)
			}
		}
		c.Report(fn, "String prints prohibit, super and the 'o' run", fn.Pos(), toText["1"] == "x" && toText["79"] == "s" && toText["o"] == "p-1", fmt.Sprintf("%v", toText))
	}
	if fn := c.Need("launch.(*ACLPerm).UnmarshalText"); fn != nil {
		seen := map[string]bool{}
		for _, in := range c.StoresD(fn, "p") {
			d := c.D(in.(*ssa.Store).Val)
			switch d {
			case "1":
				c.MP(fn, "prohibit is parsed exactly from \"x\"", []ssa.Instruction{in}, 1, GCmp("b", "==", "\"x\""))
			case "79":
				c.MP(fn, "super is parsed exactly from \"s\"", []ssa.Instruction{in}, 1, GCmp("b", "==", "\"s\""))
			case "(φ(79|strings.Count(b, \"o\")) + 1)":
				c.MP(fn, "a count is parsed only from a pure run of 'o'", []ssa.Instruction{in}, 1, GTrue("launch.regexpACLPermString.MatchString(b)"))
			default:
				c.Report(fn, "every parsed value is tabled", c.InstrPos(in), false, d)
			}
			seen[d] = true
		}
		c.Report(fn, "UnmarshalText parses prohibit, super and the 'o' run (k 'o' = k+1)", fn.Pos(), len(seen) == 3, fmt.Sprintf("%d forms", len(seen)))
		c.MP(fn, "parsing succeeds only if a value was stored", c.SuccessReturns(fn), 1, GStored("p"))
	}
	if pat, ok := c.globalStringInit("launch", "regexpACLPermString"); ok {
		c.Report(nil, "the 'o' run pattern is anchored on both sides", 0, pat == "^o+$", pat)
	} else {
		c.Report(nil, "the 'o' run pattern is a constant", 0, false, "")
	}
	if fn := c.Need("launch.(ACLPerm).MarshalText"); fn != nil {
		c.Exists(fn, "MarshalText is String", c.CallsD(fn, "p.String()"), 1)
	}
}
