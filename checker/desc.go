package main

import (
	"fmt"
	"go/constant"
	"go/token"
	"go/types"
	"sort"
	"strings"

	"golang.org/x/tools/go/ssa"
)

// D renders an SSA value as a normalised expression over the function's parameters, captured
// variables, fields, calls and constants. It is the "derivation" of the value: conversions,
// interface boxing, embedded-field selections and single-assignment locals are transparent.
// It is computed from the resolved program (callee objects, field objects), not from source text.
func (p *Prog) D(v ssa.Value) string { return p.d(v, 0, map[ssa.Value]bool{}) }

const maxDepth = 14

func (p *Prog) d(v ssa.Value, depth int, seen map[ssa.Value]bool) string {
	if v == nil {
		return "<nil>"
	}
	if depth > maxDepth {
		return "…"
	}
	if seen[v] {
		return "↺"
	}
	switch x := v.(type) {
	case *ssa.Parameter:
		return p.paramName(x)
	case *ssa.FreeVar:
		return p.dFreeVar(x, depth, seen)
	case *ssa.Const:
		return constStr(x)
	case *ssa.Global:
		return "&" + x.Pkg.Pkg.Name() + "." + x.Name()
	case *ssa.Function:
		if x.Parent() != nil {
			return "func:" + p.FuncKey(x)
		}
		return "func:" + p.calleeName(x)
	case *ssa.Builtin:
		return x.Name()
	}
	seen[v] = true
	defer delete(seen, v)
	switch x := v.(type) {
	case *ssa.Alloc:
		// a spilled parameter (address taken): the variable is the parameter
		if st := p.singleStore(x); st != nil {
			if prm, ok := st.Val.(*ssa.Parameter); ok && x.Comment == prm.Name() {
				return "&" + prm.Name()
			}
		}
		return "&" + p.allocName(x)
	case *ssa.ChangeType:
		return p.d(x.X, depth, seen)
	case *ssa.Convert:
		return p.d(x.X, depth, seen)
	case *ssa.ChangeInterface:
		return p.d(x.X, depth, seen)
	case *ssa.MakeInterface:
		return p.d(x.X, depth, seen)
	case *ssa.SliceToArrayPointer:
		return p.d(x.X, depth, seen)
	case *ssa.MultiConvert:
		return p.d(x.X, depth, seen)
	case *ssa.TypeAssert:
		if x.CommaOk {
			return p.d(x.X, depth+1, seen) + ".(" + shortType(x.AssertedType) + ")"
		}
		return p.d(x.X, depth, seen)
	case *ssa.Extract:
		if ta, ok := x.Tuple.(*ssa.TypeAssert); ok && x.Index == 0 {
			return p.d(ta.X, depth, seen)
		}
		if nx, ok := x.Tuple.(*ssa.Next); ok {
			if rg, ok := nx.Iter.(*ssa.Range); ok {
				m := p.d(rg.X, depth+1, seen)
				switch x.Index {
				case 0:
					return "more(" + m + ")"
				case 1:
					return "κ(" + m + ")" // the key of a `for k, v := range m` iteration
				default:
					return "val(" + m + ")"
				}
			}
		}
		return fmt.Sprintf("%s#%d", p.d(x.Tuple, depth+1, seen), x.Index)
	case *ssa.Call:
		return p.dCall(&x.Call, depth, seen)
	case *ssa.FieldAddr:
		return "&" + p.dField(x.X, x.Field, depth, seen, true)
	case *ssa.Field:
		return p.dField(x.X, x.Field, depth, seen, false)
	case *ssa.IndexAddr:
		return "&" + p.derefName(x.X, depth, seen) + "[" + p.d(x.Index, depth+1, seen) + "]"
	case *ssa.Index:
		return p.d(x.X, depth+1, seen) + "[" + p.d(x.Index, depth+1, seen) + "]"
	case *ssa.Lookup:
		s := p.d(x.X, depth+1, seen) + "[" + p.d(x.Index, depth+1, seen) + "]"
		return s
	case *ssa.Slice:
		lo, hi := "", ""
		if x.Low != nil {
			lo = p.d(x.Low, depth+1, seen)
		}
		if x.High != nil {
			hi = p.d(x.High, depth+1, seen)
		}
		return p.derefName(x.X, depth, seen) + "[" + lo + ":" + hi + "]"
	case *ssa.UnOp:
		switch x.Op {
		case token.MUL: // load
			return p.dLoad(x, depth, seen)
		case token.NOT:
			return "!" + p.d(x.X, depth+1, seen)
		case token.SUB:
			return "-" + p.d(x.X, depth+1, seen)
		case token.ARROW:
			return "<-" + p.d(x.X, depth+1, seen)
		case token.XOR:
			return "^" + p.d(x.X, depth+1, seen)
		}
	case *ssa.BinOp:
		if isRangeIndexPhi(x.X) && x.Op == token.ADD {
			if k, ok := x.Y.(*ssa.Const); ok && k.Value != nil && k.Value.ExactString() == "1" {
				return iotaName(x.X.(*ssa.Phi)) // the index of a `for i := range s` loop
			}
		}
		return "(" + p.d(x.X, depth+1, seen) + " " + x.Op.String() + " " + p.d(x.Y, depth+1, seen) + ")"
	case *ssa.Phi:
		if isRangeIndexPhi(x) {
			return iotaName(x) + "-1"
		}
		if k, ok := forCounterPhi(x); ok {
			if k == "0" {
				return iotaName(x)
			}
			return iotaName(x) + "@" + k
		}
		var parts []string
		set := map[string]bool{}
		for _, e := range x.Edges {
			s := p.d(e, depth+1, seen)
			if !set[s] {
				set[s] = true
				parts = append(parts, s)
			}
		}
		sort.Strings(parts)
		if len(parts) == 1 {
			return parts[0]
		}
		return "φ(" + strings.Join(parts, "|") + ")"
	case *ssa.MakeClosure:
		if f, ok := x.Fn.(*ssa.Function); ok {
			return "func:" + p.FuncKey(f)
		}
	case *ssa.MakeSlice:
		return "make(" + shortType(x.Type()) + ")"
	case *ssa.MakeMap:
		return "make(" + shortType(x.Type()) + ")"
	case *ssa.MakeChan:
		return "make(" + shortType(x.Type()) + ")"
	case *ssa.Next:
		return "next(" + p.d(x.Iter, depth+1, seen) + ")"
	case *ssa.Range:
		return "range(" + p.d(x.X, depth+1, seen) + ")"
	case *ssa.Select:
		return "select"
	}
	return fmt.Sprintf("?%T", v)
}

func constStr(c *ssa.Const) string {
	if c.Value == nil {
		if c.IsNil() {
			return "nil"
		}
		return "zero(" + shortType(c.Type()) + ")"
	}
	switch c.Value.Kind() {
	case constant.String:
		return fmt.Sprintf("%q", constant.StringVal(c.Value))
	}
	return c.Value.ExactString()
}

func shortType(t types.Type) string {
	return types.TypeString(t, func(q *types.Package) string { return q.Name() })
}

func (p *Prog) allocName(a *ssa.Alloc) string {
	if a.Comment != "" {
		// a spilled parameter keeps its (baseline) parameter name
		if fn := a.Parent(); fn != nil {
			for _, prm := range fn.Params {
				if prm.Name() == a.Comment {
					return "var:" + p.paramName(prm)
				}
			}
		}
		return "var:" + p.localName(a)
	}
	return "var:" + a.Name()
}

// namedLocals lists the named locals of fn that live in memory (ssa Allocs carrying the source name,
// parameters excluded), in order of appearance, as (name, type) pairs.
func namedLocals(fn *ssa.Function) [][2]string {
	isParam := map[string]bool{}
	for _, prm := range fn.Params {
		isParam[prm.Name()] = true
	}
	var out [][2]string
	seen := map[string]bool{}
	for _, in := range allInstrs(fn) {
		a, ok := in.(*ssa.Alloc)
		if !ok || a.Comment == "" || isParam[a.Comment] || strings.ContainsAny(a.Comment, " .()") {
			continue
		}
		k := a.Comment + "\x00" + a.Type().String()
		if seen[k] {
			continue
		}
		seen[k] = true
		out = append(out, [2]string{a.Comment, a.Type().String()})
	}
	return out
}

// localName renders a named local under its baseline name: names present in both the baseline and the
// current function map to themselves; if the remaining names are equally many on both sides and agree
// in type position by position, they are renames of one another. Anything else keeps the current name.
func (p *Prog) localName(a *ssa.Alloc) string {
	fn := a.Parent()
	if fn == nil || p.Locals == nil {
		return a.Comment
	}
	key := p.FuncKey(fn)
	m, done := p.localMap[key]
	if !done {
		m = map[string]string{}
		if base, ok := p.Locals[key]; ok {
			cur := namedLocals(fn)
			inBase, inCur := map[string]bool{}, map[string]bool{}
			for _, b := range base {
				inBase[b[0]] = true
			}
			for _, c := range cur {
				inCur[c[0]] = true
			}
			var ub, uc [][2]string
			for _, b := range base {
				if !inCur[b[0]] {
					ub = append(ub, b)
				}
			}
			for _, c := range cur {
				if !inBase[c[0]] {
					uc = append(uc, c)
				}
			}
			if len(ub) == len(uc) && len(ub) > 0 {
				ok := true
				for i := range ub {
					if ub[i][1] != uc[i][1] {
						ok = false
					}
				}
				if ok {
					for i := range ub {
						m[uc[i][0]] = ub[i][0]
					}
				}
			}
		}
		if p.localMap == nil {
			p.localMap = map[string]map[string]string{}
		}
		p.localMap[key] = m
	}
	if b, ok := m[a.Comment]; ok {
		return b
	}
	return a.Comment
}

// paramName renders a parameter under the name it had when the rule tables were written
// (checker/baseline_names.json, by position): renaming a parameter or a receiver does not change
// any descriptor; a changed parameter count falls back to the current names.
func (p *Prog) paramName(x *ssa.Parameter) string {
	fn := x.Parent()
	if fn == nil || p.Names == nil {
		return x.Name()
	}
	base, ok := p.Names[p.FuncKey(fn)]
	if !ok || len(base) != len(fn.Params) {
		return x.Name()
	}
	for i, prm := range fn.Params {
		if prm == x {
			if base[i] == "" || base[i] == "_" {
				return x.Name()
			}
			return base[i]
		}
	}
	return x.Name()
}

// derefName renders the thing a pointer value points to.
func (p *Prog) derefName(v ssa.Value, depth int, seen map[ssa.Value]bool) string {
	s := p.d(v, depth+1, seen)
	if strings.HasPrefix(s, "&") {
		return s[1:]
	}
	if _, isPtr := v.Type().Underlying().(*types.Pointer); isPtr {
		return "*" + s
	}
	return s
}

func (p *Prog) dField(x ssa.Value, idx int, depth int, seen map[ssa.Value]bool, addr bool) string {
	var st *types.Struct
	t := x.Type()
	if pt, ok := t.Underlying().(*types.Pointer); ok {
		t = pt.Elem()
	}
	st, _ = t.Underlying().(*types.Struct)
	base := ""
	if addr {
		base = p.d(x, depth+1, seen)
		// x is a pointer; "&y" means pointer-to-y
		if strings.HasPrefix(base, "&") {
			base = base[1:]
		}
	} else {
		base = p.d(x, depth+1, seen)
	}
	if st == nil {
		return base + ".?"
	}
	f := st.Field(idx)
	if f.Embedded() {
		return base // embedded-field selection is transparent
	}
	return base + "." + f.Name()
}

// dLoad renders *ptr.
func (p *Prog) dLoad(u *ssa.UnOp, depth int, seen map[ssa.Value]bool) string {
	switch a := u.X.(type) {
	case *ssa.Alloc:
		// local variable that was not lifted (captured or address-taken): if it has exactly one
		// store in the defining function and its closures, the variable is transparent.
		if st := p.singleStore(a); st != nil && !p.isMutableLoad(st.Val) {
			return p.d(st.Val, depth+1, seen)
		}
		return p.allocName(a)
	case *ssa.FreeVar:
		if al := p.freeVarAlloc(a); al != nil {
			if st := p.singleStore(al); st != nil && !p.isMutableLoad(st.Val) {
				return p.d(st.Val, depth+1, seen)
			}
			return p.allocName(al)
		}
		return "var:" + a.Name()
	case *ssa.Global:
		return a.Pkg.Pkg.Name() + "." + a.Name()
	}
	s := p.d(u.X, depth+1, seen)
	if strings.HasPrefix(s, "&") {
		return s[1:]
	}
	return "*" + s
}

func (p *Prog) dFreeVar(fv *ssa.FreeVar, depth int, seen map[ssa.Value]bool) string {
	// a captured variable: by-reference captures have pointer type and bind an Alloc of the parent
	if b := p.freeVarBinding(fv); b != nil {
		if _, ok := b.(*ssa.Alloc); ok {
			return p.d(b, depth, seen)
		}
		return p.d(b, depth, seen)
	}
	return fv.Name()
}

// freeVarBinding finds the value bound to fv in the (unique) MakeClosure of its function.
func (p *Prog) freeVarBinding(fv *ssa.FreeVar) ssa.Value {
	fn := fv.Parent()
	parent := fn.Parent()
	if parent == nil {
		return nil
	}
	idx := -1
	for i, f := range fn.FreeVars {
		if f == fv {
			idx = i
		}
	}
	if idx < 0 {
		return nil
	}
	var found ssa.Value
	for _, b := range parent.Blocks {
		for _, in := range b.Instrs {
			if mc, ok := in.(*ssa.MakeClosure); ok && mc.Fn == fn && idx < len(mc.Bindings) {
				found = mc.Bindings[idx]
			}
		}
	}
	return found
}

func (p *Prog) freeVarAlloc(fv *ssa.FreeVar) *ssa.Alloc {
	b := p.freeVarBinding(fv)
	for b != nil {
		switch x := b.(type) {
		case *ssa.Alloc:
			return x
		case *ssa.FreeVar:
			b = p.freeVarBinding(x)
		default:
			return nil
		}
	}
	return nil
}

// storesTo returns all Store instructions whose address is the alloc itself (directly or through
// a captured reference) in the alloc's function and all nested closures.
func (p *Prog) storesTo(a *ssa.Alloc) []*ssa.Store {
	var out []*ssa.Store
	for _, fn := range WithClosures(a.Parent()) {
		for _, b := range fn.Blocks {
			for _, in := range b.Instrs {
				st, ok := in.(*ssa.Store)
				if !ok {
					continue
				}
				switch ad := st.Addr.(type) {
				case *ssa.Alloc:
					if ad == a {
						out = append(out, st)
					}
				case *ssa.FreeVar:
					if p.freeVarAlloc(ad) == a {
						out = append(out, st)
					}
				}
			}
		}
	}
	return out
}

func (p *Prog) singleStore(a *ssa.Alloc) *ssa.Store {
	sts := p.storesTo(a)
	// ignore the zero-value initialisation stores of named results? (ssa does not emit them)
	if len(sts) != 1 {
		return nil
	}
	st := sts[0]
	// a local is only "equal to what was stored" if no load can see its zero value: the store is in
	// the declaring function and comes before every load there (closures run after their creation,
	// which the store must also precede)
	if st.Parent() != a.Parent() {
		return nil
	}
	if a.Referrers() != nil {
		for _, r := range *a.Referrers() {
			if r == ssa.Instruction(st) {
				continue
			}
			rb, sb := r.Block(), st.Block()
			if rb == nil || sb == nil {
				continue
			}
			if rb == sb {
				si, ri := -1, -1
				for i, in := range sb.Instrs {
					if in == ssa.Instruction(st) {
						si = i
					}
					if in == r {
						ri = i
					}
				}
				if ri < si {
					return nil
				}
				continue
			}
			if !sb.Dominates(rb) {
				return nil
			}
		}
	}
	return st
}

func (p *Prog) calleeName(f *ssa.Function) string {
	if o := f.Origin(); o != nil {
		f = o
	}
	name := f.Name()
	if f.Signature.Recv() != nil {
		return name
	}
	if f.Pkg != nil {
		return f.Pkg.Pkg.Name() + "." + name
	}
	if obj := f.Object(); obj != nil && obj.Pkg() != nil {
		return obj.Pkg().Name() + "." + name
	}
	return name
}

func (p *Prog) dCall(c *ssa.CallCommon, depth int, seen map[ssa.Value]bool) string {
	var args []string
	for _, a := range c.Args {
		args = append(args, p.d(a, depth+1, seen))
	}
	if c.IsInvoke() {
		return p.d(c.Value, depth+1, seen) + "." + c.Method.Name() + "(" + strings.Join(args, ", ") + ")"
	}
	switch f := c.Value.(type) {
	case *ssa.Function:
		if f.Signature.Recv() != nil && len(args) > 0 {
			recv := args[0]
			// an embedded-field selection is transparent only if promotion would select this very
			// method; `sp.Point.Compare(…)` where StagePoint declares its own Compare must stay explicit
			if name, ok := shadowedEmbedded(c.Args[0], f); ok {
				recv += "." + name
			}
			if strings.HasPrefix(recv, "&") {
				recv = recv[1:]
			}
			return recv + "." + p.calleeName(f) + "(" + strings.Join(args[1:], ", ") + ")"
		}
		if f.Parent() != nil {
			return "call(" + p.FuncKey(f) + ")(" + strings.Join(args, ", ") + ")"
		}
		return p.calleeName(f) + "(" + strings.Join(args, ", ") + ")"
	case *ssa.Builtin:
		return f.Name() + "(" + strings.Join(args, ", ") + ")"
	case *ssa.MakeClosure:
		if fn, ok := f.Fn.(*ssa.Function); ok {
			return "call(" + p.FuncKey(fn) + ")(" + strings.Join(args, ", ") + ")"
		}
	}
	return "call(" + p.d(c.Value, depth+1, seen) + ")(" + strings.Join(args, ", ") + ")"
}

// CalleeOf returns the statically known callee (generic origin for instances), or nil.
func CalleeOf(c *ssa.CallCommon) *ssa.Function {
	if c.IsInvoke() {
		return nil
	}
	switch f := c.Value.(type) {
	case *ssa.Function:
		if o := f.Origin(); o != nil {
			return o
		}
		return f
	case *ssa.MakeClosure:
		if fn, ok := f.Fn.(*ssa.Function); ok {
			return fn
		}
	}
	return nil
}

// CalleeFullName names the callee of a call: "(*pkg/path.T).M", "pkg/path.F", or for interface
// calls "(pkg/path.I).M"; "" for calls of function values.
//
// The module path prefix "github.com/spikeekips/mitum/" is stripped: "(*isaac.ProposalProcessors).Save",
// "(isaac.BlockWriter).Save", "isaac/block.ImportBlocks", "github.com/pkg/errors.Is".
func CalleeFullName(c *ssa.CallCommon) string {
	return strings.ReplaceAll(calleeFullName(c), modPath+"/", "")
}

func calleeFullName(c *ssa.CallCommon) string {
	if c.IsInvoke() {
		return c.Method.FullName()
	}
	if f := CalleeOf(c); f != nil {
		if obj := f.Object(); obj != nil {
			if fo, ok := obj.(*types.Func); ok {
				return fo.FullName()
			}
		}
		return f.String()
	}
	if b, ok := c.Value.(*ssa.Builtin); ok {
		return b.Name()
	}
	return ""
}

// isRangeIndexPhi: the hidden counter of a range-over-slice loop (phi [-1, counter+1]).
func isRangeIndexPhi(v ssa.Value) bool {
	phi, ok := v.(*ssa.Phi)
	if !ok || phi.Block().Comment != "rangeindex.loop" {
		return false
	}
	for _, e := range phi.Edges {
		if k, ok := e.(*ssa.Const); ok && k.Value != nil && k.Value.ExactString() == "-1" {
			return true
		}
	}
	return false
}

// forCounterPhi: the counter of a `for i := k; …; i++` loop (phi [k, counter+1] in a for.loop block).
func forCounterPhi(phi *ssa.Phi) (string, bool) {
	if phi.Block().Comment != "for.loop" || len(phi.Edges) != 2 {
		return "", false
	}
	var start string
	inc := false
	for _, e := range phi.Edges {
		if k, ok := e.(*ssa.Const); ok && k.Value != nil {
			start = k.Value.ExactString()
			continue
		}
		if b, ok := e.(*ssa.BinOp); ok && b.Op == token.ADD && b.X == ssa.Value(phi) {
			if k, ok := b.Y.(*ssa.Const); ok && k.Value != nil && k.Value.ExactString() == "1" {
				inc = true
			}
		}
	}
	return start, inc && start != ""
}

// isMutableLoad: v is a snapshot (load) of a variable that is assigned more than once — a
// variable initialised from such a snapshot is NOT interchangeable with the other variable, so it
// keeps its own name in descriptors.
func (p *Prog) isMutableLoad(v ssa.Value) bool {
	v = stripConv(v)
	u, ok := v.(*ssa.UnOp)
	if !ok || u.Op != token.MUL {
		return false
	}
	var al *ssa.Alloc
	switch a := u.X.(type) {
	case *ssa.Alloc:
		al = a
	case *ssa.FreeVar:
		al = p.freeVarAlloc(a)
	}
	if al == nil {
		return false
	}
	return len(p.storesTo(al)) > 1
}

// shadowedEmbedded: recv is (a load of) a selection of an embedded field whose outer type resolves
// the method name to a different method than callee f. Returns the embedded field's name.
func shadowedEmbedded(recv ssa.Value, f *ssa.Function) (string, bool) {
	if u, ok := recv.(*ssa.UnOp); ok && u.Op == token.MUL {
		recv = u.X
	}
	var outer types.Type
	var idx int
	switch x := recv.(type) {
	case *ssa.Field:
		outer, idx = x.X.Type(), x.Field
	case *ssa.FieldAddr:
		outer, idx = x.X.Type(), x.Field
	default:
		return "", false
	}
	t := outer
	if pt, ok := t.Underlying().(*types.Pointer); ok {
		t = pt.Elem()
	}
	st, ok := t.Underlying().(*types.Struct)
	if !ok || idx >= st.NumFields() || !st.Field(idx).Embedded() {
		return "", false
	}
	if o := f.Origin(); o != nil {
		f = o
	}
	fobj := f.Object()
	if fobj == nil {
		return "", false
	}
	obj, _, _ := types.LookupFieldOrMethod(t, true, fobj.Pkg(), fobj.Name())
	if obj == nil || obj == fobj {
		return "", false
	}
	return st.Field(idx).Name(), true
}

// iotaName names a loop counter by its nesting depth: ι for an outermost loop, ι′ for a loop nested
// in one other loop, ι″ … (depth = number of loop headers strictly dominating this loop's header).
func iotaName(phi *ssa.Phi) string {
	b := phi.Block()
	depth := 0
	for d := b.Idom(); d != nil; d = d.Idom() {
		if strings.HasSuffix(d.Comment, ".loop") {
			// d dominates b; it encloses b only if b can reach d again (b is inside d's loop body)
			if blockReaches(b, d) {
				depth++
			}
		}
	}
	return "ι" + strings.Repeat("′", depth)
}

func blockReaches(from, to *ssa.BasicBlock) bool {
	seen := map[*ssa.BasicBlock]bool{}
	var walk func(b *ssa.BasicBlock) bool
	walk = func(b *ssa.BasicBlock) bool {
		if b == to {
			return true
		}
		if seen[b] {
			return false
		}
		seen[b] = true
		for _, s := range b.Succs {
			if walk(s) {
				return true
			}
		}
		return false
	}
	for _, s := range from.Succs {
		if walk(s) {
			return true
		}
	}
	return false
}
