package main

import (
	"fmt"
	"go/token"
	"strings"

	"golang.org/x/tools/go/ssa"
)

func init() {
	Register(&Property{
		ID: "C20",
		Decides: "(R20.1) every (object, header, body) triple put into a last-value cache slot — the permanent databases' last block map / last suffrage proof, the block writer's and the temp database's copies — has all three components assigned from a non-nil source (never a never-assigned variable or a nil constant), and on the reload paths header and body come from the same decoded frame as the object; " +
			"(R20.2) both permanent back-ends' constructors reload every slot the merge path maintains (encoder hint, block map, suffrage proof, network policy) and fail if a reload fails; (R20.3) writer and reader sides of each record kind use a compatible frame codec pair.; (R20.k) every leveldb key builder carries each of its parameters in full under its own prefix constant; (R20.j) jobs handed to a worker read only captured variables that the submitter does not assign again (no job works on a later batch/slot than the one it was created for); (R20.c) wherever a pool operation record is deleted, the operation is dropped from the operation cache (or there is no cache) before the function returns; (R20.s) a block writer's state cache is not shared across heights (object reads answer from the cache, byte reads and reads after a reopen from the store) — violated today, known finding; (R20.m) a permanent database takes over from a merged temp's state cache only states of the merged height (what the merge wrote to storage); (R20.l) as R19.9: a permanent database reads a state and fills its state cache under its merge lock; (R20.p) as R21.3: the block map is written in a commit batch after every other batch",
		NotDecided: "byte equality of what is served before and after reopening for all histories; pool contents; what leveldb/redis persist.",
		Run:        runC20,
	})
}

// nonTrivial: v is not a nil/zero constant and not a load of a variable that is never assigned a
// non-nil value (in its function and closures).
func nonTrivial(c *Ctx, v ssa.Value, seen map[ssa.Value]bool) bool {
	if seen[v] {
		return true
	}
	seen[v] = true
	switch x := v.(type) {
	case *ssa.Const:
		return !(x.IsNil() || x.Value == nil)
	case *ssa.MakeInterface:
		return nonTrivial(c, x.X, seen)
	case *ssa.ChangeInterface:
		return nonTrivial(c, x.X, seen)
	case *ssa.ChangeType:
		return nonTrivial(c, x.X, seen)
	case *ssa.Convert:
		return nonTrivial(c, x.X, seen)
	case *ssa.Phi:
		for _, e := range x.Edges {
			if nonTrivial(c, e, seen) {
				return true
			}
		}
		return false
	case *ssa.UnOp:
		if x.Op == token.MUL {
			var al *ssa.Alloc
			switch a := x.X.(type) {
			case *ssa.Alloc:
				al = a
			case *ssa.FreeVar:
				al = c.freeVarAlloc(a)
			}
			if al != nil {
				for _, st := range c.storesTo(al) {
					if nonTrivial(c, st.Val, seen) {
						return true
					}
				}
				// filled through its address (decoders take &v)
				return addressEscapes(c, al)
			}
		}
	}
	return true
}

// tripleStores: the stores into the three slots of the [3]interface{} literal that `lit` loads.
func tripleStores(c *Ctx, fn *ssa.Function, lit ssa.Value) map[int]ssa.Value {
	out := map[int]ssa.Value{}
	ld, ok := lit.(*ssa.UnOp)
	if !ok {
		return out
	}
	al, ok := ld.X.(*ssa.Alloc)
	if !ok {
		return out
	}
	for _, in := range allInstrs(fn) {
		st, ok := in.(*ssa.Store)
		if !ok {
			continue
		}
		ia, ok := st.Addr.(*ssa.IndexAddr)
		if !ok || ia.X != ssa.Value(al) {
			continue
		}
		if k, ok := constInt(ia.Index); ok {
			out[int(k)] = st.Val
		}
	}
	return out
}

func runC20(c *Ctx) {
	stateCacheOwnershipRule(c, "R20.s")
	mergedCacheRule(c, "R20.m")
	// R20.c: the pool's operation cache holds nothing the store no longer has
	c.Rule("R20.c", "MustPass")
	ndel := 0
	for _, f := range c.FuncsWithPrefix("isaac/database.") {
		for _, in := range c.CallsD(f, "*.Delete(isaacdatabase.leveldbNewOperationKey(*))") {
			ndel++
			arg := c.D(CallArg(in, 0))
			h := strings.TrimSuffix(strings.TrimPrefix(arg, "isaacdatabase.leveldbNewOperationKey("), ")")
			c.MPFrom(f, in, "a deleted pool operation is also dropped from the operation cache", Returns2(f), 1,
				GCalled("db.opcache.Remove("+h+".String())"), GNil("db.opcache"))
		}
	}
	c.Floor(nil, "deletions of pool operation records", ndel, 1)
	c.Rule("R20.j", "AsyncCapture")
	c.AsyncCaptures(c.Need("isaac/database.(*LeveldbPermanent).mergeTempDatabaseFromLeveldb"), "*.NewJob", 2)
	c.Rule("R20.k", "KeyTable")
	keyBuilderRules(c)
	// R20.1 triples ------------------------------------------------------------------------------
	c.Rule("R20.1", "Dependence")
	n := 0
	for _, fn := range c.FuncsWithPrefix("isaac/database.") {
		// (a) X.SetValue([3]interface{}{…}) on mp / proof slots
		for _, in := range allInstrs(fn) {
			cc := callCommon(in)
			if cc == nil || !strings.HasSuffix(CalleeFullName(cc), ".SetValue") || len(cc.Args) < 2 {
				continue
			}
			slot := c.D(cc.Args[0])
			if !(strings.HasSuffix(slot, ".mp") || strings.HasSuffix(slot, ".proof")) {
				continue
			}
			if !strings.Contains(cc.Args[1].Type().String(), "[3]interface{}") {
				continue
			}
			n++
			checkTriple(c, fn, in, slot, tripleStores(c, fn, cc.Args[1]))
		}
		// (b) closures handed to X.Set(...) returning a [3]interface{} literal
		if fn.Parent() != nil && fn.Signature.Results().Len() == 2 && strings.Contains(fn.Signature.Results().At(0).Type().String(), "[3]interface{}") {
			for _, r := range c.SuccessReturns(fn) {
				rv := RetVal(r.(*ssa.Return), 0)
				ts := tripleStores(c, fn, rv)
				if len(ts) == 0 {
					continue // returning the zero value together with an error / ignore
				}
				n++
				checkTriple(c, fn, r, "returned to Locked.Set", ts)
			}
		}
	}
	c.Floor(nil, "(object, header, body) triple stores", n, 6)
	// temp database copies: the six fields come in threes from one source
	if fn := c.Need("isaac/database.(*TempLeveldb).loadLastBlockMap"); fn != nil {
		src := "db.baseLeveldb.loadLastBlockMap()"
		c.StoredIs(fn, "temp: block map object from the loaded frame", c.StoresD(fn, "&db.mp"), 1, src+"#0")
		c.StoredIs(fn, "temp: block map header from the same frame", c.StoresD(fn, "&db.mpmeta"), 1, src+"#2")
		c.StoredIs(fn, "temp: block map body from the same frame", c.StoresD(fn, "&db.mpbody"), 1, src+"#3")
	}
	if parent := c.Need("isaac/database.(*TempLeveldb).loadSuffrageProof"); parent != nil {
		if cl := c.ClosureWithStore(parent, "&db.proofbody"); cl != nil {
			fr := "isaacdatabase.ReadOneHeaderFrame(b)"
			c.StoredIs(cl, "temp: proof header from the decoded frame", c.StoresD(cl, "&db.proofmeta"), 1, fr+"#1")
			c.StoredIs(cl, "temp: proof body from the decoded frame", c.StoresD(cl, "&db.proofbody"), 1, fr+"#2")
			c.MP(cl, "temp: proof stored only after it decoded from that body", c.StoresD(cl, "&db.proof"), 1, GOk("isaacdatabase.DecodeFrame(db.encs, "+fr+"#0, "+fr+"#2, *)"))
		}
	}
	if fn := c.Need("isaac/database.(*baseLeveldb).loadLastBlockMap"); fn != nil {
		if cl := c.ClosureWithCall(fn, "isaacdatabase.ReadOneHeaderFrame(b)"); cl != nil {
			fr := "isaacdatabase.ReadOneHeaderFrame(b)"
			c.StoredIs(cl, "leveldb: last block map header from the decoded frame", c.StoresD(cl, "&var:meta"), 1, fr+"#1")
			c.StoredIs(cl, "leveldb: last block map body from the decoded frame", c.StoresD(cl, "&var:body"), 1, fr+"#2")
			c.StoredIs(cl, "leveldb: encoder hint from the decoded frame", c.StoresD(cl, "&var:enchint"), 1, fr+"#0")
		}
	}
	if parent := c.Need("isaac/database.(*LeveldbPermanent).loadLastSuffrageProof"); parent != nil {
		if cl := c.ClosureWithCall(parent, "isaacdatabase.ReadOneHeaderFrame(b)"); cl != nil {
			fr := "isaacdatabase.ReadOneHeaderFrame(b)"
			c.StoredIs(cl, "leveldb: last proof header from the decoded frame", c.StoresD(cl, "&var:meta"), 1, fr+"#1")
			c.StoredIs(cl, "leveldb: last proof body from the decoded frame", c.StoresD(cl, "&var:body"), 1, fr+"#2")
		}
	}
	// "last" loaders: the newest record is the first one of a descending scan
	for _, t := range []struct{ fn, prefix string }{
		{"isaac/database.(*baseLeveldb).loadLastBlockMap", "isaacdatabase.leveldbKeyPrefixBlockMap"},
		{"isaac/database.(*LeveldbPermanent).loadLastSuffrageProof", "isaacdatabase.leveldbKeySuffrageProof"},
	} {
		fn := c.Need(t.fn)
		if fn == nil {
			continue
		}
		its := c.CallsD(fn, "*.Iter(*)")
		if !c.Exists(fn, "last loader scans its records", its, 1) {
			continue
		}
		c.ArgIs(fn, "last loader scans exactly its own key prefix", its, 1, 0, "util.BytesPrefix("+t.prefix+"[:])")
		c.ArgIs(fn, "last loader scans in descending key order (newest first)", its, 1, 2, "false")
		for _, in := range its {
			cbv := CallArg(in, 1)
			var cb *ssa.Function
			switch x := cbv.(type) {
			case *ssa.MakeClosure:
				cb, _ = x.Fn.(*ssa.Function)
			case *ssa.Function:
				cb = x
			}
			if cb == nil {
				c.Unresolved(fn, "last loader callback", "not a function literal")
				continue
			}
			c.Report(cb, "last loader stops at the first (newest) record", cb.Pos(), len(nonMatchingReturns(c, cb, 0, "false")) == 0, "every return stops the scan")
		}
	}
	if fn := c.Need("isaac/database.newTempLeveldbFromBlockWriteStorage"); fn != nil {
		for _, t := range [][2]string{{"mp", "wst.blockmaps()#0"}, {"mpmeta", "wst.blockmaps()#1"}, {"mpbody", "wst.blockmaps()#2"},
			{"proof", "φ(nil|wst.proofs()#0)"}, {"proofmeta", "φ(nil|wst.proofs()#1)"}, {"proofbody", "φ(nil|wst.proofs()#2)"}} {
			c.StoredIs(fn, "temp from block writer: "+t[0], c.StoresD(fn, "&*."+t[0]), 1, t[1])
		}
	}
	// R20.2 constructors ------------------------------------------------------------------------
	c.Rule("R20.2", "SiblingAgreement")
	for _, ctor := range []string{"isaac/database.NewLeveldbPermanent", "isaac/database.NewRedisPermanent"} {
		fn := c.Need(ctor)
		if fn == nil {
			continue
		}
		succ := c.SuccessReturns(fn)
		for _, l := range []string{"loadLastBlockMap", "loadLastSuffrageProof", "loadNetworkPolicy"} {
			c.MP(fn, "constructor reloads: "+l, succ, 1, GOk("*."+l+"()"))
		}
	}
	for _, t := range []string{"LeveldbPermanent", "RedisPermanent"} {
		if fn := c.Need("isaac/database.(*" + t + ").loadLastBlockMap"); fn != nil {
			c.Exists(fn, t+": reload sets the encoder hint slot", c.CallsD(fn, "db.lenc.SetValue(*)"), 1)
			c.Exists(fn, t+": reload sets the block map slot", c.CallsD(fn, "db.mp.SetValue(*)"), 1)
		}
		if fn := c.Need("isaac/database.(*" + t + ").loadLastSuffrageProof"); fn != nil {
			c.Exists(fn, t+": reload sets the suffrage proof slot", c.CallsD(fn, "db.proof.SetValue(*)"), 1)
		}
		if fn := c.Need("isaac/database.(*" + t + ").loadNetworkPolicy"); fn != nil {
			c.Exists(fn, t+": reload sets the policy slot", c.CallsD(fn, "db.policy.SetValue(*)"), 1)
		}
	}
	if fn := c.Need("isaac/database.(*basePermanent).updateLast"); fn != nil {
		if cl := c.ClosureWithCall(fn, "db.lenc.SetValue(*)"); cl != nil {
			c.ArgIs(cl, "merge keeps the encoder hint", c.CallsD(cl, "db.lenc.SetValue(*)"), 1, 0, "lenc")
			c.Exists(cl, "merge keeps the suffrage proof", c.CallsD(cl, "db.proof.SetValue(*)"), 1)
			c.ArgIs(cl, "merge keeps the policy", c.CallsD(cl, "db.policy.SetValue(*)"), 1, 0, "policy")
		}
	}
	// R20.3 codec table ----------------------------------------------------------------------------
	c.Rule("R20.3", "KeyTable")
	type rec struct{ keyfn, enc string }
	writers := []rec{
		{"isaacdatabase.leveldbBlockMapKey", "isaacdatabase.EncodeOneHeaderFrame"},
		{"isaacdatabase.leveldbSuffrageProofKey", "isaacdatabase.EncodeOneHeaderFrame"},
		{"isaacdatabase.leveldbSuffrageProofByBlockHeightKey", "isaacdatabase.EncodeOneHeaderFrame"},
		{"isaacdatabase.leveldbStateKey", "isaacdatabase.EncodeFrameState"},
	}
	for _, w := range writers {
		nW := 0
		for _, fn := range c.FuncsWithPrefix("isaac/database.(*LeveldbBlockWrite).") {
			for _, in := range allInstrs(fn) {
				cc := callCommon(in)
				if cc == nil {
					continue
				}
				name := CalleeFullName(cc)
				isPut := strings.HasSuffix(name, ".Put") || strings.HasSuffix(name, ".batchAdd")
				if !isPut || len(cc.Args) < 3 {
					continue
				}
				if !strings.HasPrefix(c.D(cc.Args[1]), w.keyfn+"(") {
					continue
				}
				nW++
				val := c.D(cc.Args[2])
				c.Report(fn, "record under "+w.keyfn+" written with "+w.enc, c.InstrPos(in), strings.HasPrefix(val, w.enc+"("), "value: "+val)
			}
		}
		c.Floor(nil, "writer sites of "+w.keyfn, nW, 1)
	}
	// readers of these keys decode with the one-header reader (object + header + body) or ReadDecodeFrame
	nR := 0
	for _, fn := range c.FuncsWithPrefix("isaac/database.") {
		for _, in := range allInstrs(fn) {
			cc := callCommon(in)
			if cc == nil || !strings.HasSuffix(CalleeFullName(cc), ".Get") || len(cc.Args) < 2 {
				continue
			}
			key := c.D(cc.Args[1])
			okKey := false
			for _, w := range writers {
				if strings.HasPrefix(key, w.keyfn+"(") {
					okKey = true
				}
			}
			if !okKey {
				continue
			}
			nR++
			got := c.D(in.(ssa.Value)) + "#0"
			used := false
			for _, in2 := range allInstrs(fn) {
				c2 := callCommon(in2)
				if c2 == nil {
					continue
				}
				n2 := CalleeFullName(c2)
				if n2 == "isaac/database.ReadOneHeaderFrame" || n2 == "isaac/database.ReadDecodeFrame" || n2 == "isaac/database.ReadDecodeOneHeaderFrame" || n2 == "isaac/database.ReadFrame" {
					for _, a := range c2.Args {
						if c.D(a) == got {
							used = true
						}
					}
				}
			}
			c.Report(fn, "record read under "+key[:strings.Index(key, "(")]+" decoded with the frame readers", c.InstrPos(in), used, "bytes "+got)
		}
	}
	c.Floor(nil, "reader sites of framed records", nR, 6)
	// R20.2 (continued): the cached last values are exactly what was stored -----------------------------
	c.Rule("R20.2", "Equivalence")
	if fn := c.Need("isaac/database.(*basePermanent).updateLast"); fn != nil {
		if cl := c.ClosureWithCall(fn, "db.lenc.SetValue(*)"); cl != nil {
			// the proof slot gets (proof, its header, its body); the block-map slot (map, its header, its body)
			for _, t := range []struct {
				what string
				val  ssa.Value
				want [3]string
			}{
				{"suffrage proof slot", CallArg(firstOr(c.CallsD(cl, "db.proof.SetValue(*)")), 0), [3]string{"proof", "proofmeta", "proofbody"}},
				{"block map slot", retVal0(cl, "var:complit", c), [3]string{"mp", "mpmeta", "mpbody"}},
			} {
				got, ok := tripleOf(c, cl, t.val)
				for k := 0; k < 3; k++ {
					c.Report(cl, fmt.Sprintf("%s component %d is %s", t.what, k, t.want[k]), cl.Pos(), ok && got[k] == t.want[k], fmt.Sprintf("stored %q", got[k]))
				}
			}
		}
	}
	for _, k := range []string{"isaac/database.(*LeveldbPermanent).mergeTempDatabaseFromLeveldb", "isaac/database.(*RedisPermanent).mergeTempDatabaseFromLeveldb"} {
		if fn := c.Need(k); fn != nil {
			calls := c.CallsD(fn, "db.updateLast(*)")
			for i, want := range []string{"temp.enc.Hint().String()", "temp.mp", "temp.mpmeta", "temp.mpbody", "temp.proof", "temp.proofmeta", "temp.proofbody", "temp.policy"} {
				c.ArgIs(fn, fmt.Sprintf("last values cached from the merged temp: argument %d", i), calls, 1, i, want)
			}
		}
	}
	permMergeCopyRules(c)
	permStateCacheLockRule(c, "R20.l")
	c.Rule("R20.p", "MustPass")
	permCommitBatchRule(c)
	// R20.4 loader gate (shared with C21): what a reopen loads is what was committed
	loaderGateRules(c, "R20.4")
}

func firstOr(ins []ssa.Instruction) ssa.Instruction {
	if len(ins) == 0 {
		return nil
	}
	return ins[0]
}

// retVal0: the first result of the return whose first result renders as pat.
func retVal0(fn *ssa.Function, pat string, c *Ctx) ssa.Value {
	for _, r := range Returns(fn) {
		if len(r.Results) > 0 && c.D(RetVal(r, 0)) == pat {
			return RetVal(r, 0)
		}
	}
	return nil
}

// tripleOf: v is (a load of) a local [3]T array; returns the descriptors stored into its elements.
func tripleOf(c *Ctx, fn *ssa.Function, v ssa.Value) (out [3]string, ok bool) {
	if v == nil {
		return out, false
	}
	if u, isU := v.(*ssa.UnOp); isU {
		v = u.X
	}
	al, isAl := v.(*ssa.Alloc)
	if !isAl {
		return out, false
	}
	n := 0
	for _, in := range allInstrs(fn) {
		st, isSt := in.(*ssa.Store)
		if !isSt {
			continue
		}
		ia, isIA := st.Addr.(*ssa.IndexAddr)
		if !isIA || ia.X != ssa.Value(al) {
			continue
		}
		k, isK := constInt(ia.Index)
		if !isK || k < 0 || k > 2 {
			return out, false
		}
		out[k] = c.D(st.Val)
		n++
	}
	return out, n == 3
}

func checkTriple(c *Ctx, fn *ssa.Function, at ssa.Instruction, slot string, ts map[int]ssa.Value) {
	names := []string{"object", "header", "body"}
	for k := 0; k < 3; k++ {
		v, ok := ts[k]
		if !ok {
			c.Report(fn, fmt.Sprintf("triple %s: %s component assigned", slot, names[k]), c.InstrPos(at), false, "component never assigned")
			continue
		}
		nt := nonTrivial(c, v, map[ssa.Value]bool{})
		if k == 1 {
			// a header may legitimately be empty (no suffrage hash at genesis); it must still be a value that is assigned somewhere
			nt = nt || strings.Contains(c.D(v), "meta")
		}
		c.Report(fn, fmt.Sprintf("triple %s: %s component comes from an assigned, non-nil source", slot, names[k]), c.InstrPos(at), nt, c.D(v))
	}
}

// addressEscapes: the address of the local is passed to a call (in its function or a closure).
func addressEscapes(c *Ctx, al *ssa.Alloc) bool {
	for _, fn := range WithClosures(al.Parent()) {
		for _, in := range allInstrs(fn) {
			cc := callCommon(in)
			if cc == nil {
				continue
			}
			for _, a := range cc.Args {
				switch x := a.(type) {
				case *ssa.Alloc:
					if x == al {
						return true
					}
				case *ssa.FreeVar:
					if c.freeVarAlloc(x) == al {
						return true
					}
				}
			}
		}
	}
	return false
}

// Returns2: the return instructions of fn as generic instructions.
func Returns2(fn *ssa.Function) []ssa.Instruction {
	var out []ssa.Instruction
	for _, r := range Returns(fn) {
		out = append(out, r)
	}
	return out
}

// mergedCacheRule (R20.m): what a permanent database takes over from a merged temp's state cache is
// only what the merge wrote to storage — the states of the merged block. A temp's cache may be
// shared with writers of other heights (see R20.s); an entry of another height planted in the
// permanent cache is answered by State() although the storage (and any reopened database) does not
// hold it. Every cache fill in mergeTempCaches is therefore gated on the entry's height being the
// merged height (or no fill from the temp's cache happens at all).
func mergedCacheRule(c *Ctx, rule string) {
	c.Rule(rule, "MustPass")
	parent := c.Need("isaac/database.(*basePermanent).mergeTempCaches")
	if parent == nil {
		return
	}
	n := 0
	for _, f := range WithClosures(parent) {
		for _, in := range c.CallsTo(f, "(*isaac/database.basePermanent).setStateToCache") {
			n++
			st := c.D(CallArg(in, 0))
			c.MP(f, "a state taken over from the temp's cache is of the merged height", []ssa.Instruction{in}, 1,
				GCmp(globEscape(st+".Height()"), "==", "height"), GCmp("height", "==", globEscape(st+".Height()")))
		}
	}
	c.floors[rule+" state cache fills in mergeTempCaches (0 is fine: nothing is taken over)"] = [2]int{0, n}
	for _, k := range []string{"isaac/database.(*LeveldbPermanent).mergeTempDatabaseFromLeveldb", "isaac/database.(*RedisPermanent).mergeTempDatabaseFromLeveldb"} {
		if fn := c.Need(k); fn != nil && n > 0 && ParamNamed(parent, "height") != nil {
			calls := c.CallsTo(fn, "(*isaac/database.basePermanent).mergeTempCaches")
			c.ArgIs(fn, "the merged height handed to mergeTempCaches is the temp's", calls, 1, 0, "temp.Height()", "temp.mp.Manifest().Height()")
		}
	}
}

// permMergeCopyRules (C19, C20 under the caller's current rule): the LevelDB permanent merge copies
// every record of the merged temp database.
func permMergeCopyRules(c *Ctx) {
	// every record of the merged temp database is copied: the copy callback continues only after the
	// record was put into the current batch, and a full batch is handed to a writer before it is replaced
	if parent := c.Need("isaac/database.(*LeveldbPermanent).mergeTempDatabaseFromLeveldb"); parent != nil {
		c.ArgIs(parent, "the whole temp database is iterated", c.CallsD(parent, "temp.st()#0.Iter(*)"), 1, 0, "nil")
		if cl := c.ClosureWithCall(parent, "*.Put(k, v)"); cl != nil {
			c.MP(cl, "copy continues only after the record was put into the batch", c.ReturnsD(cl, 0, "true"), 1, GCalled("*.Put(k, v)"))
			// a record held back in another batch (the commit batch of C21) is written by the merge itself
			for _, put := range c.CallsTo(cl, "(*storage/leveldb.PrefixStorageBatch).Put") {
				if a := loadedVar(callCommon(put).Args[0]); a != nil && a.Comment != "batch" {
					var commits []ssa.Instruction
					for _, in := range c.CallsTo(parent, "(*storage/leveldb.PrefixStorage).Batch") {
						if loadedVar(CallArg(in, 0)) == a {
							commits = append(commits, in)
						}
					}
					if c.Exists(parent, "the held-back batch "+a.Comment+" is written by the merge", commits, 1) {
						c.MP(parent, "success only after the held-back batch "+a.Comment+" was written", c.SuccessReturns(parent), 1, GOk(globEscape(c.D(commits[0].(ssa.Value)))))
					}
				}
			}
			c.MP(cl, "a full batch is replaced only after it was handed to a writer", c.StoresD(cl, "&var:batch"), 1, GOk("*.NewJob(*)"))
		} else {
			c.Unresolved(parent, "copy callback", "closure putting (k, v) into the batch not found")
		}
		c.MP(parent, "success only after the last partial batch was handed to a writer", c.SuccessReturns(parent), 1,
			GOk("*.NewJob(func:isaac/database.(*LeveldbPermanent).mergeTempDatabaseFromLeveldb$2)"), GCmp("var:batch.Len()", "<=", "0"))
	}
}
