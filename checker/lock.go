package main

import (
	"fmt"
	"sort"
	"strings"

	"golang.org/x/tools/go/ssa"
)

// Lock modes.
const (
	LNone = 0
	LR    = 1
	LW    = 2
)

var lockOps = map[string]int{
	"(*sync.Mutex).Lock":      +LW,
	"(*sync.RWMutex).Lock":    +LW,
	"(*sync.RWMutex).RLock":   +LR,
	"(*sync.Mutex).Unlock":    -LW,
	"(*sync.RWMutex).Unlock":  -LW,
	"(*sync.RWMutex).RUnlock": -LR,
}

type lockState map[string]int // mutex descriptor -> mode (must-hold)

func (s lockState) clone() lockState {
	o := lockState{}
	for k, v := range s {
		o[k] = v
	}
	return o
}

func meet(a, b lockState) lockState {
	o := lockState{}
	for k, v := range a {
		if w, ok := b[k]; ok {
			if w < v {
				v = w
			}
			if v > 0 {
				o[k] = v
			}
		}
	}
	return o
}

func equalState(a, b lockState) bool {
	if len(a) != len(b) {
		return false
	}
	for k, v := range a {
		if b[k] != v {
			return false
		}
	}
	return true
}

// LockStates computes, for every instruction of fn, the set of mutexes that are held on every path
// reaching it (forward must-dataflow; `defer Unlock` keeps the lock to all exits). entry is the
// state at function entry (for closures run synchronously under the caller's lock).
func (p *Prog) LockStates(fn *ssa.Function, entry lockState) map[ssa.Instruction]lockState {
	in := map[*ssa.BasicBlock]lockState{}
	out := map[*ssa.BasicBlock]lockState{}
	at := map[ssa.Instruction]lockState{}
	if len(fn.Blocks) == 0 {
		return at
	}
	if entry == nil {
		entry = lockState{}
	}
	transfer := func(b *ssa.BasicBlock, s lockState, record bool) lockState {
		s = s.clone()
		for _, ins := range b.Instrs {
			if record {
				at[ins] = s.clone()
			}
			c, ok := ins.(*ssa.Call)
			if !ok {
				continue
			}
			delta, isLock := lockOps[CalleeFullName(&c.Call)]
			if !isLock || len(c.Call.Args) == 0 {
				continue
			}
			key := p.D(c.Call.Args[0])
			if delta > 0 {
				s[key] = delta
			} else {
				delete(s, key)
			}
		}
		return s
	}
	// iterate to fixpoint; top = unvisited
	work := []*ssa.BasicBlock{fn.Blocks[0]}
	in[fn.Blocks[0]] = entry
	visited := map[*ssa.BasicBlock]bool{}
	for len(work) > 0 {
		b := work[0]
		work = work[1:]
		o := transfer(b, in[b], false)
		if visited[b] && equalState(o, out[b]) {
			continue
		}
		visited[b] = true
		out[b] = o
		for _, s := range b.Succs {
			var ns lockState
			if cur, ok := in[s]; ok {
				ns = meet(cur, o)
				if equalState(ns, cur) && visited[s] {
					continue
				}
			} else {
				ns = o.clone()
			}
			in[s] = ns
			work = append(work, s)
		}
	}
	for _, b := range fn.Blocks {
		if visited[b] {
			transfer(b, in[b], true)
		}
	}
	return at
}

func stateStr(s lockState) string {
	var ks []string
	for k, v := range s {
		m := "R"
		if v == LW {
			m = "W"
		}
		ks = append(ks, k+":"+m)
	}
	sort.Strings(ks)
	if len(ks) == 0 {
		return "{}"
	}
	return "{" + strings.Join(ks, ",") + "}"
}

// Held reports one obligation per target: mutex (descriptor pattern) is held at least in `mode`.
func (c *Ctx) Held(fn *ssa.Function, entry lockState, detail string, targets []ssa.Instruction, floor int, mutexPat string, mode int) {
	if fn == nil {
		return
	}
	c.touch(fn)
	if !c.Floor(fn, detail+" targets", len(targets), floor) {
		return
	}
	pp := P(mutexPat)
	st := c.LockStates(fn, entry)
	for i, t := range targets {
		ok := false
		for k, v := range st[t] {
			if pp.Match(k) && v >= mode {
				ok = true
			}
		}
		d := detail
		if len(targets) > 1 {
			d = fmt.Sprintf("%s/%d", detail, i)
		}
		need := "R"
		if mode == LW {
			need = "W"
		}
		c.Report(fn, d, c.InstrPos(t), ok, fmt.Sprintf("needs %s:%s, held on every path: %s", mutexPat, need, stateStr(st[t])))
	}
}

// FieldAccesses lists loads/stores of a struct field (by field name on a named struct type) in fn.
// write=true: stores (incl. map updates and appends through the field address are NOT included —
// only direct Store to the field address); write=false: any use of the field address or Field value.
func (p *Prog) FieldAccesses(fn *ssa.Function, typeName, field string, write bool) []ssa.Instruction {
	var out []ssa.Instruction
	for _, in := range allInstrs(fn) {
		switch x := in.(type) {
		case *ssa.FieldAddr:
			if !fieldIs(x.X.Type(), x.Field, typeName, field) {
				continue
			}
			refs := x.Referrers()
			if refs == nil {
				continue
			}
			for _, r := range *refs {
				if st, ok := r.(*ssa.Store); ok && st.Addr == x {
					if write {
						out = append(out, r)
					}
					continue
				}
				if !write {
					out = append(out, r)
				}
			}
		case *ssa.Field:
			if !write && fieldIs(x.X.Type(), x.Field, typeName, field) {
				out = append(out, in)
			}
		}
	}
	return out
}

// heldOK: every target is reached with a mutex matching mutexPat held at least in the given mode
// (quiet variant of Held: reports nothing).
func (c *Ctx) heldOK(fn *ssa.Function, targets []ssa.Instruction, mutexPat string, mode int) bool {
	pp := P(mutexPat)
	st := c.LockStates(fn, nil)
	for _, t := range targets {
		ok := false
		for k, v := range st[t] {
			if pp.Match(k) && v >= mode {
				ok = true
			}
		}
		if !ok {
			return false
		}
	}
	return true
}

// ReentrantLocks: sync.RWMutex is not re-entrant — a goroutine that holds the read lock and asks for
// it again deadlocks as soon as a writer is queued in between. For the methods of one receiver type
// (key prefix typePrefix, e.g. "isaac/states.(*States).") and one mutex field: no method calls, on
// its own receiver, another method of the type that acquires the mutex while it holds it itself.
// Direct acquisitions only (one call level), resolved callees only.
func (c *Ctx) ReentrantLocks(typePrefix, recv, field string, floor int) {
	mutex := "&" + recv + "." + field
	acquires := map[*ssa.Function]bool{}
	fns := c.FuncsWithPrefix(typePrefix)
	for _, fn := range fns {
		if fn.Parent() != nil {
			continue
		}
		for _, in := range allInstrs(fn) {
			cc := callCommon(in)
			if cc == nil || len(cc.Args) == 0 {
				continue
			}
			if _, isLock := lockOps[CalleeFullName(cc)]; isLock && lockOps[CalleeFullName(cc)] > 0 && c.D(cc.Args[0]) == mutex {
				acquires[fn] = true
			}
		}
	}
	n := 0
	for _, fn := range fns {
		if fn.Parent() != nil {
			continue
		}
		var st map[ssa.Instruction]lockState
		for _, in := range allInstrs(fn) {
			cc := callCommon(in)
			if cc == nil || cc.IsInvoke() {
				continue
			}
			cal := CalleeOf(cc)
			if cal == nil || !acquires[cal] || len(cc.Args) == 0 || c.D(cc.Args[0]) != recv {
				continue
			}
			n++
			if st == nil {
				st = c.LockStates(fn, nil)
			}
			held := st[in][mutex] > 0
			c.Report(fn, "no call of "+strings.TrimPrefix(c.FuncKey(cal), typePrefix)+"() (which locks "+field+") while "+field+" is held", in.Pos(), !held,
				"sync.RWMutex is not re-entrant: a second RLock behind a queued writer never returns")
		}
	}
	c.Floor(nil, "calls of "+field+"-acquiring methods on the own receiver", n, floor)
}
