package main

// runSelfTests evaluates every engine on the fixture module: each `bad` construct must be reported,
// each `good` construct must stay silent. Filled in selftest_cases.go.
func runSelfTests(dir string) (map[string]any, bool) {
	res := map[string]any{}
	fp, err := LoadProg(dir, "mitumfix", false)
	if err != nil {
		res["failures"] = []string{"fixture load: " + err.Error()}
		return res, false
	}
	var failures []string
	for _, tc := range selfCases {
		bad, good, fails := tc.run(fp)
		res[tc.name] = map[string]int{"bad_fired": bad, "good_silent": good}
		failures = append(failures, fails...)
	}
	if len(failures) > 0 {
		res["failures"] = failures
	}
	return res, len(failures) == 0
}

type selfCase struct {
	name string
	run  func(p *Prog) (badFired, goodSilent int, failures []string)
}

var selfCases []selfCase
