package main

import (
	"fmt"
	"os"
	"path/filepath"
	"regexp"
	"strconv"
	"strings"

	"golang.org/x/tools/go/ssa"
)

func init() {
	Register(&Property{
		ID: "C33",
		Decides: "the pairing and ordering the job worker relies on, not exactly-once under every schedule: " +
			"(R33.1) a job is accepted (nil) only after one semaphore unit was acquired under the accepting context, and every accepted job starts exactly one goroutine that releases that unit by defer, calls the job function once with the job, and cancels the worker with the job's own error; " +
			"(R33.2) waiting acquires the whole semaphore with a context the worker cannot cancel itself (so it cannot return while accepted jobs run), Wait does it after the accept side was closed and answers the cancel cause; " +
			"(R33.3) the run helpers hand in every index once (per-iteration loop variable, go >= 1.22), call Done before Wait and return Wait's answer; " +
			"(R33.4) BatchWork calls the batch preparation with the batch's last index before that batch's jobs, runs indexes i..end-1 of each batch, advances by the limit, stops exactly when end reached size and reports success only if every batch succeeded.; (R33.e) whatever error a job returns is handed to the worker's cancel (no error is filtered out before it can become the reported first error)",
		NotDecided: "exactly-once and first-error-wins under all schedules (context.WithCancelCause's first-cause semantics and x/sync/semaphore are trusted); jobs that ignore their context.",
		Run:        runC33,
	})
}

func goDirective(root string) (int, int, bool) {
	b, err := os.ReadFile(filepath.Join(root, "go.mod"))
	if err != nil {
		return 0, 0, false
	}
	m := regexp.MustCompile(`(?m)^go (\d+)\.(\d+)`).FindStringSubmatch(string(b))
	if m == nil {
		return 0, 0, false
	}
	a, _ := strconv.Atoi(m[1])
	bb, _ := strconv.Atoi(m[2])
	return a, bb, true
}

func runC33(c *Ctx) {
	// R33.e: a job's error always reaches the worker's cancel (first error is what Wait reports)
	c.Rule("R33.e", "MustPass")
	if parent := c.Need("util.NewBaseJobWorker"); parent != nil {
		n := 0
		for _, f := range WithClosures(parent) {
			for _, call := range c.CallsD(f, "call(var:complit.NewJobFunc)(*)") {
				n++
				var ends []ssa.Instruction
				for _, r := range Returns(f) {
					if r.Block().Comment != "recover" {
						ends = append(ends, r)
					}
				}
				c.MPFrom(f, call, "the job goroutine ends only after a job error was handed to the worker's cancel", ends, 1,
					GOk("call(var:complit.NewJobFunc)(*)"), GCalled("call(var:complit.ctxCancel)(call(var:complit.NewJobFunc)(*))"))
			}
		}
		c.Floor(parent, "job invocations", n, 1)
	}
	parent := c.Need("util.NewBaseJobWorker")
	if parent == nil {
		return
	}
	var newJob, waitF, goFn *ssa.Function
	for _, f := range WithClosures(parent) {
		if len(c.CallsD(f, "*.Acquire(call(var:complit.newJobCtx)(), 1)")) > 0 {
			newJob = f
		}
		if len(c.CallsD(f, "*.Acquire(*, semSize)")) > 0 {
			waitF = f
		}
		if len(c.CallsD(f, "call(var:complit.NewJobFunc)(*)")) > 0 {
			goFn = f
		}
	}
	// R33.1 --------------------------------------------------------------------------------------
	c.Rule("R33.1", "Pairing")
	if newJob == nil || goFn == nil {
		c.Unresolved(parent, "accept function / job goroutine", "closures not found")
	} else {
		acc := c.ReturnsD(newJob, 0, "nil")
		c.MP(newJob, "a job is accepted only after a semaphore unit was acquired", acc, 1, GOk("*.Acquire(call(var:complit.newJobCtx)(), 1)"))
		c.MP(newJob, "a job is accepted only while the accept side is open", acc, 1, GNil("context.Cause(call(var:complit.newJobCtx)())"))
		var gos []ssa.Instruction
		for _, in := range allInstrs(newJob) {
			if _, ok := in.(*ssa.Go); ok {
				gos = append(gos, in)
			}
		}
		c.Report(newJob, "accepting a job starts exactly one goroutine", newJob.Pos(), len(gos) == 1, fmt.Sprintf("%d go statements", len(gos)))
		if len(gos) == 1 {
			c.MP(newJob, "the goroutine is started only with a unit held", gos, 1, GOk("*.Acquire(call(var:complit.newJobCtx)(), 1)"))
			res := c.MustPass(newJob, nil, acc, Gate{Name: "go", Barrier: func(p *Prog, in ssa.Instruction) bool { return in == gos[0] }})
			okAll := len(res) > 0
			for _, r := range res {
				okAll = okAll && r.OK
			}
			c.Report(newJob, "every accepted job was started", newJob.Pos(), okAll, "")
			if cc := callCommon(gos[0]); cc != nil {
				started, _ := cc.Value.(*ssa.MakeClosure)
				c.Report(newJob, "the started goroutine is the job runner", c.InstrPos(gos[0]), started != nil && started.Fn == goFn, "")
			}
		}
		// the job runner
		var defers []ssa.Instruction
		for _, in := range allInstrs(goFn) {
			if d, ok := in.(*ssa.Defer); ok && strings.HasSuffix(CalleeFullName(&d.Call), ".Release") {
				defers = append(defers, in)
			}
		}
		c.Report(goFn, "the job runner releases its unit by defer", goFn.Pos(), len(defers) == 1, fmt.Sprintf("%d deferred releases", len(defers)))
		if len(defers) == 1 {
			c.ArgIs(goFn, "the released weight is the acquired weight", defers, 1, 0, "1")
			// the defer is registered before the job runs
			c.MP(goFn, "the release is registered before the job function runs", c.CallsD(goFn, "call(var:complit.NewJobFunc)(*)"), 1,
				Gate{Name: "defer release", Barrier: func(p *Prog, in ssa.Instruction) bool { return in == defers[0] }})
		}
		run := c.CallsD(goFn, "call(var:complit.NewJobFunc)(*)")
		c.Report(goFn, "the job function is called once", goFn.Pos(), len(run) == 1, fmt.Sprintf("%d calls", len(run)))
		c.ArgIs(goFn, "the job function gets the accepted job", run, 1, 1, "c")
		cancel := c.CallsD(goFn, "call(var:complit.ctxCancel)(*)")
		c.MP(goFn, "the worker is canceled only by a failed job", cancel, 1, GNonNil("call(var:complit.NewJobFunc)(*)"))
		c.ArgIs(goFn, "the cancel cause is the job's own error", cancel, 1, 0, "call(var:complit.NewJobFunc)(*)")
		c.Exists(goFn, "a failed job cancels the worker", cancel, 1)
		// same semaphore on both sides
		a := c.CallsD(newJob, "*.Acquire(call(var:complit.newJobCtx)(), 1)")
		if len(a) == 1 && len(defers) == 1 {
			c.Report(goFn, "acquire and release use the same semaphore", goFn.Pos(),
				c.D(callCommon(a[0]).Args[0]) == c.D(defers[0].(*ssa.Defer).Call.Args[0]), "")
		}
	}
	if fn := c.Need("util.NewBaseJobWorker"); fn != nil {
		for _, cl := range WithClosures(fn) {
			if len(c.CallsD(cl, "call(c)(*)")) == 1 && cl != goFn && cl.Parent() == fn {
				c.ArgIs(cl, "the default job function runs the job with the cancelable worker context", c.CallsD(cl, "call(c)(*)"), 1, 0, "context.WithCancelCause(ctx)#0")
			}
		}
	}
	// R33.2 --------------------------------------------------------------------------------------
	c.Rule("R33.2", "MustPass")
	if waitF == nil {
		c.Unresolved(parent, "wait function", "closure not found")
	} else {
		acq := c.CallsD(waitF, "*.Acquire(*, semSize)")
		c.ArgIs(waitF, "waiting acquires the whole semaphore", acq, 1, 1, "semSize")
		if len(acq) == 1 {
			cancelable := c.DependsOn(CallArg(acq[0], 0), func(x ssa.Value) bool {
				if call, ok := x.(*ssa.Call); ok {
					n := CalleeFullName(&call.Call)
					return strings.HasPrefix(n, "context.With")
				}
				d := c.D(x)
				return strings.Contains(d, "var:complit.ctx") || strings.Contains(d, "var:complit.newJobCtx")
			})
			c.Report(waitF, "waiting cannot be cut short by the worker's own cancelation", c.InstrPos(acq[0]), !cancelable, "context: "+c.D(CallArg(acq[0], 0)))
		}
		c.MP(waitF, "waiting succeeds only after the whole semaphore was acquired", c.SuccessReturns(waitF), 1, GOk("*.Acquire(*, semSize)"))
		c.ArgIs(parent, "the semaphore's size is the size that waiting acquires", c.CallsTo(parent, "golang.org/x/sync/semaphore.NewWeighted"), 1, 0, "semSize")
	}
	if fn := c.Need("util.(*BaseJobWorker).Wait"); fn != nil {
		wf := c.CallsD(fn, "call(wk.waitFunc)()")
		c.MP(fn, "Wait waits for the jobs only after the accept side was closed", wf, 1, GCalled("call(wk.newJobCtx)().Done()"))
		for _, r := range Returns(fn) {
			d := c.D(RetVal(r, 0))
			if d == "call(wk.waitFunc)()" || strings.HasPrefix(d, "var:") {
				continue
			}
			c.Report(fn, "Wait answers the worker's cancel cause", c.InstrPos(r), d == "errors.WithStack(context.Cause(call(wk.ctx)()))", d)
			c.MP(fn, "Wait answers only after all jobs were waited for", []ssa.Instruction{r}, 1, GOk("call(wk.waitFunc)()"))
		}
	}
	if fn := c.Need("util.(*BaseJobWorker).Done"); fn != nil {
		c.Exists(fn, "Done closes the accept side", c.CallsD(fn, "call(wk.done)()"), 1)
	}
	// R33.3 --------------------------------------------------------------------------------------
	c.Rule("R33.3", "MustPass")
	maj, min, ok := goDirective(c.Root)
	c.Report(nil, "loop variables are per iteration (go directive >= 1.22): a job closure keeps its own index", 0, ok && (maj > 1 || min >= 22), fmt.Sprintf("go %d.%d", maj, min))
	if fn := c.Need("util.runWorker"); fn != nil {
		c.ForEach(fn, "runWorker: every index is handed in as a job", "(var:i < size)", 1, GOk("*.NewJob(*)"))
		c.MP(fn, "runWorker: Wait only after Done", c.CallsD(fn, "*.Wait()"), 1, GCalled("call(workerf)(ctx)#0.Done()"))
		c.MP(fn, "runWorker: Done only after every index was handed in", c.CallsD(fn, "*.Done()"), 1, GLoopDone("(var:i < size)"))
		c.Exists(fn, "runWorker: answers what Wait answers", c.ReturnsD(fn, 0, "call(workerf)(ctx)#0.Wait()"), 1)
		st := c.StoresD(fn, "&var:i")
		n := 0
		for _, in := range st {
			d := c.D(in.(*ssa.Store).Val)
			if d == "(var:i + 1)" {
				n++
			}
		}
		c.Report(fn, "runWorker: the index advances by one", fn.Pos(), n == 1, "")
		if cl := c.ClosureWithCall(fn, "call(f)(*)"); cl != nil {
			c.ArgIs(cl, "runWorker: a job runs with its own index", c.CallsD(cl, "call(f)(*)"), 1, 1, "var:i")
		}
	}
	if fn := c.Need("util.RunJobWorkerByJobs"); fn != nil {
		c.ForEach(fn, "RunJobWorkerByJobs: every job is handed in", "(ι < len(jobs))", 1, GOk("*.NewJob(jobs[ι])"))
		c.MP(fn, "RunJobWorkerByJobs: Wait only after Done", c.CallsD(fn, "*.Wait()"), 1, GCalled("*.Done()"))
		c.MP(fn, "RunJobWorkerByJobs: Done only after every job was handed in", c.CallsD(fn, "*.Done()"), 1, GLoopDone("(ι < len(jobs))"))
	}
	// R33.4 --------------------------------------------------------------------------------------
	batchWorkErrRules(c, "R33.4")
	c.Rule("R33.4", "MustPass")
	if fn := c.Need("util.BatchWork"); fn != nil {
		run1 := c.CallsD(fn, "util.RunJobWorker(ctx, size, size, *)")
		run2 := c.CallsD(fn, "util.RunJobWorker(ctx, limit, (var:end - var:i), *)")
		c.MP(fn, "single batch: prepared with the last index before its jobs", run1, 1, GOk("call(pref)(ctx, (size - 1))"))
		c.MP(fn, "single batch only if everything fits the limit", run1, 1, GCmp("size", "<=", "limit"))
		c.MP(fn, "each batch: prepared with its last index before its jobs", run2, 1, GOk("call(pref)(ctx, (var:end - 1))"))
		c.Exists(fn, "each batch runs end-i jobs with at most `limit` workers", run2, 1)
		// end = min(i+limit, size)
		ends := c.StoresD(fn, "&var:end")
		okEnd := len(ends) == 2
		for _, in := range ends {
			d := c.D(in.(*ssa.Store).Val)
			if d != "(var:i + limit)" && d != "size" {
				okEnd = false
			}
			if d == "size" {
				c.MP(fn, "a batch is cut at size only if it would run past it", []ssa.Instruction{in}, 1, GCmp("var:end", ">", "size"))
			}
		}
		c.Report(fn, "a batch ends at i+limit or at size", fn.Pos(), okEnd, "")
		is := c.StoresD(fn, "&var:i")
		c.StoredIs(fn, "the next batch starts `limit` after this one", is, 1, "(var:i + limit)")
		c.MP(fn, "the next batch starts only after this one succeeded", is, 1, GOk("util.RunJobWorker(ctx, limit, (var:end - var:i), *)"))
		c.MP(fn, "the next batch starts only if this one did not reach size", is, 1, GCmp("var:end", "!=", "size"))
		c.MP(fn, "success only after the last batch reached size (or the single batch ran)", c.ReturnsD(fn, 0, "nil"), 1, GCmp("var:end", "==", "size"))
		c.MP(fn, "nothing runs for a non-positive size", append(run1, run2...), 2, GCmp("size", ">=", "1"))
		for _, cl := range WithClosures(fn) {
			if cl == fn {
				continue
			}
			for _, in := range c.CallsD(cl, "call(f)(*)") {
				a1, a2 := c.D(CallArg(in, 1)), c.D(CallArg(in, 2))
				ok := (a1 == "i" && a2 == "(size - 1)") || (a1 == "(var:i + n)" && a2 == "(var:end - 1)")
				c.Report(cl, "a batch job runs index batchstart+n with the batch's last index", c.InstrPos(in), ok, a1+", "+a2)
			}
		}
	}
}

// batchWorkErrRules (shared by C14, C15, C18, C33): BatchWork reports success only after the
// preparation and the jobs of the batch it stops at succeeded — no batch's error is dropped.
func batchWorkErrRules(c *Ctx, rule string) {
	c.Rule(rule, "MustPass")
	fn := c.Need("util.BatchWork")
	if fn == nil {
		return
	}
	nilRets := c.ReturnsD(fn, 0, "nil")
	c.MP(fn, "BatchWork success: the jobs of the last batch succeeded", nilRets, 1, GOk("util.RunJobWorker(ctx, limit, *)"))
	c.MP(fn, "BatchWork success: the preparation of the last batch succeeded", nilRets, 1, GOk("call(pref)(ctx, (var:end - 1))"))
	for _, call := range c.CallsD(fn, "util.RunJobWorker(ctx, limit, *)") {
		c.MPFrom(fn, call, "BatchWork: after a batch's jobs, success or a further batch only if they succeeded", append(nilRets, c.StoresD(fn, "&var:i")...), 2,
			GOk("util.RunJobWorker(ctx, limit, *)"))
	}
}
