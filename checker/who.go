package main

import (
	"go/types"
	"sort"
	"strings"

	"golang.org/x/tools/go/ssa"
)

// fieldIs: the idx-th field of (pointer to) named struct type t is typeName.field. typeName may be
// "Name" or "pkgname.Name".
func fieldIs(t types.Type, idx int, typeName, field string) bool {
	if pt, ok := t.Underlying().(*types.Pointer); ok {
		t = pt.Elem()
	}
	n, ok := t.(*types.Named)
	if !ok {
		return false
	}
	if o := n.Origin(); o != nil {
		n = o
	}
	name := n.Obj().Name()
	if strings.Contains(typeName, ".") && n.Obj().Pkg() != nil {
		name = n.Obj().Pkg().Name() + "." + name
	}
	if name != typeName {
		return false
	}
	st, ok := n.Underlying().(*types.Struct)
	if !ok || idx >= st.NumFields() {
		return false
	}
	return st.Field(idx).Name() == field
}

// Site is an instruction in a function.
type Site struct {
	Fn *ssa.Function
	In ssa.Instruction
}

// WhoStores: all direct stores to typeName.field in the tree.
func (p *Prog) WhoStores(typeName, field string) []Site {
	var out []Site
	for _, fn := range p.Funcs {
		for _, in := range p.FieldAccesses(fn, typeName, field, true) {
			out = append(out, Site{fn, in})
		}
	}
	return out
}

// WhoTouches: all uses (reads and writes) of typeName.field in the tree.
func (p *Prog) WhoTouches(typeName, field string) []Site {
	var out []Site
	for _, fn := range p.Funcs {
		for _, in := range p.FieldAccesses(fn, typeName, field, false) {
			out = append(out, Site{fn, in})
		}
		for _, in := range p.FieldAccesses(fn, typeName, field, true) {
			out = append(out, Site{fn, in})
		}
	}
	return out
}

// WhoCalls: all call sites (call/go/defer) in the tree whose resolved callee full name matches pat.
func (p *Prog) WhoCalls(pat string) []Site {
	pp := P(pat)
	var out []Site
	for _, fn := range p.Funcs {
		for _, in := range allInstrs(fn) {
			if c := callCommon(in); c != nil && pp.Match(CalleeFullName(c)) {
				out = append(out, Site{fn, in})
				continue
			}
			// thorough tier: dynamic call sites that value flow resolves to a matching function
			if p.Dyn != nil {
				if ci, ok := in.(ssa.CallInstruction); ok {
					for _, cal := range p.Dyn[ci] {
						if pp.Match(funcFullName(cal)) {
							out = append(out, Site{fn, in})
							break
						}
					}
				}
			}
		}
	}
	return out
}

// WhoRefs: all places where the function value fnKey is referenced other than as a direct callee
// (method values, closures passed around).
func (p *Prog) WhoRefs(target *ssa.Function) []Site {
	var out []Site
	for _, fn := range p.Funcs {
		for _, in := range allInstrs(fn) {
			var ops []*ssa.Value
			for _, o := range in.Operands(ops) {
				if *o == nil {
					continue
				}
				f, ok := (*o).(*ssa.Function)
				if !ok {
					continue
				}
				if f.Origin() != nil {
					f = f.Origin()
				}
				if f != target {
					// bound method wrappers: "bound method wrapper for func (T).M"
					if f.Synthetic != "" && strings.Contains(f.Synthetic, "bound method") && f.Object() == target.Object() && target.Object() != nil {
					} else {
						continue
					}
				}
				if c := callCommon(in); c != nil && c.Value == *o {
					continue // direct call
				}
				out = append(out, Site{fn, in})
			}
		}
	}
	return out
}

// OnlyIn reports, for a list of sites, one obligation per site: the enclosing function (closures
// count as their outermost parent when rootOnly) must be in the allowed set.
func (c *Ctx) OnlyIn(detail string, sites []Site, floor int, allowed ...string) {
	al := map[string]bool{}
	for _, a := range allowed {
		al[a] = true
	}
	if !c.Floor(nil, detail+" sites", len(sites), floor) {
		return
	}
	sort.SliceStable(sites, func(i, j int) bool { return c.FuncKey(sites[i].Fn) < c.FuncKey(sites[j].Fn) })
	for _, s := range sites {
		key := c.FuncKey(s.Fn)
		root := key
		if i := strings.Index(root, "$"); i >= 0 {
			root = root[:i]
		}
		ok := al[key] || al[root]
		c.Report(s.Fn, detail, c.InstrPos(s.In), ok, "allowed: "+strings.Join(allowed, ", "))
	}
}

// funcFullName renders a function the way CalleeFullName renders a static callee.
func funcFullName(f *ssa.Function) string {
	if o := f.Origin(); o != nil {
		f = o
	}
	name := f.String()
	if obj := f.Object(); obj != nil {
		if fo, ok := obj.(*types.Func); ok {
			name = fo.FullName()
		}
	}
	return strings.ReplaceAll(name, modPath+"/", "")
}
