package main

import (
	"go/token"
	"sort"
	"fmt"
	"strings"

	"golang.org/x/tools/go/ssa"
)

func init() {
	Register(&Property{
		ID: "C25",
		Decides: "(R25.1) every key a PrefixStorage method hands to the raw storage is the nil-checked result of st.key(...) (prefix ++ key, built only while the prefix is set), every range it hands over is BytesPrefix(prefix) of a non-nil prefix whose bounds are only replaced by st.key(bound), and keys handed back to the caller are stripped by origkey; prefix/prefixlen are written only by the constructor and Close; " +
			"(R25.2) a prefix batch prefixes every key it takes, is made only from the storage's prefix, and reaches the raw storage only behind the closed check (Batch, BatchFunc add/done); " +
			"(R25.3) Remove runs RemoveByPrefix only with a non-nil own prefix; RemoveByPrefix and BatchRemove delete exactly the keys their iteration over the given range handed them, write the batch only after the iteration succeeded, and never widen the range; " +
			"(R25.4) the raw storage behind a PrefixStorage is reached only inside storage/leveldb (RawStorage has no caller in the build, the embedded field is touched only by the tabled methods).; (R25.5) every exported method of the embedded Storage is overridden by PrefixStorage (or tabled as promoted on purpose)",
		NotDecided: "prefixes that are byte-prefixes of one another (\"aa\" and \"aab\"): mitum's prefixes are fixed-length labels, nothing in the type enforces it; goleveldb's own range semantics; the values stored under a key.",
		Run:        runC25,
	})
}

func runC25(c *Ctx) {
	// R25.5: PrefixStorage embeds *Storage: every exported method of Storage that is not overridden is
	// promoted and works on the whole key space
	c.Rule("R25.5", "Exhaustive")
	{
		exempt := map[string]string{
			"DB":                    "hands out the raw database handle by name",
			"BatchFuncWithNewBatch": "takes the batch constructor from the caller; PrefixStorage.BatchFunc passes the prefixing one",
		}
		own := map[string]bool{}
		for _, f := range c.FuncsWithPrefix("storage/leveldb.(*PrefixStorage).") {
			if f.Parent() == nil {
				own[strings.TrimPrefix(c.FuncKey(f), "storage/leveldb.(*PrefixStorage).")] = true
			}
		}
		n := 0
		var names []string
		for _, f := range c.FuncsWithPrefix("storage/leveldb.(*Storage).") {
			if f.Parent() != nil {
				continue
			}
			names = append(names, strings.TrimPrefix(c.FuncKey(f), "storage/leveldb.(*Storage)."))
		}
		sort.Strings(names)
		for _, name := range names {
			if name == "" || !token.IsExported(name) {
				continue
			}
			n++
			if why, ok := exempt[name]; ok {
				c.Report(nil, "Storage."+name+" promoted to PrefixStorage on purpose", 0, true, why)
				continue
			}
			c.Report(nil, "Storage."+name+" is overridden by PrefixStorage (a promoted method works on every prefix)", 0, own[name], "")
		}
		c.Floor(nil, "exported methods of Storage", n, 9)
	}
	const PS = "storage/leveldb.(*PrefixStorage)."
	// R25.1 --------------------------------------------------------------------------------------
	c.Rule("R25.1", "KeyDerivation")
	for _, m := range []string{"Get", "Exists", "Put", "Delete"} {
		fn := c.Need(PS + m)
		if fn == nil {
			continue
		}
		raw := c.CallsTo(fn, "(*storage/leveldb.Storage)."+m)
		c.ArgIs(fn, m+": raw key is the prefixed key", raw, 1, 0, "st.key(key)")
		c.MP(fn, m+": raw storage reached only with a non-nil prefixed key", raw, 1, GNonNil("st.key(key)"))
		// nothing else of the raw storage is called
		var other []ssa.Instruction
		for _, in := range allInstrs(fn) {
			if cc := callCommon(in); cc != nil {
				n := CalleeFullName(cc)
				if strings.HasPrefix(n, "(*storage/leveldb.Storage).") && n != "(*storage/leveldb.Storage)."+m {
					other = append(other, in)
				}
			}
		}
		c.Report(fn, m+": no other raw storage call", fn.Pos(), len(other) == 0, fmt.Sprintf("%d other raw calls", len(other)))
	}
	if fn := c.Need(PS + "key"); fn != nil {
		ret := nonMatchingReturns(c, fn, 0, "nil")
		c.Exists(fn, "key: a non-nil return exists", ret, 1)
		for _, r := range ret {
			got := c.D(RetVal(r.(*ssa.Return), 0))
			c.Report(fn, "key: non-nil result is a concatenation", c.InstrPos(r), got == "util.ConcatBytesSlice(var:varargs[:])", got)
		}
		c.StoredIs(fn, "key: first part is the prefix", c.StoresD(fn, "&var:varargs[0]"), 1, "st.prefix")
		c.StoredIs(fn, "key: second part is the caller's key", c.StoresD(fn, "&var:varargs[1]"), 1, "b")
		n := 0
		for _, in := range allInstrs(fn) {
			if st, ok := in.(*ssa.Store); ok && strings.HasPrefix(c.D(st.Addr), "&var:varargs[") {
				n++
			}
		}
		c.Report(fn, "key: exactly two parts", fn.Pos(), n == 2, fmt.Sprintf("%d parts", n))
		c.MP(fn, "key: built only while the prefix is set", ret, 1, GNonNil("st.prefix"))
		c.MP(fn, "key: empty key is refused", ret, 1, GCmp("len(b)", ">=", "1"))
		c.Held(fn, nil, "key: prefix read under the lock", c.CallsD(fn, "util.ConcatBytesSlice(*)"), 1, "&st", LR)
	}
	if fn := c.Need(PS + "origkey"); fn != nil {
		ret := nonMatchingReturns(c, fn, 0, "nil")
		c.Exists(fn, "origkey: a non-nil return exists", ret, 1)
		for _, r := range ret {
			got := c.D(RetVal(r.(*ssa.Return), 0))
			c.Report(fn, "origkey: strips exactly the prefix length", c.InstrPos(r), got == "b[st.prefixlen:]", got)
		}
		c.MP(fn, "origkey: key shorter than the prefix is refused", ret, 1, GCmp("len(b)", ">=", "st.prefixlen"))
	}
	if fn := c.Need(PS + "Iter"); fn != nil {
		raw := c.CallsTo(fn, "(*storage/leveldb.Storage).Iter")
		c.ArgIs(fn, "Iter: raw range is the range of the prefix", raw, 1, 0, "util.BytesPrefix(st.Prefix())", "util.BytesPrefix(st.prefix)")
		c.MP(fn, "Iter: raw iteration only with a non-nil prefix", raw, 1, GNonNil("st.*refix*"))
		for _, b := range []string{"Start", "Limit"} {
			sts := c.StoresD(fn, "&util.BytesPrefix(st.*refix*)."+b)
			c.StoredIs(fn, "Iter: "+b+" replaced only by the prefixed bound", sts, 1, "st.key(r."+b+")")
			c.MP(fn, "Iter: "+b+" replaced only by a non-nil prefixed bound", sts, 1, GNonNil("st.key(r."+b+")"))
		}
		// no other store into the range
		n := 0
		for _, in := range allInstrs(fn) {
			if st, ok := in.(*ssa.Store); ok && strings.HasPrefix(c.D(st.Addr), "&util.BytesPrefix(") {
				n++
			}
		}
		c.Report(fn, "Iter: range bounds stored exactly twice", fn.Pos(), n == 2, fmt.Sprintf("%d stores", n))
		if len(raw) == 1 {
			cbv := CallArg(raw[0], 1)
			var cl *ssa.Function
			if mc, ok := cbv.(*ssa.MakeClosure); ok {
				cl, _ = mc.Fn.(*ssa.Function)
			}
			if cl == nil {
				c.Unresolved(fn, "Iter: raw callback is a closure of Iter", c.D(cbv))
			} else {
				cb := c.CallsD(cl, "call(callback)(*)")
				c.ArgIs(cl, "Iter: caller's callback gets the stripped key", cb, 1, 0, "st.origkey(key)#0")
				c.MP(cl, "Iter: caller's callback runs only if stripping succeeded", cb, 1, GOk("st.origkey(key)"))
			}
		}
	}
	for _, f := range []string{"prefix", "prefixlen"} {
		c.OnlyIn("store PrefixStorage."+f, c.WhoStores("PrefixStorage", f), 1,
			"storage/leveldb.NewPrefixStorage", PS+"Close")
	}
	if fn := c.Need("storage/leveldb.NewPrefixStorage"); fn != nil {
		c.StoredIs(fn, "constructor: prefixlen is the length of the prefix", c.StoresD(fn, "*.prefixlen"), 1, "len(prefix)")
		c.StoredIs(fn, "constructor: prefix is the given prefix", c.StoresD(fn, "*.prefix"), 1, "prefix")
	}
	if fn := c.Need(PS + "Close"); fn != nil {
		c.StoredIs(fn, "Close: prefix becomes nil", c.StoresD(fn, "&st.prefix"), 1, "nil")
		c.Held(fn, nil, "Close: prefix reset under the write lock", c.StoresD(fn, "&st.prefix"), 1, "&st", LW)
	}
	if fn := c.Need(PS + "Prefix"); fn != nil {
		var rs []ssa.Instruction
		for _, r := range Returns(fn) {
			rs = append(rs, r)
		}
		c.Held(fn, nil, "Prefix: read under the lock", rs, 1, "&st", LR)
	}
	// R25.2 --------------------------------------------------------------------------------------
	c.Rule("R25.2", "BatchPrefix")
	for _, m := range []string{"Put", "Delete"} {
		fn := c.Need("storage/leveldb.(*PrefixStorageBatch)." + m)
		if fn == nil {
			continue
		}
		raw := c.CallsTo(fn, "(*github.com/syndtr/goleveldb/leveldb.Batch)."+m)
		c.ArgIs(fn, "batch "+m+": raw key is a concatenation", raw, 1, 0, "util.ConcatBytesSlice(var:varargs[:])")
		c.StoredIs(fn, "batch "+m+": first part is the batch prefix", c.StoresD(fn, "&var:varargs[0]"), 1, "b.prefix")
		c.StoredIs(fn, "batch "+m+": second part is the caller's key", c.StoresD(fn, "&var:varargs[1]"), 1, "key")
	}
	c.OnlyIn("store PrefixStorageBatch.prefix", c.WhoStores("PrefixStorageBatch", "prefix"), 1, "storage/leveldb.newPrefixStorageBatch")
	// every prefix batch is made with the prefix of the storage that makes it
	mkSites := c.WhoCalls("storage/leveldb.newPrefixStorageBatch")
	c.Floor(nil, "call sites of newPrefixStorageBatch", len(mkSites), 1)
	for _, s := range mkSites {
		c.ArgIs(s.Fn, "batch prefix is the storage's prefix", []ssa.Instruction{s.In}, 1, 0, "st.Prefix()", "st.prefix")
	}
	if fn := c.Need("storage/leveldb.newPrefixStorageBatch"); fn != nil {
		c.StoredIs(fn, "batch constructor keeps the given prefix", c.StoresD(fn, "*.prefix"), 1, "prefix")
	}
	// raw leveldb batch behind a prefix batch: touched only by the tabled methods
	{
		// promoted Len/Reset (and friends that do not take keys) are harmless anywhere; everything
		// else that touches the embedded raw batch must be one of the tabled methods
		harmless := map[string]bool{
			"(*github.com/syndtr/goleveldb/leveldb.Batch).Len":   true,
			"(*github.com/syndtr/goleveldb/leveldb.Batch).Reset": true,
		}
		var sites []Site
		for _, s := range c.WhoTouches("PrefixStorageBatch", "Batch") {
			ok := false
			if ld, isLoad := s.In.(*ssa.UnOp); isLoad && ld.Referrers() != nil {
				ok = len(*ld.Referrers()) > 0
				for _, r := range *ld.Referrers() {
					cc := callCommon(r)
					if cc == nil || !harmless[CalleeFullName(cc)] || len(cc.Args) == 0 || cc.Args[0] != ssa.Value(ld) {
						ok = false
					}
				}
			}
			if !ok {
				sites = append(sites, s)
			}
		}
		c.OnlyIn("use of the raw batch embedded in PrefixStorageBatch", sites, 4,
			"storage/leveldb.newPrefixStorageBatch", "storage/leveldb.(*PrefixStorageBatch).Put", "storage/leveldb.(*PrefixStorageBatch).Delete",
			"storage/leveldb.(*PrefixStorageBatch).LBatch", PS+"Batch")
	}
	c.OnlyIn("call PrefixStorageBatch.LBatch", c.WhoCalls("(*storage/leveldb.PrefixStorageBatch).LBatch"), 0, "storage/leveldb.(*Storage).BatchFuncWithNewBatch") // the save function of the batch function (seen only with resolved dynamic calls)
	if fn := c.Need(PS + "Batch"); fn != nil {
		raw := c.CallsTo(fn, "(*storage/leveldb.Storage).Batch")
		c.MP(fn, "Batch: written only while the prefix is set", raw, 1, GNonNil("st.key(*)"), GNonNil("st.Prefix()"), GNonNil("st.prefix"))
		c.MP(fn, "Batch: written only if the batch was made for this storage's prefix", raw, 1,
			GTrue("bytes.Equal(st.Prefix(), batch.prefix)"), GTrue("bytes.Equal(batch.prefix, st.Prefix())"),
			GTrue("bytes.Equal(st.prefix, batch.prefix)"), GTrue("bytes.Equal(batch.prefix, st.prefix)"))
	}
	if fn := c.Need(PS + "BatchFunc"); fn != nil {
		mk := c.CallsTo(fn, "(*storage/leveldb.Storage).BatchFuncWithNewBatch")
		if c.Exists(fn, "BatchFunc: built on the raw batch function", mk, 1) && len(mk) == 1 {
			mkD := c.D(mk[0].(ssa.Value))
			// the new-batch closure yields the storage's own prefix batch
			if mc, ok := CallArg(mk[0], 3).(*ssa.MakeClosure); ok {
				cl := mc.Fn.(*ssa.Function)
				// the prefix of a replacement batch is the one read when the batch function was made: a
				// prefix read when a full batch is replaced is nil once the storage was closed, and a
				// batch with a nil prefix writes raw keys (an add that passed the closed check before
				// the Close still fills it)
				for _, r := range Returns(cl) {
					d := c.D(RetVal(r, 0))
					c.Report(cl, "BatchFunc: new batches are prefix batches of this storage", c.InstrPos(r),
						d == "leveldbstorage.newPrefixStorageBatch(st.Prefix())" || d == "leveldbstorage.newPrefixStorageBatch(st.prefix)" || d == "st.NewBatch()", d)
				}
				late := 0
				for _, in := range allInstrs(cl) {
					if cc := callCommon(in); cc != nil && CalleeFullName(cc) != "storage/leveldb.newPrefixStorageBatch" {
						late++
					}
				}
				c.Report(cl, "BatchFunc: the prefix of a replacement batch is read when the batch function is made, not when the batch is replaced", cl.Pos(), late == 0,
					fmt.Sprintf("%d calls inside the new-batch closure besides the batch constructor (the storage may be closed by then)", late))
			} else {
				c.Unresolved(fn, "BatchFunc: new-batch closure", c.D(CallArg(mk[0], 3)))
			}
			// results #0 (add) and #1 (done) are only invoked behind the closed check, never handed out
			for idx, name := range []string{"add", "done"} {
				pat := fmt.Sprintf("call(%s#%d)(*)", mkD, idx)
				n := 0
				for _, cl := range WithClosures(fn) {
					calls := c.CallsD(cl, pat)
					n += len(calls)
					if len(calls) > 0 {
						c.MP(cl, "BatchFunc: raw "+name+" runs only while the prefix is set", calls, 1, GNonNil("st.Prefix()"))
					}
				}
				c.Report(fn, "BatchFunc: raw "+name+" is wrapped", fn.Pos(), n >= 1, fmt.Sprintf("%d guarded call sites", n))
				for _, r := range Returns(fn) {
					for i := range r.Results {
						got := c.D(RetVal(r, i))
						c.Report(fn, fmt.Sprintf("BatchFunc: raw %s is not handed out (result %d)", name, i), c.InstrPos(r),
							got != fmt.Sprintf("%s#%d", mkD, idx), got)
					}
				}
			}
		}
	}
	// every batch that enters the rotating slot of the batch function comes from the caller's factory
	// (for a prefix storage: its own prefix batch) — the first one and every replacement
	if fn := c.Need("storage/leveldb.(*Storage).BatchFuncWithNewBatch"); fn != nil {
		c.ArgIs(fn, "batch slot starts with a batch of the given factory", c.CallsTo(fn, "util.NewLocked"), 1, 0, "call(newBatch)()")
		c.ArgIs(fn, "add function gets the given factory", c.CallsTo(fn, "(*storage/leveldb.Storage).batchAddFunc"), 1, 3, "newBatch")
		c.ArgIs(fn, "done function gets the given factory", c.CallsTo(fn, "(*storage/leveldb.Storage).batchDoneFunc"), 1, 2, "newBatch")
		c.ArgIs(fn, "add function rotates the slot it was given", c.CallsTo(fn, "(*storage/leveldb.Storage).batchAddFunc"), 1, 1, "util.NewLocked(call(newBatch)())")
		c.ArgIs(fn, "done function rotates the slot it was given", c.CallsTo(fn, "(*storage/leveldb.Storage).batchDoneFunc"), 1, 0, "util.NewLocked(call(newBatch)())")
	}
	for _, k := range []string{"batchAddFunc", "batchDoneFunc"} {
		parent := c.Need("storage/leveldb.(*Storage)." + k)
		if parent == nil {
			continue
		}
		n := 0
		for _, fn := range WithClosures(parent) {
			for _, in := range allInstrs(fn) {
				cc := callCommon(in)
				if cc == nil {
					continue
				}
				name := CalleeFullName(cc)
				if !strings.HasPrefix(name, "(*util.Locked[") {
					continue
				}
				ok := strings.HasSuffix(name, ".Set") && len(cc.Args) == 2
				var cl *ssa.Function
				if ok {
					if mc, isMC := cc.Args[1].(*ssa.MakeClosure); isMC {
						cl, _ = mc.Fn.(*ssa.Function)
					}
				}
				if cl == nil {
					c.Report(fn, k+": slot changed only through Set with a literal callback", c.InstrPos(in), false, name)
					continue
				}
				n++
				for _, r := range Returns(cl) {
					got := c.D(RetVal(r, 0))
					c.Report(cl, k+": replacement batch comes from the given factory", c.InstrPos(r), got == "nil" || got == "call(newBatch)()", got)
				}
			}
		}
		c.Report(parent, k+": one slot update", parent.Pos(), n == 1, fmt.Sprintf("%d", n))
	}
	// R25.3 --------------------------------------------------------------------------------------
	c.Rule("R25.3", "ExactRemoval")
	if fn := c.Need(PS + "Remove"); fn != nil {
		rm := c.CallsTo(fn, "storage/leveldb.RemoveByPrefix")
		c.ArgIs(fn, "Remove: removes its own prefix", rm, 1, 1, "st.prefix")
		c.MP(fn, "Remove: only with a non-nil prefix (nil covers every prefix)", rm, 1, GNonNil("st.prefix"))
		c.Held(fn, nil, "Remove: prefix read under the lock", rm, 1, "&st", LR)
	}
	if fn := c.Need("storage/leveldb.RemoveByPrefix"); fn != nil {
		it := c.CallsTo(fn, "(*storage/leveldb.Storage).Iter")
		c.ArgIs(fn, "RemoveByPrefix: iterates exactly the prefix range", it, 1, 0, "util.BytesPrefix(prefix)")
		wr := c.CallsTo(fn, "(*storage/leveldb.Storage).Batch")
		c.ArgIs(fn, "RemoveByPrefix: writes the batch it filled", wr, 1, 0, "&var:batch")
		c.MP(fn, "RemoveByPrefix: batch written only after the iteration succeeded", wr, 1, GOk("st.Iter(*)"))
		exactDeletes(c, fn, "RemoveByPrefix")
	}
	if fn := c.Need("storage/leveldb.BatchRemove"); fn != nil {
		it := c.CallsTo(fn, "(*storage/leveldb.Storage).Iter")
		c.ArgIs(fn, "BatchRemove: iterates the given range", it, 1, 0, "φ(&var:complit|r)", "&var:complit", "r")
		wr := c.CallsTo(fn, "(*storage/leveldb.Storage).Batch")
		c.ArgIs(fn, "BatchRemove: writes the batch it filled", wr, 1, 0, "&var:batch")
		c.MP(fn, "BatchRemove: batch written only after the iteration succeeded", wr, 1, GOk("st.Iter(*)"))
		exactDeletes(c, fn, "BatchRemove")
		// the iterated range is the caller's, narrowed from below only: Limit is the caller's Limit,
		// Start is the caller's Start or a key the iteration handed over; the caller's own Range
		// value is never written (a caller that keeps the range of its prefix would skip keys next time)
		nlim, nstart := 0, 0
		for _, f := range WithClosures(fn) {
			for _, in := range allInstrs(f) {
				st, ok := in.(*ssa.Store)
				if !ok {
					continue
				}
				a := c.D(st.Addr)
				v := c.D(st.Val)
				if fa, isFA := st.Addr.(*ssa.FieldAddr); isFA && (strings.HasSuffix(a, ".Limit") || strings.HasSuffix(a, ".Start")) {
					base := c.D(fa.X)
					c.Report(f, "BatchRemove: the caller's range value is not written", c.InstrPos(in), !(base == "r" || strings.Contains(base, "|r)")), a+" <- "+v)
				}
				switch {
				case strings.HasSuffix(a, ".Limit"):
					nlim++
					c.Report(f, "BatchRemove: range limit is only ever the caller's limit", c.InstrPos(in), v == "r.Limit", v)
				case strings.HasSuffix(a, ".Start"):
					c.Report(f, "BatchRemove: range start only moves to the resume key", c.InstrPos(in), v == "var:start" || v == "r.Start", v)
				case a == "&var:start":
					nstart++
					c.Report(f, "BatchRemove: resume key is the original start or an iterated key", c.InstrPos(in), v == "key" || strings.HasSuffix(v, ".Start"), v)
				}
			}
		}
		c.floors["R25.3 BatchRemove stores of the range limit (0 is fine)"] = [2]int{0, nlim}
		c.Floor(fn, "BatchRemove: resume key assignments", nstart, 1)
		// a batch bound below one never fills a batch: nothing would be removed, with success
		c.MP(fn, "BatchRemove: succeeds only with a batch bound of at least one", c.SuccessReturns(fn), 1, GCmp("limit", ">=", "1"), GCmp("limit", ">", "0"))
	}
	// R25.4 --------------------------------------------------------------------------------------
	c.Rule("R25.4", "NoBypass")
	c.OnlyIn("call PrefixStorage.RawStorage", c.WhoCalls("(*storage/leveldb.PrefixStorage).RawStorage"), 0)
	c.OnlyIn("use of the raw storage embedded in PrefixStorage", c.WhoTouches("PrefixStorage", "Storage"), 8,
		"storage/leveldb.NewPrefixStorage", PS+"RawStorage", PS+"Remove", PS+"Get", PS+"Exists", PS+"Iter", PS+"Put", PS+"Delete",
		PS+"Batch", PS+"BatchFunc",
		// tabled bypasses (checked below): range removal of the own prefix; removal of leftover block-write prefixes
		"isaac/database.(*LeveldbPermanent).Clean", "isaac/database.(*LeveldbTempSyncPool).Cancel", "isaac/database.(*TempLeveldb).Merge")
	for _, k := range []string{"isaac/database.(*LeveldbPermanent).Clean", "isaac/database.(*LeveldbTempSyncPool).Cancel"} {
		parent := c.Need(k)
		if parent == nil {
			continue
		}
		n := 0
		for _, fn := range WithClosures(parent) {
			for _, in := range allInstrs(fn) {
				cc := callCommon(in)
				if cc == nil {
					continue
				}
				name := CalleeFullName(cc)
				if strings.HasPrefix(name, "(*storage/leveldb.Storage).") || name == "storage/leveldb.RemoveByPrefix" {
					c.Report(fn, "tabled bypass: only BatchRemove on the raw storage", c.InstrPos(in), false, name)
				}
				if name != "storage/leveldb.BatchRemove" {
					continue
				}
				n++
				one := []ssa.Instruction{in}
				c.ArgIs(fn, "tabled bypass: removed range is the range of the own prefix", one, 1, 1, "util.BytesPrefix(*.Prefix())")
				c.MP(fn, "tabled bypass: range removal only with a non-nil own prefix", one, 1, GNonNil("*.Prefix()"))
				// the range is not touched between construction and use
				r := c.D(cc.Args[1])
				st := 0
				for _, x := range allInstrs(fn) {
					if s, ok := x.(*ssa.Store); ok && strings.HasPrefix(c.D(s.Addr), "&"+r+".") {
						st++
					}
				}
				c.Report(fn, "tabled bypass: bounds of the prefix range are not rewritten", c.InstrPos(in), st == 0, fmt.Sprintf("%d stores", st))
			}
		}
		c.Report(parent, "tabled bypass: one range removal", parent.Pos(), n == 1, fmt.Sprintf("%d", n))
	}
	if fn := c.Need("isaac/database.(*TempLeveldb).Merge"); fn != nil {
		rm := c.CallsTo(fn, "storage/leveldb.RemoveByPrefix")
		c.Exists(fn, "Merge: leftover prefixes removed through RemoveByPrefix", rm, 1)
		if cl := c.ClosureWithStore(fn, "&var:useless"); cl != nil {
			sts := c.StoresD(cl, "&var:varargs[0]")
			c.StoredIs(cl, "Merge: a removed prefix is the fixed-length head of an iterated key", sts, 1, "isaacdatabase.prefixStoragePrefixFromKey(key)#0")
			c.MP(cl, "Merge: a removed prefix was cut successfully (never nil)", sts, 1, GOk("isaacdatabase.prefixStoragePrefixFromKey(key)"))
			c.MP(cl, "Merge: the own prefix is never removed", sts, 1, GFalse("bytes.Equal(isaacdatabase.prefixStoragePrefixFromKey(key)#0, db.Prefix())"))
		} else {
			c.Unresolved(fn, "Merge: closure collecting leftover prefixes", "not found")
		}
		if p := c.Need("isaac/database.prefixStoragePrefixFromKey"); p != nil {
			ret := nonMatchingReturns(c, p, 0, "nil")
			c.MP(p, "prefix head: only of a key at least as long as a prefix", ret, 1, GCmp("len(b)", ">=", "isaacdatabase.prefixStoragePrefixByHeightLength"))
		}
	}
}

// exactDeletes: in fn's closures every raw batch deletion takes the iteration's own key parameter,
// and nothing is put.
func exactDeletes(c *Ctx, fn *ssa.Function, name string) {
	n := 0
	for _, f := range WithClosures(fn) {
		for _, in := range allInstrs(f) {
			cc := callCommon(in)
			if cc == nil {
				continue
			}
			switch CalleeFullName(cc) {
			case "(*github.com/syndtr/goleveldb/leveldb.Batch).Delete":
				n++
				got := c.D(cc.Args[1])
				_, isParam := cc.Args[1].(*ssa.Parameter)
				c.Report(f, name+": deletes exactly the iterated key", c.InstrPos(in), isParam && got == "key" && f != fn, got)
				c.Report(f, name+": deletes into the batch that is written", c.InstrPos(in), c.D(cc.Args[0]) == "&var:batch" || c.D(cc.Args[0]) == "var:batch", c.D(cc.Args[0]))
			case "(*github.com/syndtr/goleveldb/leveldb.Batch).Put":
				c.Report(f, name+": a removal never puts", c.InstrPos(in), false, "")
			}
		}
	}
	c.Report(fn, name+": one deletion site", fn.Pos(), n == 1, fmt.Sprintf("%d deletion sites", n))
}
