package main

import (
	"fmt"
	"strings"

	"golang.org/x/tools/go/ssa"
)

// Loop is a source loop as lowered by go/ssa (identified by the builder's block roles).
type Loop struct {
	Fn     *ssa.Function
	Header *ssa.BasicBlock // block ending in the loop condition
	Body   *ssa.BasicBlock // first block of the body
	Done   *ssa.BasicBlock
	Cond   string // descriptor of the loop condition, e.g. "((φ(-1|…) + 1) < len(vp.SignFacts()))"
}

// Loops lists the loops of fn whose condition descriptor matches pat.
func (p *Prog) Loops(fn *ssa.Function, pat string) []Loop {
	pp := P(pat)
	var out []Loop
	for _, b := range fn.Blocks {
		if len(b.Instrs) == 0 || len(b.Succs) != 2 {
			continue
		}
		ifi, ok := b.Instrs[len(b.Instrs)-1].(*ssa.If)
		if !ok {
			continue
		}
		switch b.Comment {
		case "rangeindex.loop", "rangeiter.loop", "for.loop", "rangeint.loop", "rangechan.loop":
		default:
			continue
		}
		d := p.D(ifi.Cond)
		if !pp.Match(d) {
			continue
		}
		out = append(out, Loop{Fn: fn, Header: b, Body: b.Succs[0], Done: b.Succs[1], Cond: d})
	}
	return out
}

// reachFromBlock: like reach, but starts at the first instruction of block b.
func reachFromBlock(fn *ssa.Function, b *ssa.BasicBlock, cut *Cut) *reachResult {
	if len(b.Instrs) == 0 {
		return &reachResult{reached: map[ssa.Instruction]bool{}, parent: map[*ssa.BasicBlock]*ssa.BasicBlock{}, start: b}
	}
	// reach() starts after `from`; emulate by a cut-free first instruction
	res := reach(fn, b.Instrs[0], cut)
	res.reached[b.Instrs[0]] = true
	return res
}

// ForEach: every iteration of each loop matching loopPat passes one of the gates before the next
// iteration starts or the loop is left normally (every path from the body entry back to the loop
// condition traverses a passing edge). One obligation per loop.
func (c *Ctx) ForEach(fn *ssa.Function, detail string, loopPat string, floor int, gates ...Gate) []Loop {
	if fn == nil {
		return nil
	}
	c.touch(fn)
	loops := c.Loops(fn, loopPat)
	if !c.Floor(fn, detail+" loops", len(loops), floor) {
		return nil
	}
	var names []string
	for _, g := range gates {
		names = append(names, g.Name)
	}
	cut, n := c.buildCut(fn, gates)
	for i, l := range loops {
		res := reachFromBlock(fn, l.Body, cut)
		target := l.Header.Instrs[len(l.Header.Instrs)-1]
		ok := !res.reached[target]
		d := detail
		if len(loops) > 1 {
			d = fmt.Sprintf("%s/%d", detail, i)
		}
		w := fmt.Sprintf("loop %s; gate: %s; %d gate occurrence(s)", l.Cond, strings.Join(names, " OR "), n)
		if !ok {
			w = "an iteration can complete without the gate: " + c.path(res, target) + "; " + w
		}
		c.Report(fn, d, c.InstrPos(target), ok, w)
	}
	return loops
}

// GLoopDone: the edge leaving a loop matching pat normally (condition false) — used to state that
// a success exit lies behind the loop (the loop cannot be skipped).
func GLoopDone(loopPat string) Gate {
	pp := P(loopPat)
	return Gate{Name: "loop " + loopPat + " ran to completion", Edges: func(p *Prog, ifi *ssa.If) (bool, bool) {
		b := ifi.Block()
		if b == nil {
			return false, false
		}
		switch b.Comment {
		case "rangeindex.loop", "rangeiter.loop", "for.loop", "rangeint.loop", "rangechan.loop":
		default:
			return false, false
		}
		if !pp.Match(p.D(ifi.Cond)) {
			return false, false
		}
		return false, true
	}}
}
