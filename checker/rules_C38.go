package main

import (
	"sort"
	"fmt"
	"strings"

	"golang.org/x/tools/go/ssa"
)

func init() {
	Register(&Property{
		ID: "C38",
		Decides: "(R38.1) one critical section: Make and PreferEmpty hold the maker's mutex from entry to return, and the lookup/creation helpers are called only from them; " +
			"(R38.2) lookup before creation: a proposal is made only after the pool was asked for (point, local address, previous block) and answered not-found without an error; a found proposal is handed out unchanged; " +
			"(R38.3) what is handed out is what was stored: the made proposal is built from the asked point, the local address, the asked previous block and the collected operations, signed with the local key under the maker's network id, stored in the pool, and returned only if signing and storing succeeded; " +
			"(R38.4) the operations a new proposal lists are collected by the pool's de-duplicating OperationHashes (the rules R22.* of C22 are evaluated here too), and a valid proposal fact has no duplicate operation hash and no duplicate fact hash (both halves of every pair are checked by IsValidProposalFact, which ProposalFact.IsValid runs).; (R38.j) jobs handed to a worker read only captured variables that the submitter does not assign again (no job works on a later batch/slot than the one it was created for); (R38.c) the pool cleaner that may delete stored proposals lowers its reference height exactly by the configured positive depth (the clean-depth rules of C24); (R38.s) the key under which the request-proposal handler merges concurrent requests covers every header attribute its answer depends on (point, proposer, previous block); (R38.f) a stored proposal of a live point cannot be cleaned away (Make stores nothing beyond last+1, or the cleaner's reference height is not the table's own top) — violated today, known finding",
		NotDecided: "that the pool's point index still answers after clean-up of old proposals (a re-asked position older than the retention makes a new proposal; Make refuses positions more than one block behind);  several ProposalMaker instances sharing one pool.",
		Run:        runC38,
	})
}

func runC38(c *Ctx) {
	// R38.f: the maker's only memory of "already proposed" is the pool row, and the pool cleaner measures
	// age from the highest stored proposal. Either no proposal is stored for a height beyond last+1, or
	// the cleaner's reference does not come from the table itself; otherwise one stored far-point
	// proposal lets the cleaner delete the live one and Make signs a second proposal for the point.
	c.Rule("R38.f", "MustPass")
	if mk := c.Need("isaac.(*ProposalMaker).Make"); mk != nil {
		var calls []ssa.Instruction
		calls = append(calls, c.CallsD(mk, "p.preferEmpty(*)")...)
		calls = append(calls, c.CallsD(mk, "p.makeNew(*)")...)
		last := "call(p.lastBlockMap)()#0.Manifest().Height()"
		bounded := c.Floor(mk, "proposal creations in Make", len(calls), 1) &&
			allOK(c.MustPass(mk, nil, calls, GCmp("point.Height()", "<=", "("+last+" + 1)"), GFalse("call(p.lastBlockMap)()#1")))
		tableRelative := false
		if cl := c.Need("isaac/database.(*TempPool).cleanByHeight"); cl != nil {
			for _, f := range WithClosures(cl) {
				for _, st := range c.StoresD(f, "&var:top") {
					if c.DependsOnD(st.(*ssa.Store).Val, "isaacdatabase.heightFromKey(*)#0") {
						tableRelative = true
					}
				}
			}
		}
		c.Report(mk, "a stored proposal of a live point cannot be cleaned away: no proposal is stored beyond last+1, or the cleaner's reference height does not come from the proposal table", mk.Pos(),
			bounded || !tableRelative, fmt.Sprintf("Make bounds the height from above: %v; cleaner reference taken from the table's own top: %v", bounded, tableRelative))
	}
	c.Rule("R38.s", "Dependence")
	singleflightKeyRules(c, "isaac/network.QuicstreamHandlerRequestProposal", "isaac/network.boolEncodeQUICstreamHandler")
	poolCleanDepthRules(c, "R38.c")
	c.Rule("R38.j", "AsyncCapture")
	c.AsyncCaptures(c.Need("isaac.ConcurrentRequestProposal"), "*.NewJob", 1)
	const PM = "isaac.(*ProposalMaker)."
	lookup := "p.pool.ProposalByPoint(point, p.local.Address(), previousBlock)"
	// R38.1 --------------------------------------------------------------------------------------
	c.Rule("R38.1", "LockHeld")
	for _, m := range []string{"Make", "PreferEmpty"} {
		fn := c.Need(PM + m)
		if fn == nil {
			continue
		}
		var inner []ssa.Instruction
		inner = append(inner, c.CallsTo(fn, "(*isaac.ProposalMaker).makeNew")...)
		inner = append(inner, c.CallsTo(fn, "(*isaac.ProposalMaker).preferEmpty")...)
		c.Held(fn, nil, m+": lookup and creation run under the maker's mutex", inner, 1, "&p.l", LW)
		unl := 0
		for _, in := range c.CallsD(fn, "p.l.Unlock()") {
			if _, isDefer := in.(*ssa.Defer); !isDefer {
				unl++
			}
		}
		c.Report(fn, m+": the mutex is released only on return", fn.Pos(), unl == 0, fmt.Sprintf("%d explicit unlocks", unl))
	}
	c.OnlyIn("call of makeNew / preferEmpty", append(c.WhoCalls("(*isaac.ProposalMaker).makeNew"), c.WhoCalls("(*isaac.ProposalMaker).preferEmpty")...), 3,
		PM+"Make", PM+"PreferEmpty")
	// a proposal is created only by the two helpers that asked the pool first
	c.OnlyIn("call of makeProposal", c.WhoCalls("(*isaac.ProposalMaker).makeProposal"), 2, PM+"makeNew", PM+"preferEmpty")
	// the helpers never release the caller's mutex: only Make and PreferEmpty touch it
	c.OnlyIn("use of the maker's mutex", c.WhoTouches("ProposalMaker", "l"), 4, PM+"Make", PM+"PreferEmpty")
	// R38.2 --------------------------------------------------------------------------------------
	c.Rule("R38.2", "MustPass")
	for _, m := range []string{"makeNew", "preferEmpty"} {
		fn := c.Need(PM + m)
		if fn == nil {
			continue
		}
		mk := c.CallsTo(fn, "(*isaac.ProposalMaker).makeProposal")
		c.Exists(fn, m+": asks the pool for (point, local address, previous block)", c.CallsD(fn, lookup), 1)
		c.MP(fn, m+": a proposal is made only if the pool has none for the position", mk, 1, GFalse(lookup+"#1"))
		c.MP(fn, m+": a proposal is made only if the lookup did not fail", mk, 1, GNil(lookup+"#2"))
		c.ArgIs(fn, m+": made for the asked point", mk, 1, 0, "point")
		c.ArgIs(fn, m+": made for the asked previous block", mk, 1, 1, "previousBlock")
		for _, r := range Returns(fn) {
			d := c.D(RetVal(r, 0))
			switch {
			case d == lookup+"#0":
				c.MP(fn, m+": the pool's proposal is handed out only if found", []ssa.Instruction{r}, 1, GTrue(lookup+"#1"))
			case strings.HasPrefix(d, "p.makeProposal("):
				c.MP(fn, m+": a made proposal is handed out only if making it succeeded", []ssa.Instruction{r}, 1, GNil(strings.TrimSuffix(d, "#0")+"#1"))
			case d == "nil":
			default:
				c.Report(fn, m+": hands out the pool's or the made proposal", c.InstrPos(r), false, d)
			}
		}
	}
	if fn := c.Need(PM + "makeNew"); fn != nil {
		c.ArgIs(fn, "makeNew: the proposal carries the collected operations", c.CallsTo(fn, "(*isaac.ProposalMaker).makeProposal"), 1, 2, "call(p.getOperations)(ctx, point.Height())#0")
		c.MP(fn, "makeNew: made only if the operations were collected", c.CallsTo(fn, "(*isaac.ProposalMaker).makeProposal"), 1, GNil("call(p.getOperations)(ctx, point.Height())#1"))
	}
	// R38.3 --------------------------------------------------------------------------------------
	c.Rule("R38.3", "MustPass")
	if fn := c.Need(PM + "makeProposal"); fn != nil {
		nf := c.CallsTo(fn, "isaac.NewProposalFact")
		c.ArgIs(fn, "fact: the asked point", nf, 1, 0, "point")
		c.ArgIs(fn, "fact: proposed by the local node", nf, 1, 1, "p.local.Address()")
		c.ArgIs(fn, "fact: the asked previous block", nf, 1, 2, "previousBlock")
		c.ArgIs(fn, "fact: the given operations", nf, 1, 3, "ops")
		sg := c.CallsD(fn, "*.Sign(p.local.Privatekey(), p.networkID)")
		c.Exists(fn, "signed with the local key under the maker's network id", sg, 1)
		st := c.CallsD(fn, "p.pool.SetProposal(*)")
		c.MP(fn, "stored only after it was signed", st, 1, GOk("*.Sign(p.local.Privatekey(), p.networkID)"))
		var out []ssa.Instruction
		for _, r := range Returns(fn) {
			if !strings.HasPrefix(c.D(RetVal(r, 0)), "zero(") {
				out = append(out, r)
			}
		}
		c.MP(fn, "handed out only after it was stored", out, 1, GNil("p.pool.SetProposal(*)#1"))
		c.MP(fn, "handed out only after it was signed", out, 1, GOk("*.Sign(p.local.Privatekey(), p.networkID)"))
		if len(st) == 1 && len(out) >= 1 {
			stored := c.D(CallArg(st[0], 0))
			for _, r := range out {
				c.Report(fn, "the handed-out proposal is the stored one", c.InstrPos(r), c.D(RetVal(r.(*ssa.Return), 0)) == stored, c.D(RetVal(r.(*ssa.Return), 0))+" vs stored "+stored)
			}
			c.Report(fn, "the stored proposal is the sign fact of the made fact", c.InstrPos(st[0]), stored == "isaac.NewProposalSignFact(isaac.NewProposalFact(point, p.local.Address(), previousBlock, ops))", stored)
		}
	}
	// R38.4 --------------------------------------------------------------------------------------
	c.Rule("R38.4", "MustPass")
	if fn := c.Need("base.IsValidProposalFact"); fn != nil {
		dup := c.CallsTo(fn, "util.IsDuplicatedSlice")
		c.Report(fn, "two duplicate tests: operation hashes and fact hashes", fn.Pos(), len(dup) == 2, fmt.Sprintf("%d", len(dup)))
		for _, in := range dup {
			c.ArgIs(fn, "the duplicate test runs over the fact's operations", []ssa.Instruction{in}, 1, 0, "fact.Operations()")
			c.MP(fn, "a proposal fact is valid only if the duplicate test found nothing", c.SuccessReturns(fn), 1, GFalse(globEscape(c.D(in.(ssa.Value)))))
		}
		// the two key functions pick the two halves of the pair
		halves := map[string]bool{}
		for _, cl := range WithClosures(fn) {
			if cl == fn {
				continue
			}
			for _, r := range Returns(cl) {
				if len(r.Results) == 2 {
					d := c.D(RetVal(r, 1))
					if d == "hs[0].String()" || d == "hs[1].String()" {
						halves[d] = true
					}
				}
			}
		}
		c.Report(fn, "the duplicate tests key on the operation hash and on the fact hash", fn.Pos(), halves["hs[0].String()"] && halves["hs[1].String()"], fmt.Sprintf("%v", halves))
	}
	// the operations a new proposal lists come from the pool's de-duplicating collector (rules of C22)
	runC22(c)
	c.Rule("R38.4", "MustPass")
	if fn := c.Need("launch.PProposalMaker"); fn != nil {
		c.ArgIs(fn, "the node's proposal maker collects operations through the wired collector", c.CallsTo(fn, "isaac.NewProposalMaker"), 1, 2, "launch.proposalMakderGetOperationsFunc(pctx)#0")
	}
	if parent := c.Need("launch.proposalMakderGetOperationsFunc"); parent != nil {
		var cl *ssa.Function
		for _, f := range WithClosures(parent) {
			if len(c.CallsTo(f, "(*isaac/database.TempPool).OperationHashes")) > 0 {
				cl = f
			}
		}
		if cl == nil {
			c.Unresolved(parent, "collector calling the pool's OperationHashes", "not found")
		} else {
			for _, r := range Returns(cl) {
				d := c.D(RetVal(r, 0))
				c.Report(cl, "the collector hands out what the pool's OperationHashes answered (or nothing)", c.InstrPos(r), d == "nil" || strings.HasPrefix(d, "var:pool.OperationHashes(") || strings.HasPrefix(d, "pool.OperationHashes(") || strings.Contains(d, ".OperationHashes("), d)
			}
		}
	}
	if fn := c.Need("isaac.(ProposalFact).IsValid"); fn != nil {
		c.MP(fn, "ProposalFact.IsValid runs the duplicate tests", c.SuccessReturns(fn), 1, GOk("base.IsValidProposalFact(fact)"))
	}
}

// headerAttrs: the attributes of the request header a function (and the sibling closures it calls)
// looks at — accessor calls `header.X()` and field reads `header.x`, normalised to lower case.
func (c *Ctx) headerAttrs(fn *ssa.Function, seen map[*ssa.Function]bool) map[string]bool {
	out := map[string]bool{}
	if fn == nil || seen[fn] {
		return out
	}
	seen[fn] = true
	for _, f := range WithClosures(fn) {
		for _, in := range allInstrs(f) {
			if v, ok := in.(ssa.Value); ok {
				d := c.D(v)
				if strings.HasPrefix(d, "header.") && !strings.ContainsAny(d[len("header."):], ".[ ") {
					a := strings.TrimSuffix(strings.ToLower(d[len("header."):]), "()")
					if a != "" && !strings.Contains(a, "(") {
						out[a] = true
					}
				}
			}
			// sibling closures called through a captured local (`getOrCreate := func...; getOrCreate(...)`)
			if cc := callCommon(in); cc != nil && !cc.IsInvoke() {
				if d := c.D(cc.Value); strings.HasPrefix(d, "func:") {
					if cal := c.Func(strings.TrimPrefix(d, "func:")); cal != nil && cal.Parent() != nil {
						for k := range c.headerAttrs(cal, seen) {
							out[k] = true
						}
					}
				}
			}
			// sibling closures called through their function value
			var ops []*ssa.Value
			for _, o := range in.Operands(ops) {
				var cal *ssa.Function
				switch y := (*o).(type) {
				case *ssa.Function:
					cal = y
				case *ssa.MakeClosure:
					cal, _ = y.Fn.(*ssa.Function)
				}
				if cal != nil && cal.Parent() != nil && cal.Parent() == fn.Parent() {
					for k := range c.headerAttrs(cal, seen) {
						out[k] = true
					}
				}
			}
		}
	}
	return out
}

// singleflightKeyRules: concurrent requests are merged by the key the first closure builds; every
// attribute of the header the answering closure looks at must be part of that key, or a request
// gets the answer computed for a different one.
func singleflightKeyRules(c *Ctx, ctor string, wrappers ...string) {
	fn := c.Need(ctor)
	if fn == nil {
		return
	}
	n := 0
	for _, w := range wrappers {
		for _, call := range c.CallsTo(fn, w) {
			cc := callCommon(call)
			if len(cc.Args) < 2 {
				continue
			}
			toFn := func(v ssa.Value) *ssa.Function {
				switch y := stripConv(v).(type) {
				case *ssa.Function:
					return y
				case *ssa.MakeClosure:
					f, _ := y.Fn.(*ssa.Function)
					return f
				}
				return nil
			}
			kf, hf := toFn(cc.Args[0]), toFn(cc.Args[1])
			if kf == nil || hf == nil {
				c.Unresolved(fn, "singleflight key and handler closures", "not function literals")
				continue
			}
			n++
			key := c.headerAttrs(kf, map[*ssa.Function]bool{})
			use := c.headerAttrs(hf, map[*ssa.Function]bool{})
			var missing, all []string
			for a := range use {
				all = append(all, a)
				if !key[a] {
					missing = append(missing, a)
				}
			}
			sort.Strings(missing)
			sort.Strings(all)
			c.Report(fn, "the merge key of concurrent requests covers every header attribute the answer depends on", call.Pos(), len(missing) == 0,
				"answer reads: "+strings.Join(all, ", ")+"; missing in the key: "+strings.Join(missing, ", "))
		}
	}
	c.Floor(fn, "merged handlers", n, 1)
}
