package main

import (
	"fmt"
	"go/ast"
	"go/constant"
	"go/token"
	"go/types"
	"os"
	"reflect"
	"sort"
	"strings"

	"golang.org/x/tools/go/ssa"
)

func init() {
	Register(&Property{
		ID: "C27",
		Decides: "the structural part of the JSON round trip, not byte equality: " +
			"(R27.1) for every type with its own MarshalJSON and DecodeJSON/UnmarshalJSON the flattened JSON keys written by the marshaler are exactly the keys the decoder reads (tabled exemptions per key); " +
			"(R27.2) every field of such a type that is read while marshalling is assigned while decoding (the hint-only embedded part is restored by the encoder through SetHint); " +
			"(R27.3) every hint variable of the protocol packages is registered exactly once in launch.Hinters / SupportedProposalOperationFactHinters with an instance whose Hint() can carry it and which has a decoder, and no two registered hints share a type name; " +
			"(R27.4) jsonenc.Encoder hands out a decoded object only if the hint was found among the registered decoders and the decoder did not fail, and the decoder set caches exactly what its uncached lookup answers; (R27.5) the time text layout printed by util.RFC3339 has a fixed-width fraction and is parsed with the layout that accepts it. HeightDecoder answers NilHeight only when nothing was decoded.",
		NotDecided: "byte-for-byte re-encoding, hash equality and validity after decoding; encoders of third-party types; values whose JSON form is a scalar.",
		Run:        runC27,
	})
}

// ---- JSON key sets -------------------------------------------------------------------------------

// jsonKeys flattens the JSON object keys of struct type t the way encoding/json does for tagged
// structs (embedded structs without a name tag are inlined).
func jsonKeys(t types.Type, out map[string]bool, seen map[types.Type]bool) bool {
	if p, ok := t.Underlying().(*types.Pointer); ok {
		t = p.Elem()
	}
	st, ok := t.Underlying().(*types.Struct)
	if !ok {
		return false
	}
	if seen[t] {
		return true
	}
	seen[t] = true
	for i := 0; i < st.NumFields(); i++ {
		f := st.Field(i)
		tag := reflect.StructTag(st.Tag(i)).Get("json")
		name, _, _ := strings.Cut(tag, ",")
		if name == "-" {
			continue
		}
		if f.Embedded() && name == "" {
			ft := f.Type()
			if p, ok := ft.Underlying().(*types.Pointer); ok {
				ft = p.Elem()
			}
			if _, isStruct := ft.Underlying().(*types.Struct); isStruct {
				jsonKeys(ft, out, seen)
				continue
			}
		}
		if !f.Exported() {
			continue
		}
		if name == "" {
			name = f.Name()
		}
		out[name] = true
	}
	return true
}

func ownMethod(t types.Type, name string) *types.Func {
	n, ok := t.(*types.Named)
	if !ok {
		if p, isP := t.(*types.Pointer); isP {
			n, ok = p.Elem().(*types.Named)
		}
		if !ok {
			return nil
		}
	}
	for i := 0; i < n.NumMethods(); i++ {
		if m := n.Method(i); m.Name() == name {
			return m
		}
	}
	return nil
}

type jsonShape struct {
	keys   map[string]bool
	ktypes map[string][]types.Type // field types seen for a key in the twin structs looked at
	scalar bool     // marshals to / decodes from something that is not a keyed object we can see
	via    []string // what was looked at
}

func (c *Ctx) ssaOf(m *types.Func) *ssa.Function {
	if m == nil {
		return nil
	}
	f := c.SSA.FuncValue(m)
	if f == nil || f.Blocks == nil {
		return nil
	}
	return f
}

func derefNamed(t types.Type) types.Type {
	if p, ok := t.(*types.Pointer); ok {
		return p.Elem()
	}
	return t
}

// marshalShape: the keys MarshalJSON of t writes.
func (c *Ctx) marshalShape(t types.Type, depth int) jsonShape {
	sh := jsonShape{keys: map[string]bool{}, ktypes: map[string][]types.Type{}}
	fn := c.ssaOf(ownMethod(t, "MarshalJSON"))
	if fn == nil || depth > 4 {
		sh.scalar = true
		return sh
	}
	found := false
	for _, f := range WithClosures(fn) {
		for _, in := range allInstrs(f) {
			cc := callCommon(in)
			if cc == nil {
				continue
			}
			name := CalleeFullName(cc)
			var arg ssa.Value
			switch {
			case name == "util.MarshalJSON" || name == "encoding/json.Marshal" || name == "util.MarshalJSONIndent":
				arg = cc.Args[0]
			case cc.IsInvoke() && cc.Method.Name() == "Marshal" && len(cc.Args) == 1:
				arg = cc.Args[0]
			case strings.HasSuffix(name, ".MarshalJSON") && CalleeOf(cc) != nil && CalleeOf(cc) != fn && len(cc.Args) == 1:
				// delegation to another type's MarshalJSON
				sub := c.marshalShape(derefNamed(cc.Args[0].Type()), depth+1)
				for k := range sub.keys {
					sh.keys[k] = true
				}
				for k, ts := range sub.ktypes {
					sh.ktypes[k] = append(sh.ktypes[k], ts...)
				}
				sh.scalar = sh.scalar || sub.scalar
				sh.via = append(sh.via, "delegates:"+name)
				found = true
				continue
			default:
				continue
			}
			found = true
			if mi, ok := arg.(*ssa.MakeInterface); ok {
				arg = mi.X
			}
			at := arg.Type()
			switch u := derefNamed(at).Underlying().(type) {
			case *types.Struct:
				if m := ownMethod(derefNamed(at), "MarshalJSON"); m != nil && c.ssaOf(m) != fn {
					sub := c.marshalShape(derefNamed(at), depth+1)
					for k := range sub.keys {
						sh.keys[k] = true
					}
					for k, ts := range sub.ktypes {
						sh.ktypes[k] = append(sh.ktypes[k], ts...)
					}
					sh.scalar = sh.scalar || sub.scalar
				} else {
					jsonKeys(derefNamed(at), sh.keys, map[types.Type]bool{})
					jsonKeyTypes(derefNamed(at), sh.ktypes, map[types.Type]bool{})
				}
				sh.via = append(sh.via, types.TypeString(at, nil))
			case *types.Map:
				_ = u
				// keys are the constant keys stored into the map in this function
				for _, g := range WithClosures(fn) {
					for _, x := range allInstrs(g) {
						if mu, ok := x.(*ssa.MapUpdate); ok {
							if k, ok := mu.Key.(*ssa.Const); ok && k.Value != nil {
								sh.keys[strings.Trim(k.Value.ExactString(), "\"")] = true
							} else {
								sh.scalar = true
							}
						}
					}
				}
				sh.via = append(sh.via, "map")
			default:
				sh.scalar = true
				sh.via = append(sh.via, "scalar:"+types.TypeString(at, nil))
			}
		}
	}
	if !found {
		sh.scalar = true
	}
	return sh
}

// decodeShape: the keys the decoder of t reads from the bytes it is given.
func (c *Ctx) decodeShape(t types.Type, depth int, seen map[string]bool) jsonShape {
	sh := jsonShape{keys: map[string]bool{}, ktypes: map[string][]types.Type{}}
	var fns []*ssa.Function
	for _, n := range []string{"DecodeJSON", "UnmarshalJSON"} {
		if f := c.ssaOf(ownMethod(t, n)); f != nil {
			fns = append(fns, f)
		}
	}
	key := types.TypeString(t, nil)
	if len(fns) == 0 || depth > 5 || seen[key] {
		sh.scalar = len(fns) == 0
		return sh
	}
	seen[key] = true
	found := false
	var visit func(fn *ssa.Function, d int)
	visited := map[*ssa.Function]bool{}
	visit = func(fn *ssa.Function, d int) {
		if visited[fn] || d > 3 {
			return
		}
		visited[fn] = true
		for _, f := range WithClosures(fn) {
			for _, in := range allInstrs(f) {
				cc := callCommon(in)
				if cc == nil {
					continue
				}
				name := CalleeFullName(cc)
				var target ssa.Value
				switch {
				case name == "util.UnmarshalJSON" || name == "encoding/json.Unmarshal":
					target = cc.Args[1]
				case cc.IsInvoke() && cc.Method.Name() == "Unmarshal" && len(cc.Args) == 2:
					target = cc.Args[1]
				case (strings.HasSuffix(name, ".DecodeJSON") || strings.HasSuffix(name, ".UnmarshalJSON")) && !cc.IsInvoke() && CalleeOf(cc) != nil && len(cc.Args) >= 2:
					// another decoder run over the same bytes (embedded part / base type)
					if _, isParam := stripConv(cc.Args[1]).(*ssa.Parameter); !isParam {
						continue // decodes a sub-document
					}
					sub := c.decodeShape(derefNamed(cc.Args[0].Type()), depth+1, seen)
					for k := range sub.keys {
						sh.keys[k] = true
					}
					for k, ts := range sub.ktypes {
						sh.ktypes[k] = append(sh.ktypes[k], ts...)
					}
					sh.scalar = sh.scalar || sub.scalar
					sh.via = append(sh.via, "with:"+name)
					found = true
					continue
				default:
					// same-package helpers that get the raw bytes parameter
					if cal := CalleeOf(cc); cal != nil && cal.Blocks != nil && cal.Pkg == fn.Pkg && !strings.HasSuffix(name, ".MarshalJSON") {
						for _, a := range cc.Args {
							if prm, ok := stripConv(a).(*ssa.Parameter); ok && prm.Parent() == fn && isByteSlice(prm.Type()) {
								visit(cal, d+1)
							}
						}
					}
					continue
				}
				// only documents that are the function's bytes parameter
				var src ssa.Value
				if cc.IsInvoke() {
					src = cc.Args[0]
				} else {
					src = cc.Args[0]
				}
				if _, isParam := stripConv(src).(*ssa.Parameter); !isParam {
					continue
				}
				found = true
				if mi, ok := target.(*ssa.MakeInterface); ok {
					target = mi.X
				}
				tt := derefNamed(target.Type())
				if ownMethod(tt, "UnmarshalJSON") != nil || ownMethod(tt, "DecodeJSON") != nil {
					sub := c.decodeShape(tt, depth+1, seen)
					for k := range sub.keys {
						sh.keys[k] = true
					}
					for k, ts := range sub.ktypes {
						sh.ktypes[k] = append(sh.ktypes[k], ts...)
					}
					sh.scalar = sh.scalar || sub.scalar
					sh.via = append(sh.via, "into:"+types.TypeString(tt, nil))
					continue
				}
				jsonKeyTypes(tt, sh.ktypes, map[types.Type]bool{})
				if !jsonKeys(tt, sh.keys, map[types.Type]bool{}) {
					sh.scalar = true
					sh.via = append(sh.via, "scalar:"+types.TypeString(tt, nil))
				} else {
					sh.via = append(sh.via, types.TypeString(tt, nil))
				}
			}
		}
	}
	for _, fn := range fns {
		visit(fn, 0)
	}
	if !found {
		sh.scalar = true
	}
	return sh
}

func isByteSlice(t types.Type) bool {
	s, ok := t.Underlying().(*types.Slice)
	if !ok {
		return false
	}
	b, ok := s.Elem().Underlying().(*types.Basic)
	return ok && b.Kind() == types.Byte
}

func sortedKeys(m map[string]bool) []string {
	var out []string
	for k := range m {
		out = append(out, k)
	}
	sort.Strings(out)
	return out
}

// jsonTypes: all named non-generic types of the tree with their own MarshalJSON and a decoder.
func (c *Ctx) jsonTypes() []*types.Named {
	var out []*types.Named
	var paths []string
	for p := range c.PPkgs {
		paths = append(paths, p)
	}
	sort.Strings(paths)
	for _, p := range paths {
		scope := c.PPkgs[p].Types.Scope()
		for _, name := range scope.Names() {
			tn, ok := scope.Lookup(name).(*types.TypeName)
			if !ok || tn.IsAlias() {
				continue
			}
			n, ok := tn.Type().(*types.Named)
			if !ok || n.TypeParams().Len() > 0 {
				continue
			}
			if ownMethod(n, "MarshalJSON") != nil && (ownMethod(n, "DecodeJSON") != nil || ownMethod(n, "UnmarshalJSON") != nil) {
				out = append(out, n)
			}
		}
	}
	return out
}

// keyExempt: JSON keys written but deliberately not read by the type's own decoder (or vice versa).
var keyExempt = map[string]string{}

func runC27(c *Ctx) {
	// a decoded height is handed back as decoded: "absent" (NilHeight) is answered only when no height was
	// decoded — height 0 is a height
	c.Rule("R27.2", "MustPass")
	if fn := c.Need("base.(HeightDecoder).Height"); fn != nil {
		c.MP(fn, "HeightDecoder: NilHeight only when nothing was decoded", c.ReturnsD(fn, 0, "base.NilHeight"), 1, GFalse("d.decoded"))
		c.Exists(fn, "HeightDecoder: the decoded height is handed back", c.ReturnsD(fn, 0, "d.h"), 1)
	}
	debug := os.Getenv("C27_DEBUG") != ""
	// R27.1 --------------------------------------------------------------------------------------
	c.Rule("R27.1", "KeyTable")
	jt := c.jsonTypes()
	c.Floor(nil, "types with their own MarshalJSON and decoder", len(jt), 60)
	nObj := 0
	for _, n := range jt {
		tn := strings.TrimPrefix(types.TypeString(n, nil), modPath+"/")
		ms := c.marshalShape(n, 0)
		ds := c.decodeShape(n, 0, map[string]bool{})
		if debug {
			fmt.Fprintf(os.Stderr, "%s\n   M scalar=%v %v via %v\n   D scalar=%v %v via %v\n", tn, ms.scalar, sortedKeys(ms.keys), ms.via, ds.scalar, sortedKeys(ds.keys), ds.via)
		}
		if ms.scalar || ds.scalar {
			continue
		}
		nObj++
		fn := c.ssaOf(ownMethod(n, "MarshalJSON"))
		for _, k := range sortedKeys(ms.keys) {
			if !ds.keys[k] {
				_, ex := keyExempt[tn+"."+k]
				if k == "_hint" {
					// the hint is consumed by the encoder's dispatch (jsonenc.Encoder.guessHint reads "_hint"
					// and the found decoder sets it through BaseHinter), not by the type's own decoder
					continue
				}
				c.Report(fn, tn+": written key \""+k+"\" is read by the decoder", fn.Pos(), ex, "decoder reads "+strings.Join(sortedKeys(ds.keys), ","))
			}
		}
		for _, k := range sortedKeys(ds.keys) {
			if !ms.keys[k] {
				_, ex := keyExempt[tn+"."+k]
				c.Report(fn, tn+": key \""+k+"\" the decoder reads is written by the marshaler", fn.Pos(), ex, "marshaler writes "+strings.Join(sortedKeys(ms.keys), ","))
			}
		}
		c.Report(fn, tn+": marshaler and decoder agree on the key set", fn.Pos(), true, strings.Join(sortedKeys(ms.keys), ","))
		// a scalar written under a key is read back into the same basic type (no narrowing twin)
		for _, k := range sortedKeys(ms.keys) {
			var bad []string
			for _, mt := range ms.ktypes[k] {
				mb, ok := mt.Underlying().(*types.Basic)
				if !ok {
					continue
				}
				for _, dt := range ds.ktypes[k] {
					db, ok := dt.Underlying().(*types.Basic)
					if !ok {
						continue
					}
					if mb.Kind() != db.Kind() {
						bad = append(bad, mb.Name()+" written, "+db.Name()+" read")
					}
				}
			}
			if len(bad) > 0 {
				c.Report(fn, tn+": key \""+k+"\" is read back into the basic type it was written from", fn.Pos(), false, strings.Join(bad, "; "))
			}
		}
	}
	c.Floor(nil, "object-shaped types compared", nObj, 40)
	c.fieldFlowRules(jt, debug)
	c.pairingRules(jt, debug)
	c.registryRules(debug)
	// derived fields: the voteproof's majority is not marshaled as an object but as its hash; the
	// decoder restores it as the decoded sign fact's fact whose hash equals the marshaled hash
	c.Rule("R27.2", "FieldFlow")
	if fn := c.Need("isaac.(*baseVoteproof).decodeJSON"); fn != nil {
		st := c.StoresD(fn, "&vp.majority")
		c.StoredIs(fn, "voteproof majority is restored from a decoded sign fact", st, 1, "vp.sfs[ι].Fact()")
		c.MP(fn, "voteproof majority is the sign fact's fact whose hash equals the marshaled majority hash", st, 1,
			GTrue("vp.sfs[ι].Fact().Hash().Equal(var:u.Majority.Hash())"))
		// every sign fact is compared while a majority hash is given: the comparison sits on every
		// path through an iteration that decoded its sign fact
		var cmp []ssa.Instruction
		cmp = append(cmp, c.CallsD(fn, "vp.sfs[ι].Fact().Hash().Equal(var:u.Majority.Hash())")...)
		c.Exists(fn, "each decoded sign fact is compared with the marshaled majority hash", cmp, 1)
		c.ForEach(fn, "no sign fact is skipped in the search for the majority", "(ι < len(var:u.SignFacts))", 1,
			GCalled("vp.sfs[ι].Fact().Hash().Equal(var:u.Majority.Hash())"), GNil("var:u.Majority.Hash()"))
	}
	hintSetCacheRules(c, "R27.4")
	// time text: what util.RFC3339 prints must be parseable by util.ParseRFC3339 for every time
	c.Rule("R27.5", "TextLayout")
	if fn := c.Need("util.RFC3339"); fn != nil {
		fm := c.CallsTo(fn, "(time.Time).Format")
		if c.Exists(fn, "time text is produced by time.Format", fm, 1) {
			layout := ""
			for _, in := range fm {
				if k, ok := CallArg(in, 0).(*ssa.Const); ok && k.Value != nil {
					layout += constant.StringVal(k.Value)
				} else {
					layout += "?"
				}
			}
			// an optional-fraction verb (.999…) drops the dot for whole seconds; padding digits after it
			// cannot bring it back
			c.Report(fn, "time text layout has a fixed-width fraction (parses back for whole seconds too)", c.InstrPos(fm[0]),
				!strings.Contains(layout, ".9") && !strings.Contains(layout, ",9") && !strings.Contains(layout, "?") && strings.Contains(layout, "Z07:00"), "layout "+layout)
		}
	}
	if fn := c.Need("util.ParseRFC3339"); fn != nil {
		c.ArgIs(fn, "time text is parsed with the RFC3339 layout that accepts any fraction width", c.CallsTo(fn, "time.Parse"), 1, 0, "\"2006-01-02T15:04:05.999999999Z07:00\"")
	}
	for _, t := range [][2]string{{"util/localtime.(Time).MarshalText", "*.RFC3339()"}, {"util/localtime.(*Time).UnmarshalText", "util.ParseRFC3339(*)"}} {
		if fn := c.Need(t[0]); fn != nil {
			c.Exists(fn, "localtime text goes through the util layout pair", c.CallsD(fn, t[1]), 1)
		}
	}
}

// hintSetCacheRules (shared by C27 and C31): what the compatible set caches under a key is exactly what
// the uncached lookup answers for that key — the requested hint, the found value.
func hintSetCacheRules(c *Ctx, rule string) {
	c.Rule(rule, "CacheCoherence")
	const S = "util/hint.(*CompatibleSet[T])."
	if fn := c.Need(S + "find"); fn != nil {
		var sets []ssa.Instruction
		for _, in := range c.CallsD(fn, "st.cacheSet(*)") {
			sets = append(sets, in)
		}
		c.Exists(fn, "find caches its answers", sets, 2)
		for _, in := range sets {
			c.ArgIs(fn, "find caches under the requested hint", []ssa.Instruction{in}, 1, 0, "ht.String()")
		}
		// the positive entry is (requested hint, found value)
		pos := 0
		for _, in := range sets {
			v := CallArg(in, 1)
			if mi, ok := v.(*ssa.MakeInterface); ok {
				v = mi.X
			}
			trip, ok := pairOf(c, fn, v)
			if !ok {
				continue
			}
			pos++
			c.Report(fn, "cached hint is the requested hint (what the uncached lookup hands back)", c.InstrPos(in), trip[0] == "ht", "cached "+trip[0])
			c.Report(fn, "cached value is the found value", c.InstrPos(in), strings.HasPrefix(trip[1], "st.set["), "cached "+trip[1])
			c.MP(fn, "a positive entry is cached only if the value was found", []ssa.Instruction{in}, 1, GTrue("st.set[ht.Type()][ht.Version().Major()]#1"), GTrue("*#1"))
		}
		c.Report(fn, "find caches one positive entry", fn.Pos(), pos == 1, fmt.Sprintf("%d", pos))
	}
}

// pairOf: v is (a load of) a local [2]interface{}; the descriptors stored into its two slots.
func pairOf(c *Ctx, fn *ssa.Function, v ssa.Value) (out [2]string, ok bool) {
	if u, isU := v.(*ssa.UnOp); isU {
		v = u.X
	}
	al, isAl := v.(*ssa.Alloc)
	if !isAl {
		return out, false
	}
	n := 0
	for _, in := range allInstrs(fn) {
		st, isSt := in.(*ssa.Store)
		if !isSt {
			continue
		}
		ia, isIA := st.Addr.(*ssa.IndexAddr)
		if !isIA || ia.X != ssa.Value(al) {
			continue
		}
		k, isK := constInt(ia.Index)
		if !isK || k < 0 || k > 1 {
			return out, false
		}
		out[k] = c.D(st.Val)
		n++
	}
	return out, n == 2
}

// ---- field flow ------------------------------------------------------------------------------------

// fieldUse collects, over fn and the own methods of t it calls (closures included), which fields of
// struct type t are read and which are written (stored to, or their address handed to a call).
func (c *Ctx) fieldUse(t *types.Named, roots []*ssa.Function) (read, written map[string]bool) {
	read, written = map[string]bool{}, map[string]bool{}
	st, ok := t.Underlying().(*types.Struct)
	if !ok {
		return
	}
	isT := func(x types.Type) bool {
		x = derefNamed(x)
		n, ok := x.(*types.Named)
		return ok && n.Obj() == t.Obj()
	}
	seen := map[*ssa.Function]bool{}
	var visit func(fn *ssa.Function, d int)
	visit = func(fn *ssa.Function, d int) {
		if fn == nil || seen[fn] || d > 3 {
			return
		}
		seen[fn] = true
		for _, f := range WithClosures(fn) {
			for _, in := range allInstrs(f) {
				switch x := in.(type) {
				case *ssa.Store:
					// *recv = value: every field is assigned
					if pt, ok := x.Addr.Type().Underlying().(*types.Pointer); ok && isT(pt.Elem()) && !isFieldish(x.Addr) {
						for i := 0; i < st.NumFields(); i++ {
							written[st.Field(i).Name()] = true
						}
					}
				case *ssa.ChangeType:
					// T converted as a whole to its marshaler twin: every field is read
					if isT(x.X.Type()) {
						for i := 0; i < st.NumFields(); i++ {
							read[st.Field(i).Name()] = true
						}
					}
				case *ssa.Field:
					if isT(x.X.Type()) {
						read[st.Field(x.Field).Name()] = true
					}
				case *ssa.FieldAddr:
					if !isT(x.X.Type()) {
						continue
					}
					name := st.Field(x.Field).Name()
					r, w := addrUse(x, 0)
					if r {
						read[name] = true
					}
					if w {
						written[name] = true
					}
				}
				// own methods called on the receiver
				if cc := callCommon(in); cc != nil {
					if cal := CalleeOf(cc); cal != nil && cal.Blocks != nil && cal.Signature.Recv() != nil && isT(cal.Signature.Recv().Type()) {
						visit(cal, d+1)
					}
				}
			}
		}
	}
	for _, r := range roots {
		visit(r, 0)
	}
	return
}

// addrUse classifies what happens through a field address: read (loaded, or a non-decoding method
// called on it) and/or written (stored to, handed to a call or an interface, captured, or a
// Set*/Decode*/Unmarshal* method called on it), following nested field/element addresses.
func addrUse(v ssa.Value, depth int) (read, written bool) {
	refs := v.Referrers()
	if refs == nil || depth > 6 {
		return
	}
	decodeish := func(n string) bool {
		for _, p := range []string{"Set", "Decode", "Unmarshal", "decode", "unmarshal", "set"} {
			if strings.HasPrefix(n, p) {
				return true
			}
		}
		return false
	}
	for _, r := range *refs {
		switch y := r.(type) {
		case *ssa.Store:
			written = true // stored to, or the address itself is stored somewhere
		case *ssa.UnOp:
			read = true
			// a map held in the field is updated in place
			if y.Referrers() != nil {
				for _, rr := range *y.Referrers() {
					if mu, ok := rr.(*ssa.MapUpdate); ok && mu.Map == ssa.Value(y) {
						written = true
					}
				}
			}
		case *ssa.FieldAddr:
			a, b := addrUse(y, depth+1)
			read, written = read || a, written || b
		case *ssa.IndexAddr:
			a, b := addrUse(y, depth+1)
			read, written = read || a, written || b
		case *ssa.MakeInterface:
			a, b := addrUse(y, depth+1)
			_ = a
			written = written || b || (y.Referrers() != nil && len(*y.Referrers()) > 0)
		case *ssa.ChangeType:
			a, b := addrUse(y, depth+1)
			read, written = read || a, written || b
		case *ssa.MakeClosure:
			read, written = true, true
		default:
			cc := callCommon(r)
			if cc == nil {
				read = true
				continue
			}
			if cal := CalleeOf(cc); cal != nil && cal.Signature.Recv() != nil && len(cc.Args) > 0 && cc.Args[0] == v {
				if decodeish(cal.Name()) {
					written = true
				} else {
					read = true
				}
			} else if cc.IsInvoke() && cc.Value == v {
				read = true
			} else {
				written = true
			}
		}
	}
	return
}

func isFieldish(v ssa.Value) bool {
	switch v.(type) {
	case *ssa.FieldAddr, *ssa.IndexAddr:
		return true
	}
	return false
}

// fieldExempt: fields that are deliberately on one side only; key "pkg.Type.field".
var fieldExempt = map[string]string{}

// hintOnly: the embedded field f of t carries nothing but the hint (a chain of embedded structs ending
// in hint.BaseHinter) and t can be given its hint by the encoder (encoder.AnalyzeSetHinter finds the
// promoted field "BaseHinter" and t implements SetHint): the encoder restores it, not the decoder.
func hintOnly(t *types.Named, f *types.Var) bool {
	if !f.Embedded() {
		return false
	}
	ft := f.Type()
	for i := 0; i < 4; i++ {
		n, ok := ft.(*types.Named)
		if !ok {
			return false
		}
		if n.Obj().Name() == "BaseHinter" && n.Obj().Pkg() != nil && strings.HasSuffix(n.Obj().Pkg().Path(), "util/hint") {
			break
		}
		st, ok := n.Underlying().(*types.Struct)
		if !ok || st.NumFields() != 1 || !st.Field(0).Embedded() {
			return false
		}
		ft = st.Field(0).Type()
	}
	obj, _, _ := types.LookupFieldOrMethod(t, true, t.Obj().Pkg(), "BaseHinter")
	if v, ok := obj.(*types.Var); !ok || !v.IsField() {
		return false
	}
	m, _, _ := types.LookupFieldOrMethod(t, true, t.Obj().Pkg(), "SetHint")
	_, isFunc := m.(*types.Func)
	return isFunc
}

func (c *Ctx) fieldFlowRules(jt []*types.Named, debug bool) {
	c.Rule("R27.2", "FieldFlow")
	n := 0
	for _, t := range jt {
		st, ok := t.Underlying().(*types.Struct)
		if !ok {
			continue
		}
		tn := strings.TrimPrefix(types.TypeString(t, nil), modPath+"/")
		mf := c.ssaOf(ownMethod(t, "MarshalJSON"))
		var dfs []*ssa.Function
		for _, nm := range []string{"DecodeJSON", "UnmarshalJSON"} {
			if f := c.ssaOf(ownMethod(t, nm)); f != nil {
				dfs = append(dfs, f)
			}
		}
		if mf == nil || len(dfs) == 0 {
			continue
		}
		mr, _ := c.fieldUse(t, []*ssa.Function{mf})
		_, dw := c.fieldUse(t, dfs)
		n++
		for i := 0; i < st.NumFields(); i++ {
			f := st.Field(i).Name()
			if debug {
				fmt.Fprintf(os.Stderr, "FIELD %s.%s marshaled=%v restored=%v\n", tn, f, mr[f], dw[f])
			}
			if !mr[f] {
				// not part of the encoding (derived or re-initialised by the decoder, or runtime-only)
				continue
			}
			if dw[f] {
				c.Report(mf, tn+"."+f+": marshaled and restored", mf.Pos(), true, "")
				continue
			}
			_, ex := fieldExempt[tn+"."+f]
			if mr[f] && !dw[f] && hintOnly(t, st.Field(i)) {
				c.Report(mf, tn+"."+f+": hint marshaled, restored by the encoder (SetHint)", mf.Pos(), true, "")
				continue
			}
			c.Report(mf, tn+"."+f+": marshaled and restored", mf.Pos(), ex, "field is marshaled but never restored by the decoder")
		}
	}
	c.Floor(nil, "struct types whose field flow was compared", n, 40)
}

// ---- field <-> key pairing -----------------------------------------------------------------------

// jsonKeyOfField: the JSON key of field i of struct st ("" for inlined embedded structs / skipped).
func jsonKeyOfField(st *types.Struct, i int) string {
	f := st.Field(i)
	tag := reflect.StructTag(st.Tag(i)).Get("json")
	name, _, _ := strings.Cut(tag, ",")
	if name == "-" || (f.Embedded() && name == "") || !f.Exported() {
		return ""
	}
	if name == "" {
		name = f.Name()
	}
	return name
}

// tFieldsIn: the fields of t (by name) read anywhere in the def-use slice of v.
func (c *Ctx) tFieldsIn(t *types.Named, v ssa.Value) map[string]bool {
	out := map[string]bool{}
	st := t.Underlying().(*types.Struct)
	isT := func(x types.Type) bool {
		n, ok := derefNamed(x).(*types.Named)
		return ok && n.Obj() == t.Obj()
	}
	for x := range c.BackSlice(v) {
		switch y := x.(type) {
		case *ssa.Field:
			if isT(y.X.Type()) {
				out[st.Field(y.Field).Name()] = true
			}
		case *ssa.FieldAddr:
			if isT(y.X.Type()) {
				out[st.Field(y.Field).Name()] = true
			}
		}
	}
	return out
}

// pairings: for the marshal side, field of t -> JSON keys it is stored under; for the decode side,
// field of t -> JSON keys of the unmarshaler fields its stored value derives from.
func (c *Ctx) marshalPairs(t *types.Named, roots []*ssa.Function) map[string]map[string]bool {
	out := map[string]map[string]bool{}
	for _, root := range roots {
		for _, f := range WithClosures(root) {
			for _, in := range allInstrs(f) {
				s, ok := in.(*ssa.Store)
				if !ok {
					continue
				}
				fa, ok := s.Addr.(*ssa.FieldAddr)
				if !ok {
					continue
				}
				mst, ok := derefNamed(fa.X.Type().Underlying().(*types.Pointer).Elem()).Underlying().(*types.Struct)
				if !ok {
					continue
				}
				if n, isN := derefNamed(fa.X.Type().Underlying().(*types.Pointer).Elem()).(*types.Named); isN && n.Obj() == t.Obj() {
					continue
				}
				key := jsonKeyOfField(mst, fa.Field)
				if key == "" {
					continue
				}
				for tf := range c.tFieldsIn(t, s.Val) {
					if out[tf] == nil {
						out[tf] = map[string]bool{}
					}
					out[tf][key] = true
				}
			}
		}
	}
	return out
}

func (c *Ctx) decodePairs(t *types.Named, roots []*ssa.Function) map[string]map[string]bool {
	out := map[string]map[string]bool{}
	st := t.Underlying().(*types.Struct)
	isT := func(x types.Type) bool {
		n, ok := derefNamed(x).(*types.Named)
		return ok && n.Obj() == t.Obj()
	}
	keysIn := func(v ssa.Value) map[string]bool {
		ks := map[string]bool{}
		for x := range c.BackSlice(v) {
			var xt types.Type
			var idx int
			switch y := x.(type) {
			case *ssa.Field:
				xt, idx = y.X.Type(), y.Field
			case *ssa.FieldAddr:
				xt, idx = y.X.Type().Underlying().(*types.Pointer).Elem(), y.Field
			default:
				continue
			}
			if isT(xt) {
				continue
			}
			ust, ok := xt.Underlying().(*types.Struct)
			if !ok {
				continue
			}
			if k := jsonKeyOfField(ust, idx); k != "" {
				ks[k] = true
			}
		}
		return ks
	}
	for _, root := range roots {
		for _, f := range WithClosures(root) {
			for _, in := range allInstrs(f) {
				// out-parameter form: Decode(enc, u.Key, &t.field)
				if cc := callCommon(in); cc != nil {
					for ai, a := range cc.Args {
						x := a
						if mi, ok := x.(*ssa.MakeInterface); ok {
							x = mi.X
						}
						fa, ok := x.(*ssa.FieldAddr)
						if !ok || !isT(fa.X.Type()) {
							continue
						}
						tf := st.Field(fa.Field).Name()
						for bi, b := range cc.Args {
							if bi == ai {
								continue
							}
							for k := range keysIn(b) {
								if out[tf] == nil {
									out[tf] = map[string]bool{}
								}
								out[tf][k] = true
							}
						}
					}
				}
				s, ok := in.(*ssa.Store)
				if !ok {
					continue
				}
				fa, ok := s.Addr.(*ssa.FieldAddr)
				if !ok || !isT(fa.X.Type()) {
					continue
				}
				tf := st.Field(fa.Field).Name()
				for k := range keysIn(s.Val) {
					if out[tf] == nil {
						out[tf] = map[string]bool{}
					}
					out[tf][k] = true
				}
			}
		}
	}
	return out
}

func (c *Ctx) pairingRules(jt []*types.Named, debug bool) {
	c.Rule("R27.2", "FieldFlow")
	n := 0
	for _, t := range jt {
		if _, ok := t.Underlying().(*types.Struct); !ok {
			continue
		}
		tn := strings.TrimPrefix(types.TypeString(t, nil), modPath+"/")
		mf := c.ssaOf(ownMethod(t, "MarshalJSON"))
		var dfs []*ssa.Function
		for _, nm := range []string{"DecodeJSON", "UnmarshalJSON"} {
			if f := c.ssaOf(ownMethod(t, nm)); f != nil {
				dfs = append(dfs, f)
			}
		}
		if mf == nil || len(dfs) == 0 {
			continue
		}
		// marshal side also lives in the own helper methods MarshalJSON calls (jsonMarshaler())
		mroots := []*ssa.Function{mf}
		for _, in := range allInstrs(mf) {
			if cc := callCommon(in); cc != nil {
				if cal := CalleeOf(cc); cal != nil && cal.Blocks != nil && cal.Signature.Recv() != nil {
					if rn, ok := derefNamed(cal.Signature.Recv().Type()).(*types.Named); ok && rn.Obj() == t.Obj() {
						mroots = append(mroots, cal)
					}
				}
			}
		}
		// decode side: own helper methods the decoder calls (decodeJSON(...))
		droots := append([]*ssa.Function{}, dfs...)
		for d := 0; d < 2; d++ {
			for _, r := range append([]*ssa.Function{}, droots...) {
				for _, g := range WithClosures(r) {
					for _, in := range allInstrs(g) {
						if cc := callCommon(in); cc != nil {
							if cal := CalleeOf(cc); cal != nil && cal.Blocks != nil && cal.Signature.Recv() != nil {
								if rn, ok := derefNamed(cal.Signature.Recv().Type()).(*types.Named); ok && rn.Obj() == t.Obj() {
									dup := false
									for _, x := range droots {
										dup = dup || x == cal
									}
									if !dup {
										droots = append(droots, cal)
									}
								}
							}
						}
					}
				}
			}
		}
		mp, dp := c.marshalPairs(t, mroots), c.decodePairs(t, droots)
		var fields []string
		for f := range mp {
			fields = append(fields, f)
		}
		sort.Strings(fields)
		for _, f := range fields {
			mk, dk := sortedKeys(mp[f]), sortedKeys(dp[f])
			if debug {
				fmt.Fprintf(os.Stderr, "PAIR %s.%s marshal=%v decode=%v\n", tn, f, mk, dk)
			}
			if len(mk) != 1 || len(dk) != 1 {
				continue // not a one-to-one pairing (derived from several keys, or restored through a helper)
			}
			n++
			c.Report(mf, tn+"."+f+": restored from the key it is marshaled under", mf.Pos(), mk[0] == dk[0], "marshaled as \""+mk[0]+"\", restored from \""+dk[0]+"\"")
		}
	}
	c.Floor(nil, "one-to-one field/key pairings compared", n, 100)
}

// ---- hint registry --------------------------------------------------------------------------------

type regEntry struct {
	list     string
	hintObj  types.Object
	instance types.Type
	pos      token.Pos
}

// registryEntries parses the composite literals of the launch package's decode-detail lists.
func (c *Ctx) registryEntries() []regEntry {
	var out []regEntry
	pp := c.PPkgs[modPath+"/launch"]
	if pp == nil {
		return nil
	}
	for _, file := range pp.Syntax {
		for _, decl := range file.Decls {
			gd, ok := decl.(*ast.GenDecl)
			if !ok || gd.Tok != token.VAR {
				continue
			}
			for _, spec := range gd.Specs {
				vs := spec.(*ast.ValueSpec)
				for i, name := range vs.Names {
					if i >= len(vs.Values) {
						continue
					}
					cl, ok := vs.Values[i].(*ast.CompositeLit)
					if !ok {
						continue
					}
					tv := pp.TypesInfo.Types[cl]
					sl, ok := tv.Type.Underlying().(*types.Slice)
					if !ok || !strings.HasSuffix(types.TypeString(sl.Elem(), nil), "util/encoder.DecodeDetail") {
						continue
					}
					for _, el := range cl.Elts {
						ecl, ok := el.(*ast.CompositeLit)
						if !ok {
							continue
						}
						e := regEntry{list: name.Name, pos: ecl.Pos()}
						for _, kv := range ecl.Elts {
							k, ok := kv.(*ast.KeyValueExpr)
							if !ok {
								continue
							}
							switch k.Key.(*ast.Ident).Name {
							case "Hint":
								switch x := k.Value.(type) {
								case *ast.Ident:
									e.hintObj = pp.TypesInfo.Uses[x]
								case *ast.SelectorExpr:
									e.hintObj = pp.TypesInfo.Uses[x.Sel]
								}
							case "Instance":
								e.instance = pp.TypesInfo.Types[k.Value].Type
							}
						}
						out = append(out, e)
					}
				}
			}
		}
	}
	return out
}

// hintVars: package-level variables initialised with hint.MustNewHint("<const>") in the tree.
func (c *Ctx) hintVars() map[types.Object]string {
	out := map[types.Object]string{}
	for _, sp := range c.SPkgs {
		init := sp.Func("init")
		if init == nil {
			continue
		}
		for _, in := range allInstrs(init) {
			st, ok := in.(*ssa.Store)
			if !ok {
				continue
			}
			g, ok := st.Addr.(*ssa.Global)
			if !ok {
				continue
			}
			call, ok := st.Val.(*ssa.Call)
			if !ok || CalleeFullName(&call.Call) != "util/hint.MustNewHint" {
				continue
			}
			k, ok := call.Call.Args[0].(*ssa.Const)
			if !ok || k.Value == nil {
				continue
			}
			out[g.Object()] = constant.StringVal(k.Value)
		}
	}
	return out
}

// hintExempt: hint variables that are deliberately not in the decoder registry.
var hintExempt = map[string]string{
	"isaac/block.LocalFSWriterHint":       "names a component (the local-fs block writer) in block file headers; no object is encoded under it",
	"util/encoder/json.JSONEncoderHint": "the encoder's own hint (selects the encoder, registered in encoder.Encoders), not an encoded object",
}

func (c *Ctx) registryRules(debug bool) {
	c.Rule("R27.3", "Registry")
	entries := c.registryEntries()
	c.Floor(nil, "decode-detail registry entries", len(entries), 95)
	hv := c.hintVars()
	c.Floor(nil, "hint variables in the tree", len(hv), 100)
	byHint := map[types.Object][]regEntry{}
	byType := map[string][]regEntry{}
	typeName := map[string][]string{}
	launchFn := c.Need("launch.LoadHinters")
	for _, e := range entries {
		if e.hintObj == nil || e.instance == nil {
			c.Report(launchFn, "registry entry names a hint variable and an instance", e.pos, false, "")
			continue
		}
		byHint[e.hintObj] = append(byHint[e.hintObj], e)
		it := strings.TrimPrefix(strings.TrimPrefix(types.TypeString(e.instance, nil), "*"), modPath+"/")
		byType[it] = append(byType[it], e)
		hn := e.hintObj.Pkg().Name() + "." + e.hintObj.Name()
		s, isHV := hv[e.hintObj]
		c.Report(launchFn, "registered hint "+hn+" is a hint variable of the tree", e.pos, isHV, "")
		if isHV {
			tn := s
			if i := strings.LastIndex(s, "-v"); i > 0 {
				tn = s[:i]
			}
			typeName[tn] = append(typeName[tn], hn)
		}
		// the instance can carry a hint and can be decoded
		ms := types.NewMethodSet(types.NewPointer(derefNamed(e.instance)))
		has := func(n string) bool { return ms.Lookup(nil, n) != nil || ms.Lookup(derefNamed(e.instance).(*types.Named).Obj().Pkg(), n) != nil }
		_, isStruct := derefNamed(e.instance).Underlying().(*types.Struct)
		c.Report(launchFn, "instance of "+hn+" ("+it+") has a decoder", e.pos, has("DecodeJSON") || has("UnmarshalJSON") || has("UnmarshalText") || isStruct, "")
		// the instance type is the one that carries this hint: one of its methods or constructors uses it
		if nt, ok := derefNamed(e.instance).(*types.Named); ok {
			uses := c.typeUsesGlobal(nt, e.hintObj)
			_, ex := pairExempt[hn+"/"+it]
			c.Report(launchFn, "hint "+hn+" belongs to the registered instance type "+it, e.pos, uses || ex, pairExempt[hn+"/"+it])
		}
		// a type decoded through DecodeJSON/UnmarshalJSON whose hint is an embedded BaseHinter must
		// be able to receive the hint from the encoder
		if obj, _, _ := types.LookupFieldOrMethod(derefNamed(e.instance), true, e.hintObj.Pkg(), "BaseHinter"); obj != nil {
			if v, ok := obj.(*types.Var); ok && v.IsField() {
				c.Report(launchFn, "instance of "+hn+" ("+it+") can be given its hint by the encoder (SetHint)", e.pos, has("SetHint"), "")
			}
		}
	}
	// exactly once
	var hvs []types.Object
	for o := range hv {
		hvs = append(hvs, o)
	}
	sort.Slice(hvs, func(i, j int) bool {
		return hvs[i].Pkg().Path()+"."+hvs[i].Name() < hvs[j].Pkg().Path()+"."+hvs[j].Name()
	})
	for _, o := range hvs {
		hn := strings.TrimPrefix(o.Pkg().Path(), modPath+"/") + "." + o.Name()
		n := len(byHint[o])
		if debug && n != 1 {
			fmt.Fprintf(os.Stderr, "HINT %s registered %d times (%q)\n", hn, n, hv[o])
		}
		if n == 0 {
			if _, ex := hintExempt[hn]; ex {
				c.Report(launchFn, "hint "+hn+" is deliberately not decodable by hint", launchFn.Pos(), true, hintExempt[hn])
				continue
			}
		}
		c.Report(launchFn, "hint "+hn+" is registered exactly once", launchFn.Pos(), n == 1, fmt.Sprintf("registered %d times", n))
	}
	// no two registered hints share a type name
	var tns []string
	for k := range typeName {
		tns = append(tns, k)
	}
	sort.Strings(tns)
	for _, k := range tns {
		c.Report(launchFn, "hint type name \""+k+"\" is registered for one hint", launchFn.Pos(), len(typeName[k]) == 1, strings.Join(typeName[k], ", "))
	}
	// the registry loader adds every entry of both lists
	if launchFn != nil {
		c.ForEach(launchFn, "every Hinters entry is added to the encoders", "(ι < len(launch.Hinters))", 1, GOk("encs.AddDetail(launch.Hinters[ι])"))
		c.ForEach(launchFn, "every supported fact hinter is added to the encoders", "(ι < len(launch.SupportedProposalOperationFactHinters))", 1,
			GOk("encs.AddDetail(launch.SupportedProposalOperationFactHinters[ι])"))
	}
	// R27.4 ------------------------------------------------------------------------------------------
	c.Rule("R27.4", "MustPass")
	if fn := c.Need("util/encoder/json.(*Encoder).decodeWithHint"); fn != nil {
		obj := nonMatchingReturns(c, fn, 0, "nil")
		c.MP(fn, "an object is handed out only if a decoder was found for the hint", obj, 1, GTrue("enc.decoders.FindByString(s)#2"))
		c.MP(fn, "an object is handed out only if the hint lookup did not fail", obj, 1, GNil("enc.decoders.FindByString(s)#3"))
		c.MP(fn, "an object is handed out only if the decoder did not fail", obj, 1, GNil("call(var:d.Decode)(*)#1"))
		for _, r := range obj {
			c.Report(fn, "the object handed out is the found decoder's result", c.InstrPos(r), c.D(RetVal(r.(*ssa.Return), 0)) == "call(var:d.Decode)(b, enc.decoders.FindByString(s)#0)#0", c.D(RetVal(r.(*ssa.Return), 0)))
		}
		c.StoredIs(fn, "the decoder used is the one found for the hint", c.StoresD(fn, "&var:d"), 1, "enc.decoders.FindByString(s)#1")
	}
	if fn := c.Need("util/encoder/json.(*Encoder).Decode"); fn != nil {
		dw := c.CallsD(fn, "enc.decodeWithHint(*)")
		c.MP(fn, "dispatch only after the hint was read from the document", dw, 1, GOk("enc.guessHint(b)"))
		c.ArgIs(fn, "dispatch on the hint read from the document", dw, 1, 1, "enc.guessHint(b)#0")
		c.ArgIs(fn, "the whole document is handed to the decoder", dw, 1, 0, "b")
	}
	if fn := c.Need("util/encoder/json.(*Encoder).guessHint"); fn != nil {
		c.Exists(fn, "the hint is read from the document head", c.CallsD(fn, "util.UnmarshalJSON(b, *)"), 1)
	}
}

// pairExempt: registered (hint, instance type) pairs where the type lives below the package that owns
// the hint and therefore cannot name it.
var pairExempt = map[string]string{
	"base.OperationFixedtreeHint/base.OperationFixedtreeNode": "tree-kind hint: written by the tree writer into the tree file header (fixedtree.NewWriter(hint, n)) and used to pick the node decoder; the node type itself carries no hint",
	"base.StateFixedtreeHint/util/fixedtree.BaseNode":         "tree-kind hint: written by the tree writer into the tree file header and used to pick the node decoder; the node type itself carries no hint",
	"isaac.NodeHint/base.BaseNode":                            "isaac.NewNode gives base.BaseNode the isaac hint; package base lies below isaac and cannot name it",
}

// typeUsesGlobal: some method of t, or some function of t's package that returns t, references the
// package-level variable obj.
func (c *Ctx) typeUsesGlobal(t *types.Named, obj types.Object) bool {
	isT := func(x types.Type) bool {
		n, ok := derefNamed(x).(*types.Named)
		return ok && n.Obj() == t.Obj()
	}
	for _, fn := range c.Funcs {
		root := fn
		for root.Parent() != nil {
			root = root.Parent()
		}
		rel := false
		if r := root.Signature.Recv(); r != nil {
			rel = isT(r.Type())
		} else if root.Pkg != nil && root.Pkg.Pkg == t.Obj().Pkg() {
			res := root.Signature.Results()
			for i := 0; i < res.Len(); i++ {
				rel = rel || isT(res.At(i).Type())
			}
		}
		if !rel && root.Pkg != nil && root.Pkg.Pkg == t.Obj().Pkg() {
			// a function of the package that fills a field of a t with a value made from the hint
			// (a literal `T{BaseHinter: hint.NewBaseHinter(H), ...}` outside T's own constructors)
			for _, in := range allInstrs(fn) {
				st, ok := in.(*ssa.Store)
				if !ok {
					continue
				}
				fa, ok := st.Addr.(*ssa.FieldAddr)
				if !ok || !isT(fa.X.Type()) {
					continue
				}
				if c.DependsOn(st.Val, func(v ssa.Value) bool {
					g, ok := v.(*ssa.Global)
					return ok && g.Object() == obj
				}) {
					return true
				}
			}
		}
		if !rel {
			continue
		}
		for _, in := range allInstrs(fn) {
			var ops []*ssa.Value
			for _, o := range in.Operands(ops) {
				if g, ok := (*o).(*ssa.Global); ok && g.Object() == obj {
					return true
				}
			}
		}
	}
	return false
}

// jsonKeyTypes: like jsonKeys, but records the field type under every key.
func jsonKeyTypes(t types.Type, out map[string][]types.Type, seen map[types.Type]bool) {
	if p, ok := t.Underlying().(*types.Pointer); ok {
		t = p.Elem()
	}
	st, ok := t.Underlying().(*types.Struct)
	if !ok || seen[t] {
		return
	}
	seen[t] = true
	for i := 0; i < st.NumFields(); i++ {
		f := st.Field(i)
		tag := reflect.StructTag(st.Tag(i)).Get("json")
		name, _, _ := strings.Cut(tag, ",")
		if name == "-" {
			continue
		}
		if f.Embedded() && name == "" {
			ft := f.Type()
			if p, ok := ft.Underlying().(*types.Pointer); ok {
				ft = p.Elem()
			}
			if _, isStruct := ft.Underlying().(*types.Struct); isStruct {
				jsonKeyTypes(ft, out, seen)
				continue
			}
		}
		if !f.Exported() {
			continue
		}
		if name == "" {
			name = f.Name()
		}
		out[name] = append(out[name], f.Type())
	}
}
