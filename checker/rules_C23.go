package main

import (
	"golang.org/x/tools/go/ssa"
)

func init() {
	Register(&Property{
		ID: "C23",
		Decides: "(R23.1) in the two lookup iterators over the expel-operation records (by node, traverse) a stop without an error and without a match is controlled only by the sort key of the record (`End < height`, the key starts with the end height and the iteration is descending), never by another field; a record is matched (stored / handed to the callback) only if Start <= height <= End (and, by node, the node equals); " +
			"(R23.2) removal by height deletes only records with End <= height and visits all records; (R23.3) writer and by-fact remover use the same key builder, whose first key component is the end height.; (R23.k) every leveldb key builder carries each of its parameters in full under its own prefix constant",
		NotDecided: "byte-order comparison of encoded heights (big-endian encoding assumed); behaviour for two operations of one node with overlapping ranges (the first match in end-descending order wins).",
		Run:        runC23,
	})
}

func runC23(c *Ctx) {
	c.Rule("R23.k", "KeyTable")
	keyBuilderRules(c)
	rec := "isaacdatabase.ReadFrameHeaderSuffrageExpelOperation(b)"
	h := "height.Int64()"
	c.Rule("R23.1", "IterStop")
	for _, t := range []struct {
		parent string
		byNode bool
	}{
		{"isaac/database.(*TempPool).SuffrageExpelOperation", true},
		{"isaac/database.(*TempPool).TraverseSuffrageExpelOperations", false},
	} {
		parent := c.Need(t.parent)
		if parent == nil {
			continue
		}
		cb := c.ClosureWithCall(parent, rec)
		if cb == nil {
			continue
		}
		// iteration direction: descending (sort == false) over the expel prefix
		it := c.CallsD(parent, "*.Iter(*)")
		c.ArgIs(parent, "iteration is descending by key (end height first)", it, 1, 2, "false")
		c.ArgIs(parent, "iteration over the expel-operation prefix", it, 1, 0, "util.BytesPrefix(isaacdatabase.leveldbKeySuffrageExpelOperation[:])")
		// classify returns
		var stopMiss, match []ssa.Instruction
		errs := map[ssa.Instruction]bool{}
		for _, e := range c.ErrorReturns(cb) {
			errs[e] = true
		}
		for _, r := range Returns(cb) {
			if errs[r] {
				continue
			}
			keep := c.D(RetVal(r, 0))
			switch {
			case keep == "true":
			case keep == "false":
				// a stop: match if the result was stored on the way (by node), else a stop-miss
				if t.byNode && len(c.MustPass(cb, nil, []ssa.Instruction{r}, GStored("&var:opb"))) == 1 && c.MustPass(cb, nil, []ssa.Instruction{r}, GStored("&var:opb"))[0].OK {
					match = append(match, r)
				} else {
					stopMiss = append(stopMiss, r)
				}
			default:
				match = append(match, r) // the callback's own answer
			}
		}
		c.MP(cb, "stop without match only on the sort key: End < height", stopMiss, 1, GCmp(rec+"#1.End()", "<", h))
		c.Exists(cb, "match exit present", match, 1)
		c.MP(cb, "match only if the record has not ended", match, 1, GCmp(rec+"#1.End()", ">=", h))
		c.MP(cb, "match only if the record has started", match, 1, GCmp(rec+"#1.Start()", "<=", h))
		c.MP(cb, "match only for a decodable record", match, 1, GOk(rec))
		if t.byNode {
			c.MP(cb, "match only for the queried node", match, 1, GTrue("bytes.Equal(node.Bytes(), "+rec+"#1.Node())"))
			c.StoredIs(cb, "matched record's body kept", c.StoresD(cb, "&var:opb"), 1, rec+"#2")
		} else {
			for _, r := range match {
				c.Report(cb, "matched record handed to the callback", c.InstrPos(r), c.D(RetVal(r.(*ssa.Return), 0)) == "call(callback)(var:op)#0", c.D(RetVal(r.(*ssa.Return), 0)))
			}
			c.MP(cb, "callback only after the record decoded", match, 1, GOk("isaacdatabase.DecodeFrame(*)"))
		}
	}
	// R23.2
	c.Rule("R23.2", "MustPass")
	if parent := c.Need("isaac/database.(*TempPool).RemoveSuffrageExpelOperationsByHeight"); parent != nil {
		if cb := c.ClosureWithCall(parent, rec); cb != nil {
			del := c.CallsD(cb, "*.Delete(key)")
			c.MP(cb, "record deleted only if it ended at or before the height", del, 1, GCmp(rec+"#1.End()", "<=", h))
			for _, r := range Returns(cb) {
				if c.D(RetVal(r, 0)) == "false" && c.D(RetVal(r, 1)) == "nil" {
					c.Report(cb, "removal visits every record (no early stop)", c.InstrPos(r), false, "return false, nil")
				}
			}
			c.Exists(cb, "deletion present", del, 1)
			// exactness: a record is kept only if it ends after the height
			c.MP(cb, "record kept only if it ends after the height", c.ReturnsD(cb, 0, "true"), 1,
				GCalled("*.Delete(key)"), GCmp(rec+"#1.End()", ">", h))
		}
		c.MP(parent, "success: deletions written", c.SuccessReturns(parent), 1, GOk("*.Batch(*)"))
	}
	// R23.3
	c.Rule("R23.3", "KeyTable")
	if fn := c.Need("isaac/database.(*TempPool).SetSuffrageExpelOperation"); fn != nil {
		c.ArgIs(fn, "operation stored under the key of its expel fact", c.CallsD(fn, "*.Put(*)"), 1, 0, "isaacdatabase.newSuffrageExpelOperationKey(op.ExpelFact())")
	}
	if fn := c.Need("isaac/database.(*TempPool).RemoveSuffrageExpelOperationsByFact"); fn != nil {
		c.ArgIs(fn, "operation removed under the key of its expel fact", c.CallsD(fn, "*.Delete(*)"), 1, 0, "isaacdatabase.newSuffrageExpelOperationKey(facts[ι])")
	}
	if fn := c.Need("isaac/database.newSuffrageExpelOperationKey"); fn != nil {
		c.Exists(fn, "key builder delegates to leveldbSuffrageExpelOperation", c.ReturnsD(fn, 0, "isaacdatabase.leveldbSuffrageExpelOperation(fact)"), 1)
	}
	if fn := c.Need("isaac/database.leveldbSuffrageExpelOperation"); fn != nil {
		c.StoredIs(fn, "first key component is the end height (the sort key)", c.StoresD(fn, "&var:varargs[0]"), 1, "fact.ExpelEnd().Bytes()")
		c.StoredIs(fn, "second key component is the fact hash", c.StoresD(fn, "&var:varargs[1]"), 1, "fact.Hash().Bytes()")
		c.Exists(fn, "key lives under the expel-operation prefix", c.ReturnsD(fn, 0, "leveldbstorage.NewPrefixKey(isaacdatabase.leveldbKeySuffrageExpelOperation, var:varargs[:])"), 1)
	}
	if fn := c.Need("isaac/database.EncodeFrameSuffrageExpelOperation"); fn != nil {
		_ = fn
	}
}
