package main

import (
	"fmt"
	"go/types"
	"sort"
	"strings"

	"golang.org/x/tools/go/ssa"
)

func init() {
	Register(&Property{
		ID: "C19",
		Decides: "(R19.1) the center's list of temp databases and its removed list are written only with the center lock held exclusively (or in helpers called only with it held, or the constructor) and read under the lock or through the locked snapshot helpers; " +
			"(R19.2) every leveldb key builder a reader uses is used by the block writer (and vice versa) — a reader cannot look where nothing is written; every key builder carries each of its parameters in full under its own prefix constant; (R19.3) every read of the center falls back to the same read of the permanent database with the caller's own argument — for the by-block-height suffrage proof the requested height, lowered to lowest-temp-minus-one only when it lies above it; " +
			"(R19.4) a temp database is published to readers only after its own merge marker write succeeded and only for the height following the newest one; it leaves the list only after the permanent merge succeeded; (R19.5) Center.state consults a temp only if it is newer than the newest holder of the key found so far, replaces the remembered height only by the height of a newer temp that holds the key, and never resets it (closed or empty temps leave it unchanged).; (R19.j) jobs handed to a worker read only captured variables that the submitter does not assign again (no job works on a later batch/slot than the one it was created for); (R19.6) the temps answer a suffrage proof only for the asked suffrage height; (R19.7) the by-block-height read works on one snapshot of the temp list and (R19.8) a block writer's state cache is not shared across heights — R19.8 violated today, known finding; (R19.9) a permanent database reads a state from storage and fills its state cache under the lock its merge holds; (R19.10) the last height answered with the last suffrage proof is the newest database's; (R19.c) the LevelDB permanent merge copies every record (the copy callback continues only after the record went into a batch, a full batch is replaced only after it was handed to a writer) and writes the block map in a commit batch after all others; every live temp of the snapshot not above the asked block height is asked for its suffrage proof",
		NotDecided: "agreement with a model over all histories of writes/merges/removals (needs execution); monotonicity of concurrent reads during merges beyond the snapshot/lock discipline.",
		Run:        runC19,
	})
}

func runC19(c *Ctx) {
	// R19.6: the temp databases answer a suffrage proof by suffrage height exactly like the permanent one:
	// only for the asked height
	c.Rule("R19.6", "MustPass")
	if fn := c.Need("isaac/database.(*Center).suffrageProofInTemps"); fn != nil {
		var found []ssa.Instruction
		for _, r := range Returns(fn) {
			if len(r.Results) == 4 && c.D(RetVal(r, 2)) == "true" {
				found = append(found, r)
			}
		}
		c.MP(fn, "a temp's proof is answered only if its suffrage height is the asked one", found, 1,
			GCmp("db.activeTemps()[ι].SuffrageHeight()", "==", "suffrageHeight"))
	}
	// R19.7: a read works on one snapshot of the temp list: after activeTemps() it does not look the list up
	// again through a second lock (a merge in between makes the second answer disagree with the snapshot)
	c.Rule("R19.7", "Ordering")
	if fn := c.Need("isaac/database.(*Center).SuffrageProofByBlockHeight"); fn != nil {
		snap := c.CallsD(fn, "db.activeTemps()")
		again := c.CallsD(fn, "db.findTemp(*)")
		var second []string
		for _, a := range again {
			if allOK(c.MustPass(fn, nil, []ssa.Instruction{a}, GCalled("db.activeTemps()"))) && len(snap) > 0 {
				second = append(second, c.Pos(a.Pos()))
			}
		}
		c.Report(fn, "the by-block-height suffrage proof is looked up in one snapshot of the temp list", fn.Pos(), len(second) == 0,
			"after activeTemps() the temp of the height is looked up again with findTemp() at "+strings.Join(second, ", ")+": a merge in between makes it nil and the read falls back to an older block's proof")
	}
	stateCacheOwnershipRule(c, "R19.8")
	permStateCacheLockRule(c, "R19.9")
	lastProofHeightRule(c, "R19.10")
	c.Rule("R19.c", "MustPass")
	permMergeCopyRules(c)
	permCommitBatchRule(c)
	// every live temp of the snapshot that is not above the asked height is asked for its proof (the
	// newest of them that has one answers): skipping the temp of exactly the asked height answers the
	// previous suffrage for a block that changed it
	c.Rule("R19.3", "MustPass")
	if fn := c.Need("isaac/database.(*Center).SuffrageProofByBlockHeight"); fn != nil && len(c.Loops(fn, "(ι < len(db.activeTemps()))")) > 0 {
		th := "db.activeTemps()[ι].Height()"
		c.ForEach(fn, "every live temp not above the asked height is asked for its proof", "(ι < len(db.activeTemps()))", 1,
			GCmp(th, "<", "base.GenesisHeight"), GCmp(th, "<", "0"), GCmp(th, ">", "height"), GCalled("db.activeTemps()[ι].SuffrageProof()"))
	}
	c.Rule("R19.j", "AsyncCapture")
	c.AsyncCaptures(c.Need("isaac/database.(*Center).dig"), "*.NewJob", 1)
	// R19.1 --------------------------------------------------------------------------------------
	c.Rule("R19.1", "LockHeld")
	lockRequired := map[string]bool{"isaac/database.(*Center).removeTemp": true}
	ctor := map[string]bool{"isaac/database.(*Center).load": true, "isaac/database.NewCenter": true}
	n := 0
	for _, f := range []string{"temps", "removed"} {
		for _, s := range c.WhoTouches("Center", f) {
			key := c.FuncKey(s.Fn)
			root := key
			if i := strings.Index(root, "$"); i >= 0 {
				root = root[:i]
			}
			if ctor[root] {
				continue
			}
			n++
			if lockRequired[root] {
				continue
			}
			_, isStore := s.In.(*ssa.Store)
			need := LR
			if isStore {
				need = LW
			}
			st := c.LockStates(s.Fn, nil)
			held := st[s.In]["&db.l"]
			c.Report(s.Fn, "Center."+f+" accessed under the center lock", c.InstrPos(s.In), held >= need, stateStr(st[s.In]))
		}
	}
	c.Floor(nil, "accesses of Center.temps/removed", n, 20)
	// removeTemp is handed (as a method value) only to mergeToPermanent, from functions holding the lock
	if rt := c.Need("isaac/database.(*Center).removeTemp"); rt != nil {
		refs := c.WhoRefs(rt)
		direct := c.WhoCalls("(*isaac/database.Center).removeTemp")
		c.Floor(rt, "uses of removeTemp", len(refs)+len(direct), 2)
		for _, s := range append(refs, direct...) {
			if cc := callCommon(s.In); cc != nil {
				if _, viaParam := cc.Value.(*ssa.Parameter); viaParam {
					// the function value handed to mergeToPermanent (seen as a call of removeTemp only with
					// resolved dynamic calls): the lock is the caller's, checked where the value is taken
					c.Report(s.Fn, "removeTemp invoked as the handed-in function value", c.InstrPos(s.In), c.FuncKey(s.Fn) == "isaac/database.mergeToPermanent", c.FuncKey(s.Fn))
					continue
				}
			}
			st := c.LockStates(s.Fn, nil)
			c.Report(s.Fn, "removeTemp used only with the center lock held exclusively", c.InstrPos(s.In), st[s.In]["&db.l"] >= LW, stateStr(st[s.In]))
		}
	}
	// R19.2 key table -----------------------------------------------------------------------------
	c.Rule("R19.2", "KeyTable")
	builders := func(prefixes ...string) map[string]bool {
		out := map[string]bool{}
		for _, fn := range c.Funcs {
			k := c.FuncKey(fn)
			ok := false
			for _, p := range prefixes {
				if strings.HasPrefix(k, p) {
					ok = true
				}
			}
			if !ok {
				continue
			}
			for _, in := range allInstrs(fn) {
				if cc := callCommon(in); cc != nil {
					name := CalleeFullName(cc)
					if strings.HasPrefix(name, "isaac/database.leveldb") && strings.HasSuffix(name, "Key") {
						out[name] = true
					}
				}
			}
		}
		return out
	}
	w := builders("isaac/database.(*LeveldbBlockWrite).")
	r := builders("isaac/database.(*TempLeveldb).", "isaac/database.(*LeveldbPermanent).", "isaac/database.(*baseLeveldb).")
	delete(r, "isaac/database.leveldbTempMergedKey") // the commit marker: written by TempLeveldb.Merge itself (C21)
	var rk []string
	for k := range r {
		rk = append(rk, k)
	}
	sort.Strings(rk)
	c.Floor(nil, "key builders used by readers", len(rk), 5)
	for _, k := range rk {
		c.Report(nil, "reader key builder "+strings.TrimPrefix(k, "isaac/database.")+" is written by the block writer", 0, w[k], "writers: LeveldbBlockWrite")
	}
	var wk []string
	for k := range w {
		wk = append(wk, k)
	}
	sort.Strings(wk)
	c.Floor(nil, "key builders used by the block writer", len(wk), 6)
	for _, k := range wk {
		c.Report(nil, "written key builder "+strings.TrimPrefix(k, "isaac/database.")+" has a reader", 0, r[k], "readers: TempLeveldb / LeveldbPermanent / baseLeveldb")
	}
	keyBuilderRules(c)
	// R19.3 delegation ---------------------------------------------------------------------------
	c.Rule("R19.3", "SiblingAgreement")
	for _, m := range []struct {
		name string
		args []string
	}{
		{"SuffrageProof", []string{"suffrageHeight"}}, {"SuffrageProofBytes", []string{"suffrageHeight"}},
		{"State", []string{"key"}}, {"StateBytes", []string{"key"}},
		{"ExistsInStateOperation", []string{"h"}}, {"ExistsKnownOperation", []string{"h"}},
		{"BlockMap", []string{"height"}}, {"BlockMapBytes", []string{"height"}},
		{"LastBlockMap", nil}, {"LastBlockMapBytes", nil}, {"LastNetworkPolicy", nil}, {"LastSuffrageProof", nil},
	} {
		fn := c.Need("isaac/database.(*Center)." + m.name)
		if fn == nil {
			continue
		}
		calls := c.CallsD(fn, "db.perm."+m.name+"(*)")
		if !c.Exists(fn, "falls back to the permanent database's "+m.name, calls, 1) {
			continue
		}
		for i, a := range m.args {
			c.ArgIs(fn, m.name+": permanent database asked with the caller's own argument", calls, 1, i, a)
		}
	}
	if fn := c.Need("isaac/database.(*Center).SuffrageProofByBlockHeight"); fn != nil {
		calls := c.CallsD(fn, "db.perm.SuffrageProofByBlockHeight(*)")
		if c.Exists(fn, "falls back to the permanent database's SuffrageProofByBlockHeight", calls, 1) {
			// the permanent database is asked for the requested height, or for a height lowered to
			// just below a temp of the snapshot (the blocks of the temps are not in it yet); a
			// lowering only ever lowers
			arg := CallArg(calls[0], 0)
			lowered := "(db.activeTemps()[*].Height() - 1)"
			leaves := c.PhiLeafEdges(arg, "*")
			req := c.PhiLeafEdges(arg, "height")
			low := c.PhiLeafEdges(arg, lowered)
			ok := len(req) >= 1 && len(leaves) == len(req)+len(low)
			if _, isPhi := arg.(*ssa.Phi); !isPhi {
				ok = c.D(arg) == "height"
			}
			c.Report(fn, "permanent database asked for the requested height (or a temp's height minus one)", c.InstrPos(calls[0]), ok, c.D(arg))
			if len(low) > 0 {
				c.MPEdge(fn, "the height is lowered only when it lies above the permanent blocks", low, 1, GCmp("*", ">", lowered))
			}
		}
		th := "db.activeTemps()[ι].Height()"
		permCalls := c.CallsD(fn, "db.perm.SuffrageProofByBlockHeight(*)")
		guardFirst := len(permCalls) > 0 && allOK(c.MustPass(fn, nil, permCalls,
			GCmp("len(db.activeTemps())", "<=", "0"), GCmp("height", "<=", "db.activeTemps()[0].Height()")))
		if !guardFirst && len(c.Loops(fn, "(ι < len(db.activeTemps()))")) > 0 {
			// walk form: the newest live temp (index 0, height below the requested one) ends the read
			c.ForEach(fn, "newer-than-newest height answered not-found without the permanent database", "(ι < len(db.activeTemps()))", 1,
				GCmp(th, "<", "base.GenesisHeight"), GCmp(th, "<", "0"), GCmp("ι", "!=", "0"), GCmp("ι", ">", "0"), GCmp("height", "<=", th))
		} else {
			c.MP(fn, "newer-than-newest height answered not-found without the permanent database", c.CallsD(fn, "db.perm.SuffrageProofByBlockHeight(*)"), 1,
				GCmp("len(db.activeTemps())", "<=", "0"), GCmp("height", "<=", "db.activeTemps()[0].Height()"))
		}
	}
	// R19.4 publication ---------------------------------------------------------------------------
	c.Rule("R19.4", "MustPass")
	if fn := c.Need("isaac/database.(*Center).MergeBlockWriteDatabase"); fn != nil {
		pub := c.StoresD(fn, "&db.temps")
		c.MP(fn, "temp published only after its merge marker was written", pub, 2, GOk("w.TempDatabase()#0.Merge()"))
		c.MP(fn, "temp published only for the next height", pub, 2, GCmp("w.TempDatabase()#0.Height()", "==", "(φ(*) + 1)"), GCmp("φ(*)", "<=", "base.NilHeight"))
		c.Held(fn, nil, "temp published under the center lock", pub, 2, "&db.l", LW)
	}
	mergedMarkerRules(c)
	if fn := c.Need("isaac/database.mergeToPermanent"); fn != nil {
		rm := c.CallsD(fn, "call(remove)(*)")
		c.MP(fn, "temp leaves the list only after the permanent merge succeeded", rm, 1, GOk("perm.MergeTempDatabase(ctx, *)"))
		c.ArgIs(fn, "the merged temp is the removed one", rm, 1, 0, "temps[(len(temps) - 1)]")
		c.ArgIs(fn, "the oldest temp is merged", c.CallsD(fn, "perm.MergeTempDatabase(*)"), 1, 1, "temps[(len(temps) - 1)]")
		c.MP(fn, "the newest temp is kept out of the permanent merge", c.CallsD(fn, "perm.MergeTempDatabase(*)"), 1, GCmp("len(temps)", ">=", "2"))
	}
	// the permanent database's own by-block-height lookup: newest record at or below the height
	if parent := c.Need("isaac/database.(*LeveldbPermanent).SuffrageProofByBlockHeight"); parent != nil {
		var scan *ssa.Function
		for _, f := range WithClosures(parent) {
			if len(c.CallsD(f, "*.Iter(util.BytesPrefix(isaacdatabase.leveldbKeySuffrageProofByBlockHeight[:]), *)")) > 0 {
				scan = f
			}
		}
		if scan == nil {
			c.Unresolved(parent, "permanent by-height scan", "iteration over the by-block-height records not found")
		} else {
			rng := "util.BytesPrefix(isaacdatabase.leveldbKeySuffrageProofByBlockHeight[:])"
			c.StoredIs(scan, "permanent by-height scan includes the requested height (exclusive limit is height+1)", c.StoresD(scan, "&"+rng+".Limit"), 1,
				"isaacdatabase.leveldbSuffrageProofByBlockHeightKey((height + 1))")
			n := 0
			for _, in := range allInstrs(scan) {
				if st, ok := in.(*ssa.Store); ok && strings.HasPrefix(c.D(st.Addr), "&"+rng+".") {
					n++
				}
			}
			c.Report(scan, "permanent by-height scan: only the upper bound is narrowed", scan.Pos(), n == 1, fmt.Sprintf("%d stores into the range", n))
			it := c.CallsD(scan, "*.Iter("+rng+", *)")
			c.ArgIs(scan, "permanent by-height scan runs from the newest record downwards", it, 1, 2, "false")
			if len(it) == 1 {
				if mc, ok := CallArg(it[0], 1).(*ssa.MakeClosure); ok {
					cb := mc.Fn.(*ssa.Function)
					c.Exists(cb, "permanent by-height scan stops at the first (newest) record", c.ReturnsD(cb, 0, "false"), 1)
					c.Report(cb, "permanent by-height scan never skips a record", cb.Pos(), len(c.ReturnsD(cb, 0, "true")) == 0, "")
					c.StoredIs(cb, "permanent by-height scan keeps the record's bytes", c.StoresD(cb, "&var:body"), 1, "b")
				}
			}
		}
	}
	// reads never return a state older than the merged one: the permanent state cache drops every
	// state key of a merged block
	if fn := c.Need("isaac/database.(*LeveldbPermanent).mergeTempDatabaseFromLeveldb"); fn != nil {
		c.MP(fn, "merge succeeds only after the state cache dropped the merged block's state keys", c.SuccessReturns(fn), 1, GOk("temp.iterStateKeys(*)"))
		if cl := c.ClosureWithCall(fn, "db.removeStateFromCache(stateKey)"); cl != nil {
			c.Report(cl, "every state key of the merged block is dropped from the cache", cl.Pos(), len(c.ReturnsD(cl, 0, "false")) == 0, "the callback never stops early")
		} else {
			c.Unresolved(fn, "cache purge callback", "not found")
		}
	}
	// R19.5: Center.state — among the temps consulted concurrently the newest holder of the key wins -------
	c.Rule("R19.5", "MustPass")
	if fn := c.Need("isaac/database.(*Center).state"); fn != nil {
		c.Exists(fn, "the newest height found so far starts as NilHeight", c.CallsD(fn, "util.NewLocked(base.NilHeight)"), 1)
		if cb := c.Need("isaac/database.(*Center).state$1$1"); cb != nil {
			// returns that replace the remembered height: second result nil
			var replace, keep []ssa.Instruction
			for _, r := range Returns(cb) {
				if len(r.Results) != 2 {
					continue
				}
				if c.D(RetVal(r, 1)) == "nil" {
					replace = append(replace, r)
				} else {
					keep = append(keep, r)
				}
			}
			c.Exists(cb, "a return that records the answering temp's height", replace, 1)
			for _, r := range replace {
				d := c.D(RetVal(r.(*ssa.Return), 0))
				c.Report(cb, "the remembered height is replaced only by the answering temp's height (never reset)", c.InstrPos(r), d == "p.Height()", d)
			}
			c.MP(cb, "the remembered height is replaced only by a newer temp", replace, 1, GCmp("p.Height()", ">", "old"))
			c.MP(cb, "the remembered height is replaced only if that temp holds the key", replace, 1, GTrue("call(f)(key, p)#0"))
			c.MP(cb, "the remembered height is replaced only if the lookup did not fail", replace, 1, GNil("call(f)(key, p)#1"))
			c.MP(cb, "a temp is asked only if it is newer than the newest holder found", c.CallsD(cb, "call(f)(key, p)"), 1, GCmp("p.Height()", ">", "old"))
			for _, r := range keep {
				d := c.D(RetVal(r.(*ssa.Return), 1))
				ok := d == "util.ErrLockedSetIgnore" || P("call(f)(key, p)#1").Match(d)
				c.Report(cb, "every other exit leaves the remembered height as it is (ignore) or hands the lookup error on", c.InstrPos(r), ok, d)
			}
		}
		if mid := c.Need("isaac/database.(*Center).state$1"); mid != nil {
			c.MP(mid, "the dig goes on only if recording did not fail", c.ReturnsD(mid, 0, "true"), 1, GNil("*.Set(func:isaac/database.(*Center).state$1$1)#1"))
		}
	}
}

// keyBuilderRules (shared by C19, C20, C22, C23, C24 under the caller's current rule): every
// leveldb key builder of isaac/database puts each of its parameters into the key *in full* — as
// P.Bytes(), as P itself (string / byte slice), as P.Hash().Bytes(), through another key builder
// called with P, or, for a bool flag, by branching on it — under a prefix constant, and no two
// builders share a prefix constant except the tabled prefix/key pairs.
func keyBuilderRules(c *Ctx) {
	var fns []*ssa.Function
	for _, f := range c.FuncsWithPrefix("isaac/database.leveldb") {
		if f.Parent() != nil || f.Signature.Results().Len() != 1 || f.Signature.Results().At(0).Type().String() != "[]byte" {
			continue
		}
		fns = append(fns, f)
	}
	sort.Slice(fns, func(i, j int) bool { return c.FuncKey(fns[i]) < c.FuncKey(fns[j]) })
	if !c.Floor(nil, "leveldb key builders", len(fns), 18) {
		return
	}
	sharedOK := map[string]bool{ // builders that deliberately build a prefix of another builder's keys
		"isaac/database.leveldbNewOperationOrderedKeyPrefix": true,
	}
	prefixOf := map[string][]string{}
	for _, fn := range fns {
		c.touch(fn)
		rets := Returns(fn)
		if len(rets) == 0 {
			continue
		}
		for _, prm := range fn.Params {
			name := c.D(prm)
			full := []string{name + ".Bytes()", name + ".Hash().Bytes()", "isaacdatabase.leveldb*(" + name + ")", "isaacdatabase.leveldb*(" + name + ", *)"}
			ok := true
			for _, r := range rets {
				v := RetVal(r, 0)
				dep := false
				for _, pat := range full {
					if c.DependsOnD(v, pat) {
						dep = true
					}
				}
				switch t := prm.Type().Underlying().(type) {
				case *types.Basic:
					if t.Kind() == types.Bool {
						dep = dep || len(c.condsMatching(fn, name)) > 0
					}
					if t.Info()&types.IsString != 0 {
						dep = dep || c.DependsOn(v, func(x ssa.Value) bool { return x == ssa.Value(prm) })
					}
				case *types.Slice:
					dep = dep || c.DependsOn(v, func(x ssa.Value) bool { return x == ssa.Value(prm) })
				}
				if !dep {
					ok = false
				}
			}
			c.Report(fn, "key carries parameter "+name+" in full", fn.Pos(), ok, "accepted: "+strings.Join(full[:2], ", ")+", the value itself (string/bytes), a flag branch, another key builder")
		}
		// prefix constants
		var pfx []string
		seen := map[string]bool{}
		for _, r := range rets {
			for x := range c.BackSlice(RetVal(r, 0)) {
				if g, ok := x.(*ssa.Global); ok && strings.Contains(g.Name(), "leveldbKey") && !seen[g.Name()] {
					seen[g.Name()] = true
					pfx = append(pfx, g.Name())
				}
				if u, ok := x.(*ssa.UnOp); ok {
					if g, ok := u.X.(*ssa.Global); ok && strings.Contains(g.Name(), "leveldbKey") && !seen[g.Name()] {
						seen[g.Name()] = true
						pfx = append(pfx, g.Name())
					}
				}
			}
		}
		sort.Strings(pfx)
		callsBuilder := len(c.CallsD(fn, "isaacdatabase.leveldb*(*)")) > 0
		c.Report(fn, "key lives under exactly one prefix constant (or extends another builder's key)", fn.Pos(), len(pfx) == 1 || (len(pfx) == 0 && callsBuilder), strings.Join(pfx, ", "))
		if !sharedOK[c.FuncKey(fn)] {
			for _, g := range pfx {
				prefixOf[g] = append(prefixOf[g], c.FuncKey(fn))
			}
		}
	}
	var gs []string
	for g := range prefixOf {
		gs = append(gs, g)
	}
	sort.Strings(gs)
	for _, g := range gs {
		c.Report(nil, "prefix constant "+g+" belongs to one key builder", 0, len(prefixOf[g]) == 1, strings.Join(prefixOf[g], ", "))
	}
}

// stateCacheOwnershipRule (shared by C19 and C20): see the comment inside.
func stateCacheOwnershipRule(c *Ctx, rule string) {
	// R19.8: a state cache belongs to one block: the cache handed to a block writer is not shared with the
	// writers of other heights (setState overwrites without comparing heights, and reads answer from it first)
	c.Rule(rule, "Ownership")
	if fn := c.Need("launch.purgeStateCacheFunc"); fn != nil {
		shared := false
		for _, f := range WithClosures(fn) {
			if f == fn {
				continue
			}
			// the closure that hands out caches reuses a cache created once (sync.Once / captured variable)
			if len(c.CallsD(f, "*.Do(*)")) > 0 {
				shared = true
			}
		}
		c.Report(fn, "every block writer of an import range gets a state cache of its own", fn.Pos(), !shared,
			"one LFU cache is created once and handed (wrapped) to every block writer of the range: the last writer of a key wins whatever its height, and mergeTempCaches plants it in the permanent cache")
	}
}

// permStateCacheLockRule (R19.9): a permanent database's State() fills the state cache with what it
// read from storage. The merge replaces the stored state and then drops the key from the cache, all
// under the database's merge lock; a reader that read before the merge and caches after it puts the
// replaced state back, and every later State() answers it. Read and cache-fill therefore happen
// under that same lock (read mode suffices).
func permStateCacheLockRule(c *Ctx, rule string) {
	c.Rule(rule, "LockHeld")
	for _, t := range []struct{ typ, get string }{
		{"LeveldbPermanent", "(*storage/leveldb.PrefixStorage).Get"},
		{"RedisPermanent", "(*storage/redis.Storage).Get"},
	} {
		merge := c.Need("isaac/database.(*" + t.typ + ").MergeTempDatabase")
		state := c.Need("isaac/database.(*" + t.typ + ").State")
		if merge == nil || state == nil {
			continue
		}
		// the lock the merge works under
		var mergeLocks []string
		mst := c.LockStates(merge, nil)
		for _, in := range c.CallsTo(merge, "(*isaac/database."+t.typ+").mergeTempDatabaseFromLeveldb") {
			for k, v := range mst[in] {
				if v >= LW {
					mergeLocks = append(mergeLocks, k)
				}
			}
		}
		sort.Strings(mergeLocks)
		if !c.Floor(merge, "write locks held by the merge", len(mergeLocks), 1) {
			continue
		}
		var targets []ssa.Instruction
		gets := c.CallsTo(state, t.get)
		fills := c.CallsTo(state, "(*isaac/database.basePermanent).setStateToCache")
		c.Exists(state, t.typ+".State reads the storage", gets, 1)
		c.Exists(state, t.typ+".State fills the state cache", fills, 1)
		targets = append(append(targets, gets...), fills...)
		sst := c.LockStates(state, nil)
		for _, in := range targets {
			ok := false
			for _, k := range mergeLocks {
				if sst[in][k] >= LR {
					ok = true
				}
			}
			what := "storage read"
			if callCommon(in) != nil && strings.HasSuffix(CalleeFullName(callCommon(in)), "setStateToCache") {
				what = "cache fill"
			}
			c.Report(state, t.typ+".State: "+what+" under the merge lock", c.InstrPos(in), ok,
				"merge lock "+strings.Join(mergeLocks, ",")+"; held on every path: "+stateStr(sst[in]))
		}
	}
}

// lastProofHeightRule (R19.10): Center.LastSuffrageProofBytes answers, beside the proof, the last
// block height of the node (the handler sends it to peers as such). It walks the databases from
// the newest to the permanent one until one holds a proof; the height it answers must be the
// newest database's, not the height of whichever older database held the proof: a height taken
// from the walked database is used only for the first one (or only to raise the answer).
func lastProofHeightRule(c *Ctx, rule string) {
	c.Rule(rule, "MustPass")
	fn := c.Need("isaac/database.(*Center).LastSuffrageProofBytes")
	if fn == nil {
		return
	}
	var hs []ssa.Instruction
	for _, in := range c.CallsTo(fn, "(base.Manifest).Height") {
		if strings.Contains(c.D(in.(ssa.Value)), "[ι].LastBlockMap()") {
			hs = append(hs, in)
		}
	}
	if len(hs) == 0 {
		// the height does not come from the walked databases at all (e.g. from Center.LastBlockMap): nothing to order
		c.Report(fn, "last height is not taken from the walked databases", fn.Pos(), true, "")
		return
	}
	for _, h := range hs {
		d := globEscape(c.D(h.(ssa.Value)))
		c.MP(fn, "the height of a walked database is taken only from the newest one (or only raises the answer)", []ssa.Instruction{h}, 1,
			GCmp("ι", "==", "0"), GCmp("ι", "<", "1"), GCmp(d, ">", "*"), GCmp("*", "<", d))
	}
}
