package main

import (
	"strings"
	"golang.org/x/tools/go/ssa"
)

func init() {
	Register(&Property{
		ID: "C18",
		Decides: "(R18.1) in SuffrageStateBuilder.prove the slot index computed from a remote proof's suffrage height is tested to be within [0, len) before the slot store (a negative index panics inside a worker goroutine), and every neighbour access is guarded; " +
			"(R18.2) a proof fetched for a suffrage height is used only if its own suffrage height equals the requested one, was found and fetched without error; " +
			"(R18.3) every fetched proof is proved against the local previous state (slot 0) or its stored neighbours under the prove lock; the remote's last proof is validated before anything is built on it; Build reports success only after the batch build succeeded, and BatchWork drops no batch's error; " +
			"(R18.4) the proofs of a finished batch are handed over before the batch list is replaced (the returned chain covers all batches).; (R18.6) a fetched proof, the remote's last proof and a state's previous hash are used as receivers only after a nil test; (R18.7) Build hands out the proved batch list only if its last element is the remote's last proof, and appends nothing unproved A non-genesis proof links to the previous state only through a previous hash that is present and equal.",
		NotDecided: "panics inside the remote proofs' own methods for malformed objects (they are decoded and validated by the network client); the fixed-tree proof itself (C12/C13).",
		Run:        runC18,
	})
}

func runC18(c *Ctx) {
	// R18.6 "never crashes": values that come from a remote are used as receivers only after a nil test
	c.Rule("R18.6", "NilGuard")
	if parent := c.Need("isaac.(*SuffrageStateBuilder).buildBatch"); parent != nil {
		n := 0
		for _, f := range WithClosures(parent) {
			fetched := "call(s.getSuffrageProof)(ctx, *)#0"
			uses := c.CallsD(f, fetched+".SuffrageHeight()")
			if len(uses) == 0 || len(c.CallsD(f, "call(s.getSuffrageProof)(ctx, *)")) == 0 {
				continue // nested closures work on the value the fetching closure already tested
			}
			n += len(uses)
			c.MP(f, "a fetched proof is used only after a nil test", uses, 1, GNonNil(fetched))
		}
		c.Floor(parent, "uses of a fetched proof", n, 1)
	}
	if fn := c.Need("isaac.(*SuffrageStateBuilder).Build"); fn != nil {
		last := "call(s.lastSuffrageProof)(ctx)#1"
		c.MP(fn, "the remote's last proof is used only after a nil test", c.CallsD(fn, last+".IsValid(s.networkID)"), 1, GNonNil(last))
		// R18.7: what Build hands out is the proved chain: the remote's last proof is only compared with the
		// proved proof of its height, never appended unproved
		c.Rule("R18.7", "MustPass")
		var out []ssa.Instruction
		for _, r := range Returns(fn) {
			if len(r.Results) == 4 && c.D(RetVal(r, 1)) != "nil" {
				out = append(out, r)
			}
		}
		batch := "s.buildBatch(ctx, localstate, " + last + ".State(), *)#0"
		c.MP(fn, "proofs are handed out only if the last proved proof is the remote's last proof (or nothing was built)", out, 1,
			GTrue(batch+"[*].State().Hash().Equal("+last+".State().Hash())"), GFalse("φ(*)"), GFalse(last+"#2"), GFalse("call(s.lastSuffrageProof)(ctx)#2"))
		for _, r := range out {
			d := c.D(RetVal(r.(*ssa.Return), 1))
			c.Report(fn, "the list handed out is the proved batch list itself (nothing appended unproved)", c.InstrPos(r),
				!strings.Contains(d, "append("), d)
		}
	}
	if fn := c.Need("isaac/block.(SuffrageProof).Prove"); fn != nil {
		c.Rule("R18.6", "NilGuard")
		c.MP(fn, "the state's previous hash is used only after a nil test", c.CallsD(fn, "s.st.Previous().Equal(*)"), 1, GNonNil("s.st.Previous()"))
		// a proof links to the previous state only through a previous hash that is there and equal: a state
		// without a previous hash proves nothing about its predecessor
		succ := c.SuccessReturns(fn)
		link := []Gate{GCmp("s.m.Manifest().Height()", "==", "base.GenesisHeight"), GCmp("s.m.Manifest().Height()", "<=", "base.GenesisHeight")}
		c.MP(fn, "non-genesis proof: success only with a previous hash", succ, 1, append(link, GNonNil("s.st.Previous()"))...)
		c.MP(fn, "non-genesis proof: success only if the previous hash is the previous state's", succ, 1, append(link, GTrue("s.st.Previous().Equal(previousState.Hash())"))...)
	}
	builderProveRules(c, "R18.1", "R18.3")
	if parent := c.Need("isaac.(*SuffrageStateBuilder).buildBatch"); parent != nil {
		req := "(i + from)"
		fetched := "call(s.getSuffrageProof)(ctx, " + req + ")"
		if job := c.ClosureWithCall(parent, "call(s.getSuffrageProof)(*)"); job != nil {
			c.Rule("R18.2", "MustPass")
			succ := c.SuccessReturns(job)
			c.MP(job, "job success: proof is of the requested suffrage height", succ, 1, GCmp(fetched+"#0.SuffrageHeight()", "==", req))
			c.MP(job, "job success: proof found", succ, 1, GTrue(fetched+"#1"))
			c.MP(job, "job success: proof fetched", succ, 1, GOk(fetched))
			if inner := c.ClosureWithCall(job, "s.prove(*)"); inner != nil {
				c.Rule("R18.3", "MustPass")
				pv := c.CallsD(inner, "s.prove(*)")
				c.ArgIs(inner, "the fetched proof is proved", pv, 1, 0, fetched+"#0")
				c.ArgIs(inner, "proved into the shared batch slots", pv, 1, 1, "var:proofs")
				c.ArgIs(inner, "proved against the batch's previous-state anchor", pv, 1, 2, "var:previous")
				c.Held(inner, nil, "prove under the prove lock", pv, 1, "&var:provelock", LW)
				np := c.StoresD(inner, "&var:newprev")
				c.MP(inner, "anchor moves only after the proof was proved", np, 1, GOk("s.prove(*)"))
				c.MP(inner, "anchor moves only to the batch's last height", np, 1, GCmp("("+fetched+"#0.SuffrageHeight() - from).Int64()", "==", "last"))
				c.StoredIs(inner, "anchor becomes the proved proof's state", np, 1, fetched+"#0.State()")
				c.MP(inner, "inner success: proved", c.SuccessReturns(inner), 1, GOk("s.prove(*)"))
				c.MP(job, "job success: proved", succ, 1, GOk("call("+c.FuncKey(inner)+")()"))
			}
		}
		batchWorkErrRules(c, "R18.3")
		c.Rule("R18.3", "MustPass")
		c.MP(parent, "batch build success: BatchWork succeeded", c.SuccessReturns(parent), 1, GOkTo("util.BatchWork"))
		bw := c.CallsTo(parent, "util.BatchWork")
		c.ArgIs(parent, "range is from the next local height to the last proof's suffrage height", bw, 1, 1, "((base.LoadSuffrageNodesStateValue(last)#0.Height() - from).Int64() + 1)")
		if pref := c.ClosureWithStore(parent, "&var:previous"); pref != nil {
			c.StoredIs(pref, "batch start: anchor of this batch is the previous batch's last state", c.StoresD(pref, "&var:previous"), 1, "var:newprev")
			// R18.4: previous batch handed over before the list is replaced
			c.Rule("R18.4", "MustPass")
			repl := c.StoresD(pref, "&var:proofs")
			c.MP(pref, "batch list replaced only after the finished batch's proofs were handed over", repl, 2,
				GCalled("append(*, var:proofs*)"), GNil("var:proofs"), GStoredVal("append(*var:proofs*)"))
		}
		c.Rule("R18.3", "MustPass")
		c.StoredIs(parent, "first anchor is the local state", firstStore(c, parent, "&var:newprev"), 1, "localstate")
	}
	// R18.5: what the builder calls on remote proofs does not dereference a nil previous state
	c.Rule("R18.5", "MustPass")
	if fn := c.Need("isaac/block.(SuffrageProof).Prove"); fn != nil {
		var derefs []ssa.Instruction
		for _, in := range allInstrs(fn) {
			if cc := callCommon(in); cc != nil && cc.IsInvoke() && c.D(cc.Value) == "previousState" {
				derefs = append(derefs, in)
			}
		}
		c.MP(fn, "Prove dereferences the previous state only after a nil test (the builder passes nil from genesis)", derefs, 2, GNonNil("previousState"))
	}
	if fn := c.Need("isaac.(*SuffrageStateBuilder).Build"); fn != nil {
		c.Rule("R18.3", "MustPass")
		bb := c.CallsD(fn, "s.buildBatch(*)")
		last := "call(s.lastSuffrageProof)(ctx)"
		c.MP(fn, "history built only on a validated last proof", bb, 1, GOk(last+"#1.IsValid(s.networkID)"))
		c.MP(fn, "history built only if the last proof was fetched", bb, 1, GOk(last))
		// nothing is read from the remote's last proof before it was validated
		var uses []ssa.Instruction
		for _, in := range allInstrs(fn) {
			if cc := callCommon(in); cc != nil && cc.IsInvoke() && c.D(cc.Value) == last+"#1" && cc.Method.Name() != "IsValid" {
				uses = append(uses, in)
			}
		}
		c.MP(fn, "the remote's last proof is used only after IsValid succeeded", uses, 2, GOk(last+"#1.IsValid(s.networkID)"))
		c.ArgIs(fn, "history built from the local state", bb, 1, 1, "localstate")
		c.ArgIs(fn, "history built up to the last proof's state", bb, 1, 2, last+"#1.State()")
		succ := c.SuccessReturns(fn)
		c.MP(fn, "success: batch build succeeded (when something new exists)", succ, 1, GOk("s.buildBatch(*)"), GFalse(last+"#2"), GFalse("φ(*)"))
		c.MP(fn, "success: last proof fetched", succ, 1, GOk(last))
	}
}

// GStoredVal: ordering gate — a store whose value descriptor matches pat has been executed.
func GStoredVal(valPat string) Gate {
	pp := P(valPat)
	return Gate{Name: "store of " + valPat + " executed", Barrier: func(p *Prog, in ssa.Instruction) bool {
		st, ok := in.(*ssa.Store)
		return ok && pp.Match(p.D(st.Val))
	}}
}

// builderProveRules: slot discipline and neighbour proving of SuffrageStateBuilder.prove (shared by
// C13 — proofs are accepted only if they follow the previous state — and C18).
func builderProveRules(c *Ctx, boundsRule, proveRule string) {
	idx := "((proof.SuffrageHeight() - φ(base.LoadSuffrageNodesStateValue(previous)#0.Height()|base.NilHeight)) - 1).Int64()"
	c.Rule(boundsRule, "BoundsGuard")
	if fn := c.Need("isaac.(*SuffrageStateBuilder).prove"); fn != nil {
		st := c.StoresD(fn, "&proofs["+idx+"]")
		c.MP(fn, "slot store: index >= 0", st, 1, GCmp(idx, ">=", "0"))
		c.MP(fn, "slot store: index < len(proofs)", st, 1, GCmp(idx, "<", "len(proofs)"))
		c.StoredIs(fn, "slot takes the fetched proof", st, 1, "proof")
		// neighbour reads
		var reads []ssa.Instruction
		for _, in := range allInstrs(fn) {
			if ia, ok := in.(*ssa.IndexAddr); ok && c.D(ia.X) == "proofs" && ssa.Instruction(ia) != nil {
				if refs := ia.Referrers(); refs != nil {
					isStore := false
					for _, r := range *refs {
						if s, ok := r.(*ssa.Store); ok && s.Addr == ssa.Value(ia) {
							isStore = true
						}
					}
					if !isStore {
						reads = append(reads, in)
					}
				}
			}
		}
		if c.Exists(fn, "neighbour slot reads", reads, 2) {
			for _, in := range reads {
				d := c.D(in.(*ssa.IndexAddr).Index)
				switch d {
				case "(" + idx + " - 1)":
					c.MP(fn, "predecessor slot read only for index > 0", []ssaInstr{in}, 1, GCmp(idx, ">", "0"))
				case "(" + idx + " + 1)":
					c.MP(fn, "successor slot read only inside the slice", []ssaInstr{in}, 1, GCmp("("+idx+" + 1)", "<", "len(proofs)"))
				default:
					c.Report(fn, "neighbour slot read at a tabled offset", c.InstrPos(in), false, d)
				}
			}
		}
		// R18.3 inside prove
		c.Rule(proveRule, "MustPass")
		succ := c.SuccessReturns(fn)
		c.MP(fn, "success: first slot proved against the local previous state", succ, 1, GCmp(idx, "!=", "0"), GOk("proof.Prove(previous)"))
		c.MP(fn, "success: proved against the stored predecessor", succ, 1, GCmp(idx, "<=", "0"), GNil("proofs[("+idx+" - 1)]"),
			GOk("proof.Prove(proofs[("+idx+" - 1)].State())"))
		c.MP(fn, "success: the stored successor proved against it", succ, 1, GCmp("("+idx+" + 1)", ">=", "len(proofs)"), GNil("proofs[("+idx+" + 1)]"),
			GOk("proofs[("+idx+" + 1)].Prove(proof.State())"))
		c.MP(fn, "success: slot stored", succ, 1, GStored("&proofs["+idx+"]"))
	}
}
