package main

import (
	"golang.org/x/tools/go/ssa"
)

func init() {
	Register(&Property{
		ID: "C14",
		Decides: "(R14.1) IsValidMaps stores a map only at an index tested to be within [0, len) and links it to the given previous map (index 0) or to each stored neighbour through IsValidManifests, which compares Previous() with the neighbour's hash; " +
			"(R14.2) the batch job validates and updates the shared batch state only under the validate lock, hands a map to the callback only after it validated, and moves the previous-map anchor only to the batch's last height; " +
			"(R14.3) BatchWork calls the batch preparation before running the batch's jobs, in both of its branches, and reports success only if the jobs of every batch succeeded; (R14.4) a fetched map is accepted only if its height equals the requested height.",
		NotDecided: "completeness ('exactly') for every arrival order and batch size — that all neighbour links are eventually tested follows from the slot logic over runtime indices, which is not decided here.",
		Run:        runC14,
	})
}

func runC14(c *Ctx) {
	idx := "((m.Manifest().Height() - φ(base.NilHeight|previous.Manifest().Height())) - 1).Int64()"
	c.Rule("R14.1", "MustPass")
	if fn := c.Need("base.IsValidMaps"); fn != nil {
		st := c.StoresD(fn, "&maps["+idx+"]")
		c.MP(fn, "slot store: index >= 0", st, 1, GCmp(idx, ">=", "0"))
		c.MP(fn, "slot store: index < len(maps)", st, 1, GCmp(idx, "<", "len(maps)"))
		c.StoredIs(fn, "slot takes the map being validated", st, 1, "m")
		succ := c.SuccessReturns(fn)
		c.MP(fn, "success: slot stored", succ, 1, GStored("&maps["+idx+"]"))
		c.MP(fn, "success: first of the batch links to the given previous map (unless genesis)", succ, 1,
			GCmp(idx, "!=", "0"), GCmp("m.Manifest().Height()", "==", "base.GenesisHeight"),
			GOk("base.IsValidManifests(m.Manifest(), previous.Manifest().Hash())"))
		c.MP(fn, "success: links to the stored predecessor", succ, 1,
			GCmp(idx, "==", "0"), GNil("maps[("+idx+" - 1)]"),
			GOk("base.IsValidManifests(m.Manifest(), maps[("+idx+" - 1)].Manifest().Hash())"))
		c.MP(fn, "success: the stored successor links to it", succ, 1,
			GCmp("("+idx+" + 1)", ">=", "len(maps)"), GNil("maps[("+idx+" + 1)]"),
			GOk("base.IsValidManifests(maps[("+idx+" + 1)].Manifest(), m.Manifest().Hash())"))
	}
	if fn := c.Need("base.IsValidManifests"); fn != nil {
		c.MP(fn, "manifests link: Previous() equals the given hash", c.SuccessReturns(fn), 1,
			GTrue("m.Previous().Equal(previous)"), GTrue("previous.Equal(m.Previous())"))
	}
	// R14.2 / R14.4 ------------------------------------------------------------------------------
	if parent := c.Need("base.BatchIsValidMaps"); parent != nil {
		req := "((var:prevheight + i) + 1)"
		m := "call(blockMapf)(ctx, " + req + ")#0"
		if job := c.ClosureWithCall(parent, "call(blockMapf)(*)"); job != nil {
			c.Rule("R14.4", "MustPass")
			succ := c.SuccessReturns(job)
			c.MP(job, "job success: fetched map is for the requested height", succ, 1,
				GCmp(m+".Manifest().Height()", "==", req))
			c.Rule("R14.2", "MustPass")
			c.MP(job, "job success: fetch succeeded", succ, 1, GOk("call(blockMapf)(ctx, "+req+")"))
			cb := c.CallsD(job, "call(callback)(*)")
			c.ArgIs(job, "callback gets the fetched map", cb, 1, 0, m)
			inner := c.ClosureWithCall(job, "base.IsValidMaps(*)")
			if inner != nil {
				c.MP(job, "callback only after the map validated", cb, 1, GOk("call("+c.FuncKey(inner)+")()"))
				v := c.CallsTo(inner, "base.IsValidMaps")
				c.ArgIs(inner, "validated map is the fetched one", v, 1, 0, m)
				c.ArgIs(inner, "validated against the shared batch slots", v, 1, 1, "var:maps")
				c.ArgIs(inner, "validated against the batch's previous-map anchor", v, 1, 2, "var:lastprev")
				c.Held(inner, nil, "validation under the validate lock", v, 1, "&var:validateLock", LW)
				np := c.StoresD(inner, "&var:newprev")
				c.Held(inner, nil, "anchor update under the validate lock", np, 1, "&var:validateLock", LW)
				c.MP(inner, "anchor moves only after validation", np, 1, GOkTo("base.IsValidMaps"))
				c.MP(inner, "anchor moves only to the batch's last height", np, 1, GCmp(m+".Manifest().Height()", "==", "((var:prevheight + last) + 1)"))
				c.StoredIs(inner, "anchor becomes the validated map", np, 1, m)
				c.MP(inner, "inner success: validated", c.SuccessReturns(inner), 1, GOkTo("base.IsValidMaps"))
			}
		}
		if pref := c.ClosureWithStore(parent, "&var:lastprev"); pref != nil {
			c.Rule("R14.2", "MustPass")
			c.StoredIs(pref, "batch start: anchor of this batch is the previous batch's last map", c.StoresD(pref, "&var:lastprev"), 1, "var:newprev")
			c.Exists(pref, "batch start: fresh slots", c.StoresD(pref, "&var:maps"), 2)
		}
		bw := c.CallsTo(parent, "util.BatchWork")
		c.ArgIs(parent, "range size is to - previous height", bw, 1, 1, "(to - var:prevheight).Int64()")
		c.ArgIs(parent, "batch limit handed on", bw, 1, 2, "batchlimit")
		c.MP(parent, "success: BatchWork succeeded", c.SuccessReturns(parent), 1, GOkTo("util.BatchWork"))
		c.StoredIs(parent, "first anchor is the given previous map", firstStore(c, parent, "&var:newprev"), 1, "prev")
	}
	// R14.3 ------------------------------------------------------------------------------------
	batchWorkErrRules(c, "R14.3")
	c.Rule("R14.3", "MustPass")
	if fn := c.Need("util.BatchWork"); fn != nil {
		runs := c.CallsTo(fn, "util.RunJobWorker")
		if c.Floor(fn, "RunJobWorker calls", len(runs), 2) {
			c.MP(fn, "single batch: preparation before the jobs", runs[:1], 1, GOk("call(pref)(ctx, (size - 1))"))
			c.MP(fn, "batches: preparation of this batch before its jobs", runs[1:], 1, GOk("call(pref)(ctx, (* - 1))"))
		}
		c.MP(fn, "success: positive size", c.SuccessReturns(fn), 1, GCmp("size", ">=", "1"))
		if len(runs) >= 2 {
			c.MP(fn, "single-batch path exactly for size <= limit", runs[:1], 1, GCmp("size", "<=", "limit"))
			c.MP(fn, "batched path exactly for size > limit", runs[1:], 1, GCmp("size", ">", "limit"))
			c.ArgIs(fn, "single batch runs all size jobs", runs[:1], 1, 2, "size")
		}
	}
}

func firstStore(c *Ctx, fn *ssa.Function, addrPat string) []ssa.Instruction {
	s := c.StoresD(fn, addrPat)
	if len(s) > 1 {
		return s[:1]
	}
	return s
}
