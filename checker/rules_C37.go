package main

import (
	"go/types"
	"fmt"
	"strings"

	"golang.org/x/tools/go/ssa"
)

func init() {
	Register(&Property{
		ID: "C37",
		Decides: "(R37.1) lookup: Get hands out a member only together with found=true and answers not-found only if the address table has no (non-nil) entry; every address-table access keys on memberid(address) and every per-node access on the node address string; " +
			"(R37.2) join: the per-node list written by Set derives from the node's current list, keeps an existing entry only if its member id differs from the joining member's, and appends the joining member once, after that filter; the address entry and the per-node list are written in one critical section of the address table; " +
			"(R37.4) every join and leave of the pool runs under the memberlist's joinedLock (the per-node list is read-modify-written inside the address shard's lock only); (R37.3) leave: Remove rewrites the node's list keeping exactly the entries whose member id differs from the leaving member's, removes the node entry only if nothing is left, and touches the per-node table only if the address entry was found.; (R37.e) Empty clears every table of the pool memberid keys on the whole IP and the port.",
		NotDecided: "linearizability of the two tables together (the per-node table is updated inside the address table's shard lock, other shards run in parallel); Empty() racing with Set().",
		Run:        runC37,
	})
}

func runC37(c *Ctx) {
	// the address key carries the whole IP and the port: two different addresses never share a key
	c.Rule("R37.1", "KeyTable")
	if fn := c.Need("network/quicmemberlist.memberid"); fn != nil {
		calls := c.CallsTo(fn, "net.JoinHostPort")
		if c.Exists(fn, "memberid joins host and port", calls, 1) {
			for _, in := range calls {
				host, port := CallArg(in, 0), CallArg(in, 1)
				okHost := true
				var leaves []string
				if phi, ok := host.(*ssa.Phi); ok {
					for _, e := range phi.Edges {
						leaves = append(leaves, c.D(e))
					}
				} else {
					leaves = []string{c.D(host)}
				}
				for _, d := range leaves {
					if d != "\"\"" && d != "addr.IP.String()" {
						okHost = false
					}
				}
				c.Report(fn, "memberid: the host part is the whole IP (or empty for none)", c.InstrPos(in), okHost, strings.Join(leaves, " | "))
				c.Report(fn, "memberid: the port part is the address's port", c.InstrPos(in), c.DependsOnD(port, "addr.Port"), c.D(port))
			}
		}
	}
	// R37.e: Empty (Leave) clears every table of the pool
	c.Rule("R37.e", "Exhaustive")
	if fn := c.Need("network/quicmemberlist.(*membersPool).Empty"); fn != nil {
		for _, f := range structFieldNames(fn.Signature.Recv().Type()) {
			c.Exists(fn, "Empty clears the table "+f, c.CallsD(fn, "m."+f+".Empty()"), 1)
		}
	}
	const MP = "network/quicmemberlist.(*membersPool)."
	// R37.1 --------------------------------------------------------------------------------------
	c.Rule("R37.1", "Lookup")
	if fn := c.Need(MP + "Get"); fn != nil {
		val := "m.addrs.Value(quicmemberlist.memberid(k))"
		for _, r := range Returns(fn) {
			mem, found := c.D(RetVal(r, 0)), c.D(RetVal(r, 1))
			if mem == "nil" {
				c.Report(fn, "no member is answered as not found", c.InstrPos(r), found == "false", found)
				c.MP(fn, "not found only if the table has no entry (or a nil one)", []ssa.Instruction{r}, 1, GFalse(val+"#1"), GNil(val+"#0"))
				continue
			}
			c.Report(fn, "a member is handed out as found", c.InstrPos(r), found == "true" || found == val+"#1", "found result: "+found)
			c.Report(fn, "the member handed out is the table's entry for that address", c.InstrPos(r), mem == val+"#0", mem)
			c.MP(fn, "a member is handed out only if the table has it", []ssa.Instruction{r}, 1, GTrue(val+"#1"))
		}
	}
	// key discipline
	nA, nM := 0, 0
	for _, fn := range c.FuncsWithPrefix(MP) {
		for _, in := range allInstrs(fn) {
			cc := callCommon(in)
			if cc == nil || len(cc.Args) < 2 || !strings.HasPrefix(CalleeFullName(cc), "(*util.ShardedMap[") || strings.HasSuffix(CalleeFullName(cc), ".Traverse") {
				continue
			}
			recv, key := c.D(cc.Args[0]), c.D(cc.Args[1])
			switch recv {
			case "m.addrs":
				nA++
				c.Report(fn, "the address table is keyed by memberid(address)", c.InstrPos(in), strings.HasPrefix(key, "quicmemberlist.memberid("), key)
			case "m.members":
				nM++
				c.Report(fn, "the per-node table is keyed by the node address string", c.InstrPos(in), strings.HasSuffix(key, ".Address().String()") || key == "node.String()", key)
			}
		}
	}
	c.Floor(nil, "keyed accesses of the address table", nA, 4)
	c.Floor(nil, "keyed accesses of the per-node table", nM, 4)
	// R37.2 --------------------------------------------------------------------------------------
	c.Rule("R37.2", "Join")
	if parent := c.Need(MP + "Set"); parent != nil {
		c.Exists(parent, "join runs inside the address table's Set", c.CallsD(parent, "m.addrs.Set(quicmemberlist.memberid(member.Addr()), *)"), 1)
		cl := c.ClosureWithCall(parent, "m.members.SetValue(*)")
		if cl == nil {
			c.Unresolved(parent, "join callback writing the per-node list", "not found")
		} else {
			wr := c.CallsD(cl, "m.members.SetValue(*)")
			cur := "m.members.Value(member.Address().String())#0"
			if len(wr) == 1 {
				v := CallArg(wr[0], 1)
				c.Report(cl, "the written per-node list derives from the node's current list", c.InstrPos(wr[0]), c.DependsOnD(v, cur) || c.DependsOnD(v, "φ("+cur+"|nil)*"), c.D(v))
				c.Report(cl, "the written per-node list contains the joining member", c.InstrPos(wr[0]), c.DependsOnD(v, "member"), c.D(v))
			}
			c.Report(cl, "the per-node list is written once per join", cl.Pos(), len(wr) == 1, fmt.Sprintf("%d writes", len(wr)))
			// existing entries are kept only if they are a different member
			var keepOld, addNew []ssa.Instruction
			for _, in := range c.StoresD(cl, "&var:varargs[0]") {
				d := c.D(in.(*ssa.Store).Val)
				switch {
				case d == "member":
					addNew = append(addNew, in)
				case strings.Contains(d, cur):
					keepOld = append(keepOld, in)
				default:
					c.Report(cl, "only current entries and the joining member enter the list", c.InstrPos(in), false, d)
				}
			}
			if c.Exists(cl, "current entries are filtered", keepOld, 1) {
				elem := c.D(keepOld[0].(*ssa.Store).Val)
				c.MP(cl, "a current entry is kept only if its member id differs from the joining member's", keepOld, 1,
					GCmp("quicmemberlist.memberid("+elem+".Addr())", "!=", "quicmemberlist.memberid(member.Addr())"))
			}
			c.Report(cl, "the joining member is appended once", cl.Pos(), len(addNew) == 1, fmt.Sprintf("%d appends", len(addNew)))
			if len(addNew) == 1 {
				loops := c.Loops(cl, "*")
				inLoop := false
				for _, l := range loops {
					res := reachFromBlock(cl, l.Body, nil)
					hdr := l.Header.Instrs[len(l.Header.Instrs)-1]
					if res.reached[addNew[0]] && reach(cl, addNew[0], nil).reached[hdr] {
						inLoop = true
					}
				}
				c.Report(cl, "the joining member is appended after the filter, not per current entry", c.InstrPos(addNew[0]), !inLoop, "")
			}
			for _, r := range Returns(cl) {
				c.Report(cl, "the address entry becomes the joining member", c.InstrPos(r), c.D(RetVal(r, 0)) == "member" && c.D(RetVal(r, 1)) == "nil", c.D(RetVal(r, 0)))
			}
			c.StoredIs(cl, "`added` means the address was not present", c.StoresD(cl, "&var:added"), 1, "!addrfound")
		}
	}
	// R37.3 --------------------------------------------------------------------------------------
	c.Rule("R37.3", "Leave")
	if parent := c.Need(MP + "Remove"); parent != nil {
		c.Exists(parent, "leave runs inside the address table's Remove", c.CallsD(parent, "m.addrs.Remove(quicmemberlist.memberid(k), *)"), 1)
		var touch []ssa.Instruction
		var filter *ssa.Function
		for _, f := range WithClosures(parent) {
			for _, in := range allInstrs(f) {
				cc := callCommon(in)
				if cc == nil || len(cc.Args) < 1 || c.D(cc.Args[0]) != "m.members" {
					continue
				}
				touch = append(touch, in)
				name := CalleeFullName(cc)
				c.Report(f, "leave never drops the node's whole list unconditionally", c.InstrPos(in), !strings.HasSuffix(name, ".RemoveValue") && !strings.HasSuffix(name, ".Empty"), name)
				c.MP(f, "the per-node table is touched only if the address entry was found", []ssa.Instruction{in}, 1, GTrue("found"))
				if mc, ok := CallArg(in, 1).(*ssa.MakeClosure); ok {
					filter, _ = mc.Fn.(*ssa.Function)
				}
			}
		}
		c.Exists(parent, "leave rewrites the node's list", touch, 1)
		if filter == nil {
			c.Unresolved(parent, "leave: list filter callback", "the per-node table is not updated through a callback")
		} else {
			var keep []ssa.Instruction
			for _, in := range c.StoresD(filter, "&var:varargs[0]") {
				keep = append(keep, in)
			}
			if c.Exists(filter, "leave keeps entries through a filter", keep, 1) {
				elem := c.D(keep[0].(*ssa.Store).Val)
				c.Report(filter, "kept entries come from the node's current list", c.InstrPos(keep[0]), strings.HasPrefix(elem, "members["), elem)
				c.MP(filter, "an entry is kept only if its member id differs from the leaving member's", keep, 1,
					GCmp("quicmemberlist.memberid("+elem+".Addr())", "!=", "quicmemberlist.memberid(i.Addr())"), GCmp("quicmemberlist.memberid("+elem+".Addr())", "!=", "var:id"))
			}
			for _, r := range Returns(filter) {
				if len(r.Results) != 3 {
					continue
				}
				lst, rm := c.D(RetVal(r, 0)), c.D(RetVal(r, 1))
				c.Report(filter, "the node entry is removed exactly if nothing is left", c.InstrPos(r), rm == "(len("+lst+") < 1)" || rm == "(len("+lst+") == 0)", rm)
			}
			// every entry is inspected
			c.ForEach(filter, "every current entry is inspected", "(ι < len(members))", 1,
				GCalled("quicmemberlist.memberid(members[ι].Addr())"))
		}
	}
	// the filter loops look at every current entry before the list is written / answered
	if parent := c.Need(MP + "Set"); parent != nil {
		if cl := c.ClosureWithCall(parent, "m.members.SetValue(*)"); cl != nil {
			for _, l := range c.Loops(cl, "(ι < len(*))") {
				c.MP(cl, "join: the per-node list is written only after the filter loop ran over every current entry", c.CallsD(cl, "m.members.SetValue(*)"), 1, GLoopDone(globEscape(l.Cond)))
			}
		}
	}
	if parent := c.Need(MP + "Remove"); parent != nil {
		for _, f := range WithClosures(parent) {
			for _, l := range c.Loops(f, "(ι < len(members))") {
				var rets []ssa.Instruction
				for _, r := range Returns(f) {
					rets = append(rets, r)
				}
				c.MP(f, "leave: the filtered list is answered only after the loop ran over every current entry", rets, 1, GLoopDone(globEscape(l.Cond)))
			}
		}
	}
	// R37.4 --------------------------------------------------------------------------------------
	// the per-node list is read-modify-written inside the *address* shard's lock, so two addresses of one
	// node are serialised only by the memberlist's joinedLock: every mutation of the pool holds it
	c.Rule("R37.4", "LockHeld")
	nMut := 0
	for _, m := range []string{"Set", "Remove", "Empty"} {
		for _, s := range c.WhoCalls("(*network/quicmemberlist.membersPool)." + m) {
			nMut++
			st := c.LockStates(s.Fn, nil)
			held := st[s.In]["&srv.joinedLock"]
			if m == "Empty" {
				// Empty runs when the local node leaves the memberlist, under the memberlist's own lock
				c.Report(s.Fn, "members pool emptied only while leaving the memberlist, under the memberlist lock", c.InstrPos(s.In),
					strings.HasPrefix(c.FuncKey(s.Fn), "network/quicmemberlist.(*Memberlist).Leave") && st[s.In]["&srv.l"] >= LW || held >= LW, c.FuncKey(s.Fn)+" "+stateStr(st[s.In]))
				continue
			}
			c.Report(s.Fn, "members pool "+m+" runs under the memberlist's join lock", c.InstrPos(s.In), held >= LW, stateStr(st[s.In]))
		}
	}
	c.Floor(nil, "mutations of the members pool", nMut, 3)
	if fn := c.Need(MP + "MembersLen"); fn != nil {
		c.Exists(fn, "the member count of a node is the length of its list", c.ReturnsD(fn, 0, "len(m.members.Value(node.String())#0)"), 1)
	}
}

// structFieldNames: the field names of the (pointed-to) named struct type t.
func structFieldNames(t types.Type) []string {
	st, ok := derefNamed(t).Underlying().(*types.Struct)
	if !ok {
		return nil
	}
	var out []string
	for i := 0; i < st.NumFields(); i++ {
		out = append(out, st.Field(i).Name())
	}
	return out
}
