package main

import (
	"golang.org/x/tools/go/ssa"
)

func init() {
	Register(&Property{
		ID: "C13",
		Decides: "(R13.1) SuffrageProof.Prove succeeds only after the fixed-tree proof was proved for the state's own hash; except at genesis only if the state's previous hash equals the given previous state's hash, the state is higher, the previous state is a suffrage state and the suffrage height is previous+1; at genesis only with a nil previous state and a genesis-height state; IsValid ties the state's height to the manifest's; " +
			"(R13.2) the proof's root (last proof node) is compared with the manifest's states-tree root before success; (R13.3) the suffrage builder proves each fetched proof against the local previous state (first) or its stored neighbours; (R13.5/R13.6) the fixed-tree proof that call relies on (the C12 rules for nodeHash, Proof.Prove and Proof.IsValid) binds the proved key through recomputed hashes to the root.",
		NotDecided: "the parts of the fixed tree not used by a suffrage proof (tree construction and validation, C12); authenticity of the block map's signatures.",
		Run:        runC13,
	})
}

func runC13(c *Ctx) {
	fixedtreeProofRules(c, "R13.5", "R13.6")
	c.Rule("R13.1", "MustPass")
	if fn := c.Need("isaac/block.(SuffrageProof).Prove"); fn != nil {
		succ := c.SuccessReturns(fn)
		genesis := GCmp("s.m.Manifest().Height()", "==", "base.GenesisHeight")
		c.MP(fn, "success: tree proof proved", succ, 1, GOk("s.proof.Prove(s.st.Hash().String())"))
		c.MP(fn, "success: previous hash matches (non-genesis)", succ, 1, genesis,
			GTrue("s.st.Previous().Equal(previousState.Hash())"), GTrue("previousState.Hash().Equal(s.st.Previous())"))
		c.MP(fn, "success: state is higher than the previous state (non-genesis)", succ, 1, genesis, GCmp("s.st.Height()", ">", "previousState.Height()"))
		c.MP(fn, "success: previous state is a suffrage state (non-genesis)", succ, 1, genesis, GOk("isaac.NewSuffrageFromState(previousState)"))
		c.MP(fn, "success: suffrage height is previous + 1 (non-genesis)", succ, 1, genesis,
			GCmp("base.LoadSuffrageNodesStateValue(s.st)#0.Height()", "==", "(base.LoadSuffrageNodesStateValue(previousState)#0.Height() + 1)"))
		c.MP(fn, "success: a previous state is given (non-genesis) — it is dereferenced", succ, 1, genesis, GNonNil("previousState"))
		// every dereference of the previous state is behind the nil test
		var derefs []ssa.Instruction
		for _, in := range allInstrs(fn) {
			if cc := callCommon(in); cc != nil && cc.IsInvoke() && c.D(cc.Value) == "previousState" {
				derefs = append(derefs, in)
			}
		}
		c.MP(fn, "previous state dereferenced only after the nil test", derefs, 2, GNonNil("previousState"))
		notGenesis := GCmp("s.m.Manifest().Height()", "!=", "base.GenesisHeight")
		c.MP(fn, "success: genesis proof has no previous state", succ, 1, notGenesis, GNil("previousState"))
		c.MP(fn, "success: genesis proof has a genesis-height state", succ, 1, notGenesis, GCmp("s.st.Height()", "==", "base.GenesisHeight"))
		// R13.2 root binding
		c.Rule("R13.2", "MustPass")
		c.MP(fn, "success: proof root equals the manifest's states-tree root", succ, 1,
			GTrue("*.Hash().Equal(s.m.Manifest().StatesTree())"), GTrue("s.m.Manifest().StatesTree().Equal(*)"))
	}
	c.Rule("R13.1", "MustPass")
	if fn := c.Need("isaac/block.(SuffrageProof).IsValid"); fn != nil {
		succ := c.SuccessReturns(fn)
		c.MP(fn, "valid: map, state and tree proof valid", succ, 1, GOkTo("util.CheckIsValiders"))
		c.MP(fn, "valid: state height is the manifest's height", succ, 1, GCmp("s.st.Height()", "==", "s.m.Manifest().Height()"))
		c.MP(fn, "valid: state is a suffrage state", succ, 1, GOk("s.Suffrage()"))
		c.MP(fn, "valid: hint type", succ, 1, GOkTo("(util/hint.BaseHinter).IsValid"))
		for i, want := range []string{"s.m", "s.st", "s.proof"} {
			c.StoredIs(fn, "validated part "+want, c.StoresD(fn, "&var:varargs["+string(rune('0'+i))+"]"), 1, want)
		}
	}
	// R13.3
	builderProveRules(c, "R13.3b", "R13.3")
	if fn := c.Need("isaac.(*SuffrageStateBuilder).Build"); fn != nil {
		c.Rule("R13.3", "MustPass")
		// the last proof is validated before anything is built on it
		v := c.CallsD(fn, "*.IsValid(s.networkID)")
		c.Exists(fn, "remote's last proof validated", v, 1)
	}
}
