package main

import (
	"strings"
	"golang.org/x/tools/go/ssa"
)

func init() {
	Register(&Property{
		ID: "C17",
		Decides: "(R17.1) SuffrageJoinProcessor.PreProcess accepts (nil reason, nil error) only if the candidate is a known candidate, its start matches, it is not expired (deadline >= height), it is not already a member, it was not pre-processed in this block, the operation is signed with the candidate's registered key, the constraint function passed and CheckFactSignsBySuffrage passed; the accepted candidate is recorded as pre-processed; " +
			"(R17.2) CheckFactSignsBySuffrage counts a sign only if (node, signer key) is a suffrage member that was not counted before, and succeeds only if the ratio is not below the threshold; node operations reject duplicated sign nodes; " +
			"(R17.3) disjoin is accepted only for a member with matching start, signed with the member's key, not pre-processed and not expelled in this block; expel only for a member within the operation's height window, not pre-processed; candidate registration only for a non-member that is not an unexpired candidate; " +
			"(R17.4) the new suffrage height is the existing height + 1 and new members join at height + 1.; (R17.6) an operation fetched from a remote node for a proposal reaches the processors only after IsValid succeeded and its hash equals the requested one; (R17.7) the merged suffrage state value is built only for a non-empty member list — violated today, known finding",
		NotDecided: "uniqueness of members for every mix of operations (follows from the gates together with map semantics); order independence beyond C10's sorted/filter-only merged slices; exact float arithmetic of the sign ratio at equality (false rejections only).",
		Run:        runC17,
	})
}

// acceptExits: returns of a PreProcess method with nil reason and nil error.
func acceptExits(c *Ctx, fn *ssa.Function) []ssa.Instruction {
	var out []ssa.Instruction
	for _, r := range Returns(fn) {
		if len(r.Results) == 3 && c.D(RetVal(r, 1)) == "nil" && c.D(RetVal(r, 2)) == "nil" {
			out = append(out, r)
		}
	}
	return out
}

func runC17(c *Ctx) {
	// R17.7: the closed value is a suffrage: it keeps at least one member (NewSuffrage refuses an empty
	// node list, so an empty state value can never be turned into a suffrage again)
	c.Rule("R17.7", "MustPass")
	if fn := c.Need("isaac/operation.(*SuffrageJoinStateValueMerger).closeValue"); fn != nil {
		var vals []ssa.Instruction
		for _, r := range Returns(fn) {
			if len(r.Results) == 2 && strings.HasPrefix(c.D(RetVal(r, 0)), "isaac.NewSuffrageNodesStateValue(") {
				vals = append(vals, r)
			}
		}
		for _, r := range vals {
			var gates []Gate
			for _, call := range c.CallsTo(fn, "isaac.NewSuffrageNodesStateValue") {
				list := CallArg(call, 1)
				sizes := []string{"len(" + c.D(list) + ")"}
				if mk, ok := list.(*ssa.MakeSlice); ok {
					sizes = append(sizes, c.D(mk.Len))
				}
				for _, sz := range sizes {
					gates = append(gates, GCmp(globEscape(sz), ">=", "1"), GCmp(globEscape(sz), ">", "0"), GCmp(globEscape(sz), "!=", "0"))
				}
			}
			c.MP(fn, "the new suffrage state value is built only for a non-empty member list", []ssa.Instruction{r}, 1, gates...)
		}
	}
	// R17.6: the processors look only at the (node, key) labels of signs; whoever hands them an
	// operation must have verified it. An operation fetched from a remote node for a proposal is
	// handed on only after IsValid (signatures, duplicated sign nodes) and the hash comparison.
	c.Rule("R17.6", "MustPass")
	if parent := c.Need("launch.getProposalOperationFunc"); parent != nil {
		n := 0
		for _, f := range WithClosures(parent) {
			for _, st := range c.StoresD(f, "&var:op") {
				v := c.D(st.(*ssa.Store).Val)
				if !strings.Contains(v, "getProposalOperationFromRemoteFunc") {
					continue
				}
				n++
				c.MP(f, "a remotely fetched operation is handed on only after IsValid succeeded", []ssa.Instruction{st}, 1, GOk(globEscape(v+".IsValid(var:isaacparams.NetworkID())")))
				c.MP(f, "a remotely fetched operation is handed on only if its hash is the requested one", []ssa.Instruction{st}, 1,
					GTrue(globEscape(v+".Hash().Equal(operationhash)")), GTrue(globEscape("operationhash.Equal("+v+".Hash())")))
			}
		}
		c.Floor(parent, "remote operation hand-overs", n, 1)
	}
	// R17.1 --------------------------------------------------------------------------------------
	c.Rule("R17.1", "MustPass")
	if fn := c.Need("isaac/operation.(*SuffrageJoinProcessor).PreProcess"); fn != nil {
		acc := acceptExits(c, fn)
		cand := "p.candidates[op.Fact().Candidate().String()]"
		n := "op.Fact().Candidate()"
		c.MP(fn, "accept: candidate registered", acc, 1, GTrue(cand+"#1"))
		c.MP(fn, "accept: start matches the registration", acc, 1, GCmp("op.Fact().Start()", "==", cand+"#0.Start()"))
		c.MP(fn, "accept: candidate not expired", acc, 1, GCmp(cand+"#0.Deadline()", ">=", "p.Height()"))
		c.MP(fn, "accept: candidate not already a member", acc, 1, GFalse("p.suffrage.Exists("+n+")"))
		c.MP(fn, "accept: candidate not pre-processed in this block", acc, 1, GFalse("p.preprocessed["+n+".String()]#1"))
		c.MP(fn, "accept: signed by the candidate", acc, 1, GOk("p.findCandidateFromSigns(op)"))
		c.MP(fn, "accept: signed with the candidate's registered key", acc, 1,
			GTrue("p.findCandidateFromSigns(op)#0.Publickey().Equal("+cand+"#0.Publickey())"))
		c.MP(fn, "accept: constraint function passed", acc, 1, GOk("call(p.PreProcessConstraintFunc)(ctx, op, getStateFunc)"))
		c.MP(fn, "accept: constraint function gave no reason", acc, 1, GNil("call(p.PreProcessConstraintFunc)(ctx, op, getStateFunc)#0"))
		c.MP(fn, "accept: enough member signs", acc, 1, GOk("base.CheckFactSignsBySuffrage(p.suffrage, p.threshold, var:noop.NodeSigns())"))
		c.MP(fn, "accept: recorded as pre-processed", acc, 1, GMapUpdated("p.preprocessed"))
		mu := c.MapUpdatesD(fn, "p.preprocessed")
		// a candidate is marked only when it was accepted: a rejected join must not block a later valid one
		c.MP(fn, "marked pre-processed only after the member signs were counted", mu, 1, GOk("base.CheckFactSignsBySuffrage(p.suffrage, p.threshold, var:noop.NodeSigns())"))
		c.MP(fn, "marked pre-processed only after the constraint function passed", mu, 1, GOk("call(p.PreProcessConstraintFunc)(ctx, op, getStateFunc)"))
		c.MP(fn, "marked pre-processed only after the candidate key matched", mu, 1, GTrue("p.findCandidateFromSigns(op)#0.Publickey().Equal("+cand+"#0.Publickey())"))
		if c.Exists(fn, "pre-processed record", mu, 1) {
			k := c.D(mu[0].(*ssa.MapUpdate).Key)
			c.Report(fn, "pre-processed record keyed by the candidate", c.InstrPos(mu[0]), k == cand+"#0.Address().String()" || k == n+".String()", k)
		}
	}
	if fn := c.Need("isaac/operation.(*SuffrageJoinProcessor).findCandidateFromSigns"); fn != nil {
		succ := c.SuccessReturns(fn)
		c.MP(fn, "candidate's sign is the one whose node is the candidate", succ, 1, GTrue("op.Signs()[ι].Node().Equal(*.Candidate())"))
	}
	// R17.2 --------------------------------------------------------------------------------------
	c.Rule("R17.2", "MustPass")
	if fn := c.Need("base.CheckFactSignsBySuffrage"); fn != nil {
		succ := c.SuccessReturns(fn)
		c.MP(fn, "enough signs: ratio not below the threshold", succ, 1, GCmp("((* / suf.Len()) * 100)", ">=", "threshold.Float64()"))
		c.MP(fn, "enough signs: all signs looked at", succ, 1, GLoopDone("(ι < len(signs))"))
		// the counter grows only for member keys
		for _, b := range fn.Blocks {
			for _, in := range b.Instrs {
				phi, ok := in.(*ssa.Phi)
				if !ok || !isFloat(phi.Type()) {
					continue
				}
				var inc []Edge
				for i, e := range phi.Edges {
					if bo, ok := e.(*ssa.BinOp); ok && bo.X == ssa.Value(phi) {
						inc = append(inc, Edge{phi.Block().Preds[i], phi.Block()})
					}
				}
				c.MPEdge(fn, "a sign is counted only if (node, signer) is a suffrage member key", inc, 1,
					GTrue("suf.ExistsPublickey(signs[ι].Node(), signs[ι].Signer())"))
				c.MPEdge(fn, "a sign is counted only if its node was not counted before (distinct members)", inc, 1,
					GFalse("*[signs[ι].Node().String()]#1"), GFalse("*[signs[ι].Node()*]#1"))
			}
		}
	}
	if fn := c.Need("base.(BaseNodeOperation).IsValid"); fn != nil {
		succ := c.SuccessReturns(fn)
		c.MP(fn, "node operation: no duplicated sign node", succ, 1, GFalse("util.IsDuplicatedSlice(op.Signs(), *)"))
		c.MP(fn, "node operation: base operation valid", succ, 1, GOkTo("(base.BaseOperation).IsValid"))
		if cl := c.ClosureWithCall(fn, "util.AssertInterfaceValue(*)"); cl != nil {
			c.Exists(cl, "duplicate key is the sign's node", c.ReturnsD(cl, 1, "util.AssertInterfaceValue(i)#0.Node().String()"), 1)
		}
	}
	// R17.3 --------------------------------------------------------------------------------------
	c.Rule("R17.3", "MustPass")
	if fn := c.Need("isaac/operation.(*SuffrageDisjoinProcessor).PreProcess"); fn != nil {
		acc := acceptExits(c, fn)
		n := "op.Fact().Node()"
		m := "p.suffrage[" + n + ".String()]"
		c.MP(fn, "disjoin accept: node is a member", acc, 1, GTrue(m+"#1"))
		c.MP(fn, "disjoin accept: start matches", acc, 1, GCmp("op.Fact().Start()", "==", m+"#0.Start()"))
		c.MP(fn, "disjoin accept: signed with the member's key", acc, 1, GTrue("*.Signer().Equal("+m+"#0.Publickey())"))
		c.MP(fn, "disjoin accept: not pre-processed in this block", acc, 1, GFalse("p.preprocessed["+n+".String()]#1"))
		c.MP(fn, "disjoin accept: not expelled in this block", acc, 1, GCmp("slices.IndexFunc(*)", "<", "0"))
		c.MP(fn, "disjoin accept: constraint function passed", acc, 1, GOk("call(p.PreProcessConstraintFunc)(ctx, op, getStateFunc)"))
		c.MP(fn, "disjoin accept: recorded as pre-processed", acc, 1, GMapUpdated("p.preprocessed"))
		c.MP(fn, "disjoin: marked pre-processed only after the constraint function passed", c.MapUpdatesD(fn, "p.preprocessed"), 1, GOk("call(p.PreProcessConstraintFunc)(ctx, op, getStateFunc)"))
		c.MP(fn, "disjoin: marked pre-processed only without a rejection reason", c.MapUpdatesD(fn, "p.preprocessed"), 1, GNil("call(p.PreProcessConstraintFunc)(ctx, op, getStateFunc)#0"))
	}
	if fn := c.Need("isaac/operation.(*SuffrageExpelProcessor).PreProcess"); fn != nil {
		acc := acceptExits(c, fn)
		n := "op.Fact().Node()"
		c.MP(fn, "expel accept: node is a member", acc, 1, GTrue("p.suffrage.Exists("+n+")"))
		c.MP(fn, "expel accept: started", acc, 1, GCmp("op.Fact().ExpelStart()", "<=", "p.Height()"))
		c.MP(fn, "expel accept: not expired", acc, 1, GCmp("op.Fact().ExpelEnd()", ">=", "p.Height()"))
		c.MP(fn, "expel accept: not pre-processed in this block", acc, 1, GFalse("p.preprocessed["+n+".String()]#1"))
		c.MP(fn, "expel accept: constraint function passed", acc, 1, GOk("call(p.PreProcessConstraintFunc)(ctx, op, getStateFunc)"))
		c.MP(fn, "expel accept: recorded as pre-processed", acc, 1, GMapUpdated("p.preprocessed"))
		c.MP(fn, "expel: marked pre-processed only after the constraint function passed", c.MapUpdatesD(fn, "p.preprocessed"), 1, GOk("call(p.PreProcessConstraintFunc)(ctx, op, getStateFunc)"))
		c.MP(fn, "expel: marked pre-processed only without a rejection reason", c.MapUpdatesD(fn, "p.preprocessed"), 1, GNil("call(p.PreProcessConstraintFunc)(ctx, op, getStateFunc)#0"))
	}
	if fn := c.Need("isaac/operation.(*SuffrageCandidateProcessor).PreProcess"); fn != nil {
		acc := acceptExits(c, fn)
		a := "op.Fact().Address().String()"
		c.MP(fn, "candidate accept: not a member", acc, 1, GFalse("p.suffrages["+a+"]#1"))
		c.MP(fn, "candidate accept: not pre-processed in this block", acc, 1, GFalse("p.preprocessed["+a+"]#1"))
		c.MP(fn, "candidate accept: not an unexpired candidate", acc, 1, GFalse("p.existings["+a+"]#1"), GCmp("p.Height()", ">", "p.existings["+a+"]#0.Deadline()"))
		c.MP(fn, "candidate accept: constraint function passed", acc, 1, GOk("call(p.PreProcessConstraintFunc)(ctx, op, getStateFunc)"))
	}
	// R17.5 order independence of the merged suffrage changes (shared with C10 R10.4)
	c.Rule("R17.5", "SortedBeforeUse")
	mergerOrderRules(c)
	// R17.4 --------------------------------------------------------------------------------------
	c.Rule("R17.4", "Dependence")
	if fn := c.Need("isaac/operation.(*SuffrageJoinStateValueMerger).closeValue"); fn != nil {
		c.ArgIs(fn, "new suffrage height is the existing height + 1", c.CallsTo(fn, "isaac.NewSuffrageNodesStateValue"), 1, 0, "(s.existing.Height() + 1)")
		c.ArgIs(fn, "new member joins at the block height + 1", c.CallsTo(fn, "isaac.NewSuffrageNodeStateValue"), 1, 1, "(s.Height() + 1)")
		c.ArgIs(fn, "new member is a joined node", c.CallsTo(fn, "isaac.NewSuffrageNodeStateValue"), 1, 0, "s.joined[ι]")
	}
}

// GMapUpdated: ordering gate — an update of a map matching pat has been executed.
func GMapUpdated(mapPat string) Gate {
	pp := P(mapPat)
	return Gate{Name: "update of " + mapPat + " executed", Barrier: func(p *Prog, in ssa.Instruction) bool {
		mu, ok := in.(*ssa.MapUpdate)
		return ok && pp.Match(p.D(mu.Map))
	}}
}
