package main

import (
	"fmt"
	"go/constant"
	"go/types"
	"sort"
	"strings"

	"golang.org/x/tools/go/ssa"
)

// StoredIs: each store's value descriptor must match one of the patterns.
func (c *Ctx) StoredIs(fn *ssa.Function, detail string, stores []ssa.Instruction, floor int, pats ...string) {
	if fn == nil || !c.Floor(fn, detail+" stores", len(stores), floor) {
		return
	}
	for i, in := range stores {
		st, ok := in.(*ssa.Store)
		d := detail
		if len(stores) > 1 {
			d = fmt.Sprintf("%s/%d", detail, i)
		}
		if !ok {
			c.Report(fn, d, c.InstrPos(in), false, "not a store")
			continue
		}
		got := c.D(st.Val)
		c.Report(fn, d, c.InstrPos(in), matchAny(got, pats), "stored value: "+got+"; wanted: "+strings.Join(pats, " | "))
	}
}

// ArgIs: the k-th argument (receiver excluded for method calls; k counts c.Args after the receiver
// for static method calls, all Args for invoke/func calls) of each call must match a pattern.
func (c *Ctx) ArgIs(fn *ssa.Function, detail string, calls []ssa.Instruction, floor int, k int, pats ...string) {
	if fn == nil || !c.Floor(fn, detail+" calls", len(calls), floor) {
		return
	}
	for i, in := range calls {
		d := detail
		if len(calls) > 1 {
			d = fmt.Sprintf("%s/%d", detail, i)
		}
		cc := callCommon(in)
		if cc == nil {
			c.Report(fn, d, c.InstrPos(in), false, "not a call")
			continue
		}
		args := cc.Args
		if !cc.IsInvoke() {
			if f := CalleeOf(cc); f != nil && f.Signature.Recv() != nil && len(args) > 0 {
				args = args[1:]
			}
		}
		if k >= len(args) {
			c.Report(fn, d, c.InstrPos(in), false, fmt.Sprintf("call has %d args, wanted index %d", len(args), k))
			continue
		}
		got := c.D(args[k])
		c.Report(fn, d, c.InstrPos(in), matchAny(got, pats), fmt.Sprintf("arg %d: %s; wanted: %s", k, got, strings.Join(pats, " | ")))
	}
}

func matchAny(s string, pats []string) bool {
	for _, p := range pats {
		if P(p).Match(s) {
			return true
		}
	}
	return false
}

// ReturnsD lists return instructions whose idx-th result descriptor matches pat.
func (p *Prog) ReturnsD(fn *ssa.Function, idx int, pat string) []ssa.Instruction {
	var out []ssa.Instruction
	for _, r := range Returns(fn) {
		if idx < len(r.Results) && P(pat).Match(p.D(RetVal(r, idx))) {
			out = append(out, r)
		}
	}
	return out
}

// AllReturns as instructions.
func AllReturns(fn *ssa.Function) []ssa.Instruction {
	var out []ssa.Instruction
	for _, r := range Returns(fn) {
		out = append(out, r)
	}
	return out
}

// Exists: at least floor instructions exist (structure anchor), reported as one obligation.
func (c *Ctx) Exists(fn *ssa.Function, detail string, ins []ssa.Instruction, floor int) bool {
	if fn == nil {
		return false
	}
	ok := len(ins) >= floor
	pos := fn.Pos()
	if len(ins) > 0 {
		pos = c.InstrPos(ins[0])
	}
	c.Report(fn, detail, pos, ok, fmt.Sprintf("found %d, need >= %d", len(ins), floor))
	return ok
}

// SitesIn filters sites to those inside fn (closures excluded).
func SitesIn(sites []Site, fn *ssa.Function) []ssa.Instruction {
	var out []ssa.Instruction
	for _, s := range sites {
		if s.Fn == fn {
			out = append(out, s.In)
		}
	}
	return out
}

type ssaInstr = ssa.Instruction

// MapUpdatesD lists map-update instructions whose map descriptor matches pat.
func (p *Prog) MapUpdatesD(fn *ssa.Function, pat string) []ssa.Instruction {
	var out []ssa.Instruction
	for _, in := range allInstrs(fn) {
		if mu, ok := in.(*ssa.MapUpdate); ok && P(pat).Match(p.D(mu.Map)) {
			out = append(out, in)
		}
	}
	return out
}

// StringConsts: the string constants in the def-use slice of v (sorted, distinct).
func (p *Prog) StringConsts(v ssa.Value) []string {
	set := map[string]bool{}
	for x := range p.BackSlice(v) {
		if k, ok := x.(*ssa.Const); ok && k.Value != nil && k.Value.Kind() == constant.String {
			set[constant.StringVal(k.Value)] = true
		}
	}
	var out []string
	for s := range set {
		out = append(out, s)
	}
	sort.Strings(out)
	return out
}

// CallArg returns the k-th argument of a call instruction, receiver excluded.
func CallArg(in ssa.Instruction, k int) ssa.Value {
	cc := callCommon(in)
	if cc == nil {
		return nil
	}
	args := cc.Args
	if !cc.IsInvoke() {
		if f := CalleeOf(cc); f != nil && f.Signature.Recv() != nil && len(args) > 0 {
			args = args[1:]
		}
	}
	if k >= len(args) {
		return nil
	}
	return args[k]
}

// InTree: all call sites in the tree matching callee pattern, restricted to functions whose key has
// one of the prefixes.
func (p *Prog) CallsInFuncs(calleePat string, fnPrefixes ...string) []Site {
	var out []Site
	for _, s := range p.WhoCalls(calleePat) {
		k := p.FuncKey(s.Fn)
		for _, pre := range fnPrefixes {
			if strings.HasPrefix(k, pre) {
				out = append(out, s)
				break
			}
		}
	}
	return out
}

// FuncOfGlobal finds the function literal assigned to a package-level variable in its package's
// init (var f = func(...) {...}).
func (p *Prog) FuncOfGlobal(pkgShort, name string) *ssa.Function {
	path := p.Mod + "/" + pkgShort
	sp := p.SPkgs[path]
	if sp == nil {
		return nil
	}
	g, ok := sp.Members[name].(*ssa.Global)
	if !ok {
		return nil
	}
	init := sp.Func("init")
	if init == nil {
		return nil
	}
	for _, in := range allInstrs(init) {
		st, ok := in.(*ssa.Store)
		if !ok || st.Addr != g {
			continue
		}
		switch v := st.Val.(type) {
		case *ssa.MakeClosure:
			if f, ok := v.Fn.(*ssa.Function); ok {
				return f
			}
		case *ssa.Function:
			return v
		}
	}
	return nil
}

// SetEq reports whether two sorted string slices are equal.
func SetEq(a, b []string) bool {
	if len(a) != len(b) {
		return false
	}
	for i := range a {
		if a[i] != b[i] {
			return false
		}
	}
	return true
}

// StructFields lists the field names of a named struct type of the tree (embedded fields by type name).
func (p *Prog) StructFields(pkgShort, typeName string) []string {
	n := p.NamedType(pkgShort, typeName)
	if n == nil {
		return nil
	}
	st, ok := n.Underlying().(*types.Struct)
	if !ok {
		return nil
	}
	var out []string
	for i := 0; i < st.NumFields(); i++ {
		out = append(out, st.Field(i).Name())
	}
	return out
}

// FieldsStoredIn: names of fields of typeName that are directly stored in the given functions.
func (p *Prog) FieldsStoredIn(typeName string, fns ...*ssa.Function) map[string]bool {
	out := map[string]bool{}
	for _, fn := range fns {
		if fn == nil {
			continue
		}
		for _, in := range allInstrs(fn) {
			st, ok := in.(*ssa.Store)
			if !ok {
				continue
			}
			fa, ok := st.Addr.(*ssa.FieldAddr)
			if !ok {
				continue
			}
			t := fa.X.Type()
			if pt, ok := t.Underlying().(*types.Pointer); ok {
				t = pt.Elem()
			}
			if n, ok := t.(*types.Named); ok && n.Obj().Name() == typeName {
				out[n.Underlying().(*types.Struct).Field(fa.Field).Name()] = true
			}
		}
	}
	return out
}

// ClosureWithCall finds the (unique, innermost-first) function nested in parent that contains a call
// whose descriptor matches pat. Closure numbering ($1, $2 …) is not a stable anchor; content is.
func (c *Ctx) ClosureWithCall(parent *ssa.Function, pat string) *ssa.Function {
	if parent == nil {
		return nil
	}
	var found []*ssa.Function
	for _, fn := range WithClosures(parent) {
		if fn == parent {
			continue
		}
		if len(c.CallsD(fn, pat)) > 0 {
			found = append(found, fn)
		}
	}
	if len(found) == 0 {
		c.Unresolved(parent, "closure calling "+pat, "no closure of "+c.FuncKey(parent)+" calls "+pat)
		return nil
	}
	c.touch(found[0])
	return found[0]
}

// PhiLeafEdges: for a value that is a (nested) phi, the control-flow edges along which the incoming
// leaf value has a descriptor matching pat — "the paths on which the value is pat".
func (c *Ctx) PhiLeafEdges(v ssa.Value, pat string) []Edge {
	var out []Edge
	seen := map[ssa.Value]bool{}
	var walk func(x ssa.Value, e *Edge)
	walk = func(x ssa.Value, e *Edge) {
		if phi, ok := x.(*ssa.Phi); ok {
			if seen[x] {
				return // a loop-carried self reference is not a leaf
			}
			seen[x] = true
			for i, ev := range phi.Edges {
				walk(ev, &Edge{phi.Block().Preds[i], phi.Block()})
			}
			return
		}
		if e != nil && P(pat).Match(c.D(x)) {
			out = append(out, *e)
		}
	}
	walk(v, nil)
	return out
}

// RetIsCmp: every return of fn yields exactly the boolean `X op Y` (operand order normalised).
func (c *Ctx) RetIsCmp(fn *ssa.Function, detail, x, op, y string) {
	if fn == nil {
		return
	}
	want := opByName[op]
	rets := Returns(fn)
	if !c.Floor(fn, detail+" returns", len(rets), 1) {
		return
	}
	for _, r := range rets {
		v := RetVal(r, 0)
		ok := false
		if b, isB := v.(*ssa.BinOp); isB {
			switch {
			case P(x).Match(c.D(b.X)) && P(y).Match(c.D(b.Y)):
				ok = b.Op == want
			case P(x).Match(c.D(b.Y)) && P(y).Match(c.D(b.X)):
				ok = flipOp[b.Op] == want
			}
		}
		c.Report(fn, detail, c.InstrPos(r), ok, "returns "+c.D(v)+"; wanted "+x+" "+op+" "+y)
	}
}

// ClosureWithStore finds the function nested in parent that stores to an address matching pat.
func (c *Ctx) ClosureWithStore(parent *ssa.Function, pat string) *ssa.Function {
	if parent == nil {
		return nil
	}
	for _, fn := range WithClosures(parent) {
		if fn != parent && len(c.StoresD(fn, pat)) > 0 {
			c.touch(fn)
			return fn
		}
	}
	c.Unresolved(parent, "closure storing "+pat, "no closure of "+c.FuncKey(parent)+" stores to "+pat)
	return nil
}

// ReachableCallees: full names of all callees statically reachable from the roots (static calls,
// calls of closures created in the visited functions; interface calls by their method full name),
// following only functions of the tree, up to depth.
func (c *Ctx) ReachableCallees(depth int, roots ...*ssa.Function) map[string]bool {
	out := map[string]bool{}
	seen := map[*ssa.Function]bool{}
	var walk func(fn *ssa.Function, d int)
	walk = func(fn *ssa.Function, d int) {
		if fn == nil || seen[fn] || d < 0 {
			return
		}
		seen[fn] = true
		c.touch(fn)
		for _, cl := range fn.AnonFuncs {
			walk(cl, d) // closures are part of the function
		}
		for _, in := range allInstrs(fn) {
			cc := callCommon(in)
			if cc == nil {
				continue
			}
			out[CalleeFullName(cc)] = true
			if cal := CalleeOf(cc); cal != nil && cal.Blocks != nil && cal.Pkg != nil && c.inTree(cal.Pkg.Pkg) {
				walk(cal, d-1)
			}
		}
	}
	for _, r := range roots {
		walk(r, depth)
	}
	return out
}
