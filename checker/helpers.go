package main

import (
	"fmt"
	"strings"

	"golang.org/x/tools/go/ssa"
)

// StoredIs: each store's value descriptor must match one of the patterns.
func (c *Ctx) StoredIs(fn *ssa.Function, detail string, stores []ssa.Instruction, floor int, pats ...string) {
	if fn == nil || !c.Floor(fn, detail+" stores", len(stores), floor) {
		return
	}
	for i, in := range stores {
		st, ok := in.(*ssa.Store)
		d := detail
		if len(stores) > 1 {
			d = fmt.Sprintf("%s/%d", detail, i)
		}
		if !ok {
			c.Report(fn, d, c.InstrPos(in), false, "not a store")
			continue
		}
		got := c.D(st.Val)
		c.Report(fn, d, c.InstrPos(in), matchAny(got, pats), "stored value: "+got+"; wanted: "+strings.Join(pats, " | "))
	}
}

// ArgIs: the k-th argument (receiver excluded for method calls; k counts c.Args after the receiver
// for static method calls, all Args for invoke/func calls) of each call must match a pattern.
func (c *Ctx) ArgIs(fn *ssa.Function, detail string, calls []ssa.Instruction, floor int, k int, pats ...string) {
	if fn == nil || !c.Floor(fn, detail+" calls", len(calls), floor) {
		return
	}
	for i, in := range calls {
		d := detail
		if len(calls) > 1 {
			d = fmt.Sprintf("%s/%d", detail, i)
		}
		cc := callCommon(in)
		if cc == nil {
			c.Report(fn, d, c.InstrPos(in), false, "not a call")
			continue
		}
		args := cc.Args
		if !cc.IsInvoke() {
			if f := CalleeOf(cc); f != nil && f.Signature.Recv() != nil && len(args) > 0 {
				args = args[1:]
			}
		}
		if k >= len(args) {
			c.Report(fn, d, c.InstrPos(in), false, fmt.Sprintf("call has %d args, wanted index %d", len(args), k))
			continue
		}
		got := c.D(args[k])
		c.Report(fn, d, c.InstrPos(in), matchAny(got, pats), fmt.Sprintf("arg %d: %s; wanted: %s", k, got, strings.Join(pats, " | ")))
	}
}

func matchAny(s string, pats []string) bool {
	for _, p := range pats {
		if P(p).Match(s) {
			return true
		}
	}
	return false
}

// ReturnsD lists return instructions whose idx-th result descriptor matches pat.
func (p *Prog) ReturnsD(fn *ssa.Function, idx int, pat string) []ssa.Instruction {
	var out []ssa.Instruction
	for _, r := range Returns(fn) {
		if idx < len(r.Results) && P(pat).Match(p.D(RetVal(r, idx))) {
			out = append(out, r)
		}
	}
	return out
}

// AllReturns as instructions.
func AllReturns(fn *ssa.Function) []ssa.Instruction {
	var out []ssa.Instruction
	for _, r := range Returns(fn) {
		out = append(out, r)
	}
	return out
}

// Exists: at least floor instructions exist (structure anchor), reported as one obligation.
func (c *Ctx) Exists(fn *ssa.Function, detail string, ins []ssa.Instruction, floor int) bool {
	if fn == nil {
		return false
	}
	ok := len(ins) >= floor
	pos := fn.Pos()
	if len(ins) > 0 {
		pos = c.InstrPos(ins[0])
	}
	c.Report(fn, detail, pos, ok, fmt.Sprintf("found %d, need >= %d", len(ins), floor))
	return ok
}

// SitesIn filters sites to those inside fn (closures excluded).
func SitesIn(sites []Site, fn *ssa.Function) []ssa.Instruction {
	var out []ssa.Instruction
	for _, s := range sites {
		if s.Fn == fn {
			out = append(out, s.In)
		}
	}
	return out
}

type ssaInstr = ssa.Instruction
