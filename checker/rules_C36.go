package main

import (
	"fmt"
	"strings"

	"golang.org/x/tools/go/ssa"
)

func init() {
	Register(&Property{
		ID: "C36",
		Decides: "(R36.1) precedence in rule selection: the rule sets are consulted in the order client id, net, node, suffrage, default map, built-in default; a later set is consulted only on the not-found (or not-configured) path of every earlier one; each answer carries the found set's own rule, checksum and label; the node and suffrage sets are consulted only for a request that names a node; " +
			"(R36.2) enforcement: an address keeps its limiter while it is used (every request refreshes its last-access time; shrink removes only addresses not accessed since the expiry); limiter and no-limit flag are updated together; Allow is x/time/rate's Limiter.Allow of the limiter the RateLimiter holds, or the no-limit flag when it holds none; the held limiter is built from exactly the (limit, burst) given, no-limit is set only for an infinite limit, and Rule builds / updates the RateLimiter from the selected rule's Limit and Burst; (R36.3) the cached limiter: the cache key covers the client id that rule selection reads, and a cached limiter of kind net/node/suffrage is handed back without re-selection only on a path that excluded every higher-precedence set (set not configured, or the request lacks what that set matches on) — violated today, known findings. A limiter selected by a client-id rule is kept only for a request that carries a client id.",
		NotDecided: "the window bound itself (x/time/rate); rule matching inside each set.",
		Run:        runC36,
	})
}

func runC36(c *Ctx) {
	// a limiter selected by a client-id rule is kept only for a request that carries a client id: a request
	// without one is judged by the net/node/default rules
	c.Rule("R36.3", "MustPass")
	if fn := c.Need("launch.(*RateLimiterRules).Rule"); fn != nil {
		n := 0
		for _, r := range Returns(fn) {
			if c.D(RetVal(r, 0)) != "l" {
				continue
			}
			if !allOK(c.MustPass(fn, nil, []ssa.Instruction{r}, GCmp("l.Type()", "==", "\"clientid\""))) {
				continue
			}
			n++
			c.MP(fn, "a client-id limiter is kept only for a request with a client id", []ssa.Instruction{r}, 1, GCmp("hint.ClientID", "!=", "\"\""))
		}
		c.floors["R36.3 shortcuts keeping a client-id limiter"] = [2]int{0, n}
	}
	// R36.1 --------------------------------------------------------------------------------------
	c.Rule("R36.1", "Ordering")
	if fn := c.Need("launch.(*RateLimiterRules).rule"); fn != nil {
		type set struct{ field, label string }
		sets := []set{{"clientid", "clientid"}, {"nets", "net"}, {"nodes", "node"}, {"suffrage", "suffrage"}}
		var earlier []Gate // gates that say "all earlier sets did not answer"
		notAnswered := func(s set) []Gate {
			return []Gate{GFalse("r." + s.field + ".Rule(addr, handler, hint)#3"), GNil("r." + s.field), GNil("φ(hint.Node|nil)")}
		}
		_ = earlier
		for i, s := range sets {
			call := c.CallsD(fn, "r."+s.field+".Rule(addr, handler, hint)")
			if !c.Exists(fn, "the "+s.label+" rule set is consulted", call, 1) {
				continue
			}
			c.MP(fn, "the "+s.label+" rule set is consulted only if configured", call, 1, GNonNil("r."+s.field))
			for j := 0; j < i; j++ {
				p := sets[j]
				gs := []Gate{GFalse("r." + p.field + ".Rule(addr, handler, hint)#3"), GNil("r." + p.field)}
				if p.field == "nodes" || p.field == "suffrage" {
					gs = append(gs, GNil("φ(hint.Node|nil)"))
				}
				c.MP(fn, "the "+s.label+" rule set is consulted only after the "+p.label+" set did not answer", call, 1, gs...)
			}
			if s.field == "nodes" || s.field == "suffrage" {
				c.MP(fn, "the "+s.label+" rule set is consulted only for a request naming a node", call, 1, GNonNil("φ(hint.Node|nil)"))
			}
			// its answer
			var ans []ssa.Instruction
			for _, r := range Returns(fn) {
				if len(r.Results) == 5 && c.D(RetVal(r, 2)) == "\""+s.label+"\"" {
					ans = append(ans, r)
				}
			}
			if c.Exists(fn, "an answer labelled "+s.label, ans, 1) {
				c.MP(fn, "the "+s.label+" answer is given only if that set found a rule", ans, 1, GTrue("r."+s.field+".Rule(addr, handler, hint)#3"))
				for _, r := range ans {
					rr := r.(*ssa.Return)
					pre := "r." + s.field + ".Rule(addr, handler, hint)"
					ok := c.D(RetVal(rr, 0)) == pre+"#0" && c.D(RetVal(rr, 1)) == pre+"#1" && c.D(RetVal(rr, 3)) == pre+"#2" && c.D(RetVal(rr, 4)) == "true"
					c.Report(fn, "the "+s.label+" answer carries that set's checksum, rule and description", c.InstrPos(r), ok, "")
				}
			}
			_ = notAnswered
		}
		// the default map and the built-in default come last
		dm := c.CallsD(fn, "r.defaultMap.Rule(handler)")
		for _, p := range sets {
			gs := []Gate{GFalse("r." + p.field + ".Rule(addr, handler, hint)#3"), GNil("r." + p.field)}
			if p.field == "nodes" || p.field == "suffrage" {
				gs = append(gs, GNil("φ(hint.Node|nil)"))
			}
			c.MP(fn, "the default map is consulted only after the "+p.label+" set did not answer", dm, 1, gs...)
		}
		for _, r := range Returns(fn) {
			if len(r.Results) != 5 {
				continue
			}
			lbl, rule := c.D(RetVal(r, 2)), c.D(RetVal(r, 1))
			switch lbl {
			case "\"defaultmap\"":
				if rule == "r.defaultMap.Rule(handler)#0" {
					c.MP(fn, "the default-map answer is given only if the map has a rule for the handler", []ssa.Instruction{r}, 1, GTrue("r.defaultMap.Rule(handler)#1"))
				} else {
					c.Report(fn, "an unchanged default map is reported as not refreshed", c.InstrPos(r), c.D(RetVal(r, 4)) == "false" && rule == "launch.defaultRateLimiter", rule)
				}
			case "\"default\"":
				c.MP(fn, "the built-in default is used only if the default map has no rule for the handler", []ssa.Instruction{r}, 1, GFalse("r.defaultMap.Rule(handler)#1"))
				c.Report(fn, "the built-in default is the package default rule", c.InstrPos(r), rule == "launch.defaultRateLimiter", rule)
			}
		}
		c.Held(fn, nil, "rule sets are read under the rules lock", dm, 1, "&r.l", LR)
	}
	// R36.2 --------------------------------------------------------------------------------------
	c.Rule("R36.2", "Delegation")
	if fn := c.Need("launch.(*RateLimiter).Allow"); fn != nil {
		for _, r := range Returns(fn) {
			d := c.D(RetVal(r, 0))
			if strings.HasPrefix(d, "var:") {
				continue
			}
			switch d {
			case "r.Limiter.Allow()":
				c.MP(fn, "the limiter decides whenever one is held", []ssa.Instruction{r}, 1, GNonNil("r"), GNonNil("r.Limiter"))
			case "r.nolimit":
				c.MP(fn, "the no-limit flag decides only if no limiter is held", []ssa.Instruction{r}, 1, GNil("r"), GNil("r.Limiter"))
			default:
				c.Report(fn, "Allow answers the limiter or the no-limit flag", c.InstrPos(r), false, d)
			}
		}
		c.Exists(fn, "Allow delegates to x/time/rate", c.CallsTo(fn, "(*golang.org/x/time/rate.Limiter).Allow"), 1)
	}
	for _, k := range []string{"launch.NewRateLimiter", "launch.(*RateLimiter).Update"} {
		fn := c.Need(k)
		if fn == nil {
			continue
		}
		nl := c.CallsTo(fn, "golang.org/x/time/rate.NewLimiter")
		c.ArgIs(fn, "the held limiter has the given rate", nl, 1, 0, "limit")
		c.ArgIs(fn, "the held limiter has the given burst", nl, 1, 1, "burst")
		c.MP(fn, "a limiter is built only for a finite, positive rate and burst", nl, 1, GCmp("burst", ">=", "1"))
		var nolim []ssa.Instruction
		for _, in := range allInstrs(fn) {
			if st, ok := in.(*ssa.Store); ok && strings.HasSuffix(c.D(st.Addr), ".nolimit") && c.D(st.Val) == "true" {
				nolim = append(nolim, in)
			}
		}
		c.MP(fn, "no-limit is set only for the infinite rate", nolim, 1, GCmp("limit", "==", "1797693134862315708145274237317043567980705675258449965989174768031572607800285387605895586327668781715404589535143824642343213268894641827684675467035375169860499105765512820762454900903893289440758685084551339423045832369032229481658085593321233482747978262041447231687381771809192998812504040261841248583*"), GCmp("limit", "==", "rate.Inf"), GCmp("limit", "==", "*e+308"), GCmp("limit", "==", "re:[0-9.e+]+"))
	}
	// the limiter and the no-limit flag change together (a stale flag would keep allowing)
	if fn := c.Need("launch.(*RateLimiter).Update"); fn != nil {
		var lim, flag []ssa.Instruction
		for _, in := range allInstrs(fn) {
			if st, ok := in.(*ssa.Store); ok {
				a := c.D(st.Addr)
				switch {
				case a == "&r" || a == "&r.Limiter":
					lim = append(lim, in)
				case a == "&r.nolimit":
					flag = append(flag, in)
				}
			}
		}
		c.Report(fn, "Update: every assignment of the limiter also assigns the no-limit flag", fn.Pos(), len(lim) >= 3 && len(lim) == len(flag), fmt.Sprintf("%d limiter stores, %d flag stores", len(lim), len(flag)))
		for i, in := range lim {
			paired := ""
			for _, f := range flag {
				if f.Block() == in.Block() {
					paired = c.D(f.(*ssa.Store).Val)
				}
			}
			v := c.D(in.(*ssa.Store).Val)
			want := "false"
			if v == "nil" {
				want = "true|false"
			}
			c.Report(fn, fmt.Sprintf("Update: limiter assignment %d is paired with a flag assignment", i), c.InstrPos(in), paired != "" && (strings.Contains(want, paired)), "limiter <- "+v+", flag <- "+paired)
		}
		c.Held(fn, nil, "Update: limiter and flag change under the limiter's exclusive lock", append(lim, flag...), 2, "&r.l", LW)
	}
	// an address stays in the pool while it is used: every request refreshes its last-access time, and
	// the shrink removes only addresses last accessed before the expiry
	if parent := c.Need("launch.(*addrPool).rateLimiter"); parent != nil {
		var cb *ssa.Function
		for _, f := range WithClosures(parent) {
			if len(c.CallsD(f, "i.Set(handler, *)")) > 0 {
				cb = f
			}
		}
		if cb == nil {
			c.Unresolved(parent, "addrPool.rateLimiter: per-address callback", "not found")
		} else {
			c.MP(cb, "every request refreshes the address's last-access time before its limiter is looked up", c.CallsD(cb, "i.Set(handler, *)"), 1,
				GCalled("p.lastAccessedAt.SetValue(addr, time.Now())"))
		}
	}
	if parent := c.Need("launch.(*addrPool).shrink"); parent != nil {
		for _, f := range WithClosures(parent) {
			for _, in := range c.StoresD(f, "&var:varargs[0]") {
				if c.D(in.(*ssa.Store).Val) == "addr" {
					c.MP(f, "shrink gathers only addresses last accessed before the expiry", []ssa.Instruction{in}, 1, GTrue("accessed.Before(expire)"))
				}
			}
		}
		c.Exists(parent, "shrink walks the last-access table", c.CallsD(parent, "p.lastAccessedAt.TraverseMap(*)"), 1)
	}
	if fn := c.Need("launch.(*RateLimiterRules).Rule"); fn != nil {
		mk := c.CallsTo(fn, "launch.NewRateLimiter")
		c.ArgIs(fn, "a new limiter gets the selected rule's rate", mk, 1, 0, "var:rule.Limit")
		c.ArgIs(fn, "a new limiter gets the selected rule's burst", mk, 1, 1, "var:rule.Burst")
		up := c.CallsD(fn, "l.Update(*)")
		c.ArgIs(fn, "an updated limiter gets the selected rule's rate", up, 1, 0, "var:rule.Limit")
		c.ArgIs(fn, "an updated limiter gets the selected rule's burst", up, 1, 1, "var:rule.Burst")
		sts := c.StoresD(fn, "&var:rule")
		for _, in := range sts {
			d := c.D(in.(*ssa.Store).Val)
			c.Report(fn, "the selected rule is what rule() answered", c.InstrPos(in), strings.HasPrefix(d, "r.rule(") && strings.HasSuffix(d, "#1"), d)
		}
		c.Report(fn, "rule() is asked at two places (new, refresh)", fn.Pos(), len(sts) == 2, fmt.Sprintf("%d", len(sts)))
		c.MP(fn, "a cached limiter is updated only if rule() reported a refresh", up, 1, GTrue("r.rule(addr, handler, hint, l.Type(), l.UpdatedAt())#4"))
	}
	// R36.1n: inside the net set the first configured network that contains the address decides
	c.Rule("R36.1", "Ordering")
	if fn := c.Need("launch.(NetRateLimiterRuleSet).rule"); fn != nil {
		loop := "(ι < len(rs.ipnets))"
		c.Exists(fn, "the networks are tried in configured order (ascending index)", toInstr(c.Loops(fn, loop)), 1)
		c.ForEach(fn, "a network is passed over only if it does not contain the address", loop, 1, GFalse("rs.ipnets[ι].Contains(*)"))
		found := c.ReturnsD(fn, 2, "true")
		c.MP(fn, "a rule is answered only from a network that contains the address", found, 1, GTrue("rs.ipnets[ι].Contains(*)"))
		for _, r := range found {
			d := c.D(RetVal(r.(*ssa.Return), 0))
			c.Report(fn, "the answered rule is the rule map of that network", c.InstrPos(r), strings.HasPrefix(d, "rs.rules[rs.ipnets[ι].String()]#0.Rule(handler)"), d)
		}
	}
	// freshness: a cached default-map limiter is kept only if it is at least as new as the default map
	if fn := c.Need("launch.(*RateLimiterRules).rule"); fn != nil {
		keep := c.ReturnsD(fn, 4, "false")
		c.MP(fn, "no refresh only for a cached default-map limiter", keep, 1, GCmp("t", "==", "\"defaultmap\""))
		c.MP(fn, "no refresh only if the cached limiter is at least as new as the default map", keep, 1, GCmp("updatedAt", ">=", "r.defaultMapUpdatedAt"))
	}
	// R36.3: the cached limiter ----------------------------------------------------------------
	// One limiter is cached per (address, handler); rule selection also reads the request's hint.
	c.Rule("R36.3", "Dependence")
	if fn := c.Need("launch.(*addrPool).rateLimiter"); fn != nil {
		var keys []string
		for _, f := range WithClosures(fn) {
			for _, in := range c.CallsD(f, "p.l.GetOrCreate(*)") {
				keys = append(keys, c.D(CallArg(in, 0)))
			}
			for _, in := range c.CallsD(f, "i.Set(*)") {
				keys = append(keys, c.D(CallArg(in, 0)))
			}
		}
		if c.Floor(fn, "limiter cache keys", len(keys), 2) {
			covers := false
			for _, k := range keys {
				if strings.Contains(k, "hint.ClientID") {
					covers = true
				}
			}
			c.Report(fn, "the limiter cache key covers the client id rule selection depends on", fn.Pos(), covers, "cache keys: "+strings.Join(keys, ", "))
		}
	}
	rule := c.Need("launch.(*RateLimiterRules).Rule")
	byNode := c.Need("launch.(*RateLimiterRules).ruleByNode")
	if rule != nil && byNode != nil {
		// shortcut exits: the cached limiter is handed back without consulting rule()
		type shortcut struct {
			fn *ssa.Function
			in ssa.Instruction
		}
		var cands []shortcut
		for _, r := range Returns(rule) {
			if len(r.Results) == 2 && c.D(RetVal(r, 0)) == "l" {
				if res := c.MustPass(rule, nil, []ssa.Instruction{r}, GCalled("r.rule(*)")); !allOK(res) {
					cands = append(cands, shortcut{rule, r})
				}
			}
		}
		for _, r := range Returns(byNode) {
			if len(r.Results) == 3 && c.D(RetVal(r, 2)) == "true" {
				cands = append(cands, shortcut{byNode, r})
			}
		}
		excl := map[string][]Gate{
			"clientid": {GNil("r.clientid"), GCmp("hint.ClientID", "==", "\"\"")},
			"nets":     {GNil("r.nets")},
			"nodes":    {GNil("r.nodes"), GNil("φ(hint.Node|nil)"), GNil("hint.Node")},
		}
		excl["suffrage"] = []Gate{GNil("r.suffrage"), GNil("φ(hint.Node|nil)"), GNil("hint.Node")}
		all4 := []string{"clientid", "nets", "nodes", "suffrage"}
		higher := map[string][]string{"clientid": nil, "net": {"clientid"}, "node": {"clientid", "nets"}, "suffrage": {"clientid", "nets", "nodes"},
			"defaultmap": all4, "default": all4}
		callByNode := c.CallsD(rule, "r.ruleByNode(*)")
		kinds := []string{"clientid", "net", "node", "suffrage", "defaultmap", "default"}
		classified := map[ssa.Instruction]bool{}
		for _, kind := range kinds {
			var mine []shortcut
			for _, sc := range cands {
				if allOK(c.MustPass(sc.fn, nil, []ssa.Instruction{sc.in}, GCmp("l.Type()", "==", "\""+kind+"\""))) {
					mine = append(mine, sc)
					classified[sc.in] = true
				}
			}
			setField := map[string]string{"clientid": "clientid", "net": "nets", "node": "nodes", "suffrage": "suffrage"}[kind]
			if setField != "" {
				for _, sc := range mine {
					ok := allOK(c.MustPass(sc.fn, nil, []ssa.Instruction{sc.in}, GCmp("l.UpdatedAt()", ">=", "r."+setField+".UpdatedAt()")))
					c.Report(sc.fn, "a cached "+kind+" limiter is kept only if it is at least as new as the "+kind+" rule set", sc.in.Pos(), ok, "l.UpdatedAt() >= r."+setField+".UpdatedAt()")
				}
			}
			if kind == "clientid" {
				continue // the highest-precedence set; which client id the cached limiter belongs to is the cache-key obligation above
			}
			if len(mine) == 0 {
				c.floors["R36.3 "+kind+" shortcuts (0 is fine: always re-selected)"] = [2]int{0, 0}
				continue
			}
			var missing []string
			for _, sc := range mine {
				for _, h := range higher[kind] {
					ok := allOK(c.MustPass(sc.fn, nil, []ssa.Instruction{sc.in}, excl[h]...))
					if !ok && sc.fn == byNode && len(callByNode) > 0 {
						ok = allOK(c.MustPass(rule, nil, callByNode, excl[h]...))
					}
					if !ok {
						missing = append(missing, fmt.Sprintf("%s at %s", h, c.Pos(sc.in.Pos())))
					}
				}
			}
			c.Report(mine[0].fn, "a cached "+kind+" limiter is kept without re-selection only if no higher-precedence set can match the request", mine[0].in.Pos(),
				len(missing) == 0, "not excluded: "+strings.Join(missing, "; "))
		}
		for _, sc := range cands {
			if !classified[sc.in] {
				c.Report(sc.fn, "a cached limiter is kept without re-selection only for a tested kind", sc.in.Pos(), false, "shortcut exit that does not test l.Type()")
			}
		}
	}

}
