package main

import (
	"go/types"
	"sort"
	"strings"

	"golang.org/x/tools/go/ssa"
)

func init() {
	Register(&Property{
		ID: "C10",
		Decides: "(R10.1) operations are pre-processed sequentially: PreProcess is invoked only through getPreProcessor's closures, only synchronously from doPreProcessOperation <- processOperation <- the processOperations loop, never inside a job-worker closure; " +
			"(R10.2) the operation's tree index handed to SetProcessResult/SetStates is the proposal position of the loop; (R10.3) state keys collected by traversing the sharded map are sorted before being returned and tree indices are their positions; " +
			"(R10.4) every slice a StateValueMerger appends to in its concurrent Merge is either sorted (comparator over both elements) before the closed value is built or used only as a filter set, and no untabled merged slice exists; " +
			"(R10.5) operation processors' fields are written only by constructors, PreProcess and Close — Process (concurrent) never writes processor state.; (R10.j) jobs handed to a worker read only captured variables that the submitter does not assign again (no job works on a later batch/slot than the one it was created for)",
		NotDecided: "last-writer-wins of BaseStateValueMerger.Merge when two operations write one key with the default merger; purity of third-party operation processors; the fixed-tree hash itself (C12).",
		Run:        runC10,
	})
}

func runC10(c *Ctx) {
	c.Rule("R10.j", "AsyncCapture")
	c.AsyncCaptures(c.Need("isaac.(*DefaultProposalProcessor).processOperation"), "*.NewJob", 2)
	c.AsyncCaptures(c.Need("isaac/block.(*DefaultStatesMerger).CloseStates"), "*.NewJob", 1)
	c.AsyncCaptures(c.Need("isaac/block.(*DefaultStatesMerger).Close"), "*.NewJob", 1)
	c.AsyncCaptures(c.Need("isaac/block.(*Writer).SetProcessResult"), "*.NewJob", 1)
	c.AsyncCaptures(c.Need("isaac/block.(*Writer).SetStates"), "*.NewJob", 1)
	c.AsyncCaptures(c.Need("isaac/block.(*Writer).statesMergerClose"), "*.NewJob", 1)
	c.AsyncCaptures(c.Need("isaac/block.(*Writer).Manifest"), "*.NewJob", 1)
	// R10.1 --------------------------------------------------------------------------------------
	c.Rule("R10.1", "WhoMayCall")
	pre := append(c.WhoCalls("(base.OperationProcessor).PreProcess"), c.WhoCalls("(base.Operation).PreProcess")...)
	var prod []Site
	for _, s := range pre {
		if !strings.HasPrefix(c.FuncKey(s.Fn), "isaac/operation.") && !strings.HasPrefix(c.FuncKey(s.Fn), "base.") { // wrappers inside processors delegate to constraint funcs
			prod = append(prod, s)
		}
	}
	c.OnlyIn("call PreProcess", prod, 2, "isaac.(*DefaultProposalProcessor).getPreProcessor",
		"launch.OperationPreProcess", // pool-admission pre-check with a fresh processor per operation; not block production
		"launch.SendOperationFilterFunc") // runs that pool-admission pre-check (the function OperationPreProcess returned); seen only with resolved dynamic calls
	if fn := c.Need("isaac.(*DefaultProposalProcessor).doPreProcessOperation"); fn != nil {
		c.OnlyIn("call getPreProcessor", c.WhoCalls("(*isaac.DefaultProposalProcessor).getPreProcessor"), 1, "isaac.(*DefaultProposalProcessor).doPreProcessOperation")
		calls := c.CallsD(fn, "call(p.getPreProcessor(p.args.NewOperationProcessorFunc, op)#0)(ctx)")
		c.Exists(fn, "pre-processor invoked synchronously in doPreProcessOperation", calls, 1)
		for _, in := range calls {
			_, isCall := in.(*ssa.Call)
			c.Report(fn, "pre-processor invoked by a plain call (not go/defer)", c.InstrPos(in), isCall, in.String())
		}
	}
	for _, chain := range [][2]string{
		{"(*isaac.DefaultProposalProcessor).doPreProcessOperation", "isaac.(*DefaultProposalProcessor).processOperation"},
		{"(*isaac.DefaultProposalProcessor).processOperation", "isaac.(*DefaultProposalProcessor).processOperations"},
	} {
		sites := c.WhoCalls(chain[0])
		if !c.Floor(nil, "call sites of "+chain[0], len(sites), 1) {
			continue
		}
		for _, s := range sites {
			_, isCall := s.In.(*ssa.Call)
			c.Report(s.Fn, "sequential pre-processing: "+chain[0]+" called directly from "+chain[1]+" (not from a closure, not as go/defer)",
				c.InstrPos(s.In), c.FuncKey(s.Fn) == chain[1] && isCall, "called in "+c.FuncKey(s.Fn))
		}
	}
	// R10.2 --------------------------------------------------------------------------------------
	c.Rule("R10.2", "Dependence")
	if fn := c.Need("isaac.(*DefaultProposalProcessor).processOperations"); fn != nil {
		calls := c.CallsD(fn, "p.processOperation(*)")
		if c.Exists(fn, "processOperation called in the proposal loop", calls, 1) {
			idx := CallArg(calls[0], 3)
			op := CallArg(calls[0], 2)
			di, do := c.D(idx), c.D(op)
			// op is cops[i] or reserved[i-len(cops)], index is the same i
			ok := strings.Contains(do, "cops["+di+"]") && strings.Contains(do, "reserved[("+di+" - len(cops))]")
			c.Report(fn, "tree index is the operation's position in the proposal (then the reserved list)", c.InstrPos(calls[0]), ok, "index "+di+" ; operation "+do)
		}
		w := c.CallsD(fn, "*.Wait()")
		c.MP(fn, "success: all operation jobs waited for", c.SuccessReturns(fn), 1, GOk("*.Wait()"))
		_ = w
	}
	if fn := c.Need("isaac.(*DefaultProposalProcessor).processOperation"); fn != nil {
		n := 0
		for _, cl := range WithClosures(fn) {
			for _, in := range append(c.CallsD(cl, "*.SetProcessResult(*)"), c.CallsD(cl, "p.doProcessOperation(*)")...) {
				n++
				k := 1
				if strings.Contains(c.dCall(callCommon(in), 0, map[ssa.Value]bool{}), "doProcessOperation") {
					k = 3
				}
				c.ArgIs(cl, "writer gets the operation's own tree index", []ssaInstr{in}, 1, k, "opsindex")
			}
		}
		c.Floor(fn, "index-carrying calls", n, 3)
	}
	if fn := c.Need("isaac.(*DefaultProposalProcessor).doProcessOperation"); fn != nil {
		c.ArgIs(fn, "SetStates gets the operation's own tree index", c.CallsD(fn, "writer.SetStates(*)"), 1, 1, "opsindex")
		c.ArgIs(fn, "SetProcessResult gets the operation's own tree index", c.CallsD(fn, "writer.SetProcessResult(*)"), 1, 1, "opsindex")
		c.ArgIs(fn, "SetProcessResult gets the operation's own hash", c.CallsD(fn, "writer.SetProcessResult(*)"), 1, 2, "op.Hash()")
	}
	// R10.3 --------------------------------------------------------------------------------------
	c.Rule("R10.3", "SortedBeforeUse")
	if fn := c.Need("isaac/block.(*DefaultStatesMerger).sortStateKeys"); fn != nil {
		rets := AllReturns(fn)
		var keys string
		if len(rets) > 0 {
			keys = c.D(RetVal(rets[0].(*ssa.Return), 0))
		}
		c.MP(fn, "state keys returned only sorted (or empty/single)", rets, 1,
			GCalled("sort.Strings("+keys+")"), GCmp("len("+keys+")", "<=", "0"), GCmp("len("+keys+")", "<", "2"))
		if cl := c.ClosureWithCall(fn, "append(*)"); cl != nil {
			c.Exists(cl, "keys collected from the traversal", c.StoresD(cl, "&var:sortedkeys"), 1)
		}
	}
	if fn := c.Need("isaac/block.(*DefaultStatesMerger).CloseStates"); fn != nil {
		if cl := c.ClosureWithCall(fn, "sm.stvmmap.Value(*)"); cl != nil {
			c.ArgIs(cl, "merger looked up by the sorted key at the loop position", c.CallsD(cl, "sm.stvmmap.Value(*)"), 1, 0, "sm.sortStateKeys()[ι]")
		}
		if cl := c.ClosureWithCall(fn, "call(oneState)(*)"); cl != nil {
			c.ArgIs(cl, "state's tree index is its position among the sorted keys", c.CallsD(cl, "call(oneState)(*)"), 1, 2, "ι")
			c.ArgIs(cl, "state is the merger's closed value", c.CallsD(cl, "call(oneState)(*)"), 1, 0, "*.CloseValue()#0")
		}
	}
	// R10.3b the mergers' map is only touched through atomic operations -----------------------------
	c.Rule("R10.3b", "WhoMayCall")
	nmap := 0
	for _, s := range c.CallsInFuncs("(*util.ShardedMap[*]).*", "isaac/block.(*DefaultStatesMerger).") {
		cc := callCommon(s.In)
		if !P("sm.stvmmap").Match(c.D(cc.Args[0])) {
			continue
		}
		nmap++
		name := CalleeFullName(cc)
		name = name[strings.LastIndex(name, ".")+1:]
		ok := false
		switch name {
		case "GetOrCreate", "Value", "Traverse", "Len", "Close":
			ok = true
		}
		c.Report(s.Fn, "merger map accessed only through atomic create-or-merge / read-only operations: "+name, c.InstrPos(s.In), ok,
			"a separate lookup followed by SetValue/Set loses a concurrently created merger")
	}
	c.Floor(nil, "accesses of DefaultStatesMerger.stvmmap", nmap, 5)
	if fn := c.Need("isaac/block.(*DefaultStatesMerger).setState"); fn != nil {
		g := c.CallsD(fn, "sm.stvmmap.GetOrCreate(*)")
		c.ArgIs(fn, "merger looked up / created under the state's key", g, 1, 0, "stvm.Key()")
		if cl := c.ClosureWithCall(fn, "i.Merge(*)"); cl != nil {
			c.ArgIs(cl, "merged value is the state merge value's value", c.CallsD(cl, "i.Merge(*)"), 1, 0, "stvm.Value()")
			c.ArgIs(cl, "merged under the operation's fact hash", c.CallsD(cl, "i.Merge(*)"), 1, 1, "operation")
		}
		if cl := c.ClosureWithCall(fn, "stvm.Merger(*)"); cl != nil {
			c.ArgIs(cl, "new merger created for the block height", c.CallsD(cl, "stvm.Merger(*)"), 1, 0, "sm.height")
			c.Exists(cl, "previous state looked up under the same key", c.CallsD(cl, "call(sm.getStateFunc)(stvm.Key())"), 1)
		}
	}
	// R10.6 manifest assembly -------------------------------------------------------------------------
	c.Rule("R10.6", "Dependence")
	if fn := c.Need("isaac/block.(*Writer).Manifest"); fn != nil {
		nm := c.CallsTo(fn, "isaac.NewManifest")
		c.ArgIs(fn, "manifest height is the proposal's height", nm, 1, 0, "w.proposal.Point().Height()")
		c.ArgIs(fn, "manifest previous is the previous manifest's hash", nm, 1, 1, "φ(nil|previous.Hash())")
		c.ArgIs(fn, "manifest proposal is the proposal fact's hash", nm, 1, 2, "w.proposal.Fact().Hash()")
		c.ArgIs(fn, "manifest operations root is the operations tree's root", nm, 1, 3, "φ(nil|w.opstreeg.Tree()#0.Root())")
		c.ArgIs(fn, "manifest states root is the states tree's root", nm, 1, 4, "φ(nil|w.ststree.Root())")
		c.ArgIs(fn, "manifest suffrage hash is the caught suffrage state's (or the previous one)", nm, 1, 5, "var:suffrage")
		c.MP(fn, "manifest built only after the states were closed", nm, 1, GOk("w.closeStateValues(ctx, *)"))
		c.Held(fn, nil, "manifest built under the writer lock", nm, 1, "&w.l", LW)
		sts := c.StoresD(fn, "&var:suffrage")
		c.StoredIs(fn, "suffrage hash defaults to the previous manifest's", sts, 1, "previous.Suffrage()")
		if cl := c.ClosureWithStore(fn, "&var:suffrage"); cl != nil {
			st := c.StoresD(cl, "&var:suffrage")
			c.StoredIs(cl, "suffrage hash caught from a closed state", st, 1, "st.Hash()")
			c.MP(cl, "caught only from the state stored under the suffrage state key", st, 1, GCmp("st.Key()", "==", "isaac.SuffrageStateKey"))
		}
	}
	if fn := c.Need("isaac/block.(*Writer).statesMergerClose"); fn != nil {
		if cl := c.ClosureWithCall(fn, "call(catchState)(*)"); cl != nil {
			add := c.CallsD(cl, "var:tg.Add(*)")
			c.ArgIs(cl, "state enters the tree at the index the merger assigned", add, 1, 0, "index")
			c.ArgIs(cl, "tree node key is the state's hash", add, 1, 1, "fixedtree.NewBaseNode(st.Hash().String())")
			c.ArgIs(cl, "every closed state is shown to the catcher", c.CallsD(cl, "call(catchState)(*)"), 1, 0, "st")
		}
	}
	if fn := c.Need("isaac/block.(*Writer).SetProcessResult"); fn != nil {
		add := c.CallsD(fn, "w.opstreeg.Add(*)")
		c.ArgIs(fn, "operation enters the tree at its own index", add, 1, 0, "index")
		c.MP(fn, "success: operation node added", c.SuccessReturns(fn), 1, GOk("w.opstreeg.Add(*)"))
	}
	// R10.4 --------------------------------------------------------------------------------------
	c.Rule("R10.4", "SortedBeforeUse")
	type mslice struct{ sorted bool }
	table := map[string]mslice{ // field -> how it is made order independent
		"SuffrageJoinStateValueMerger.joined":        {true},
		"SuffrageJoinStateValueMerger.disjoined":     {false},
		"SuffrageCandidatesStateValueMerger.added":   {true},
		"SuffrageCandidatesStateValueMerger.removes": {false},
		"BaseStateValueMerger.ops":                   {true},
	}
	// discover mergers: methods named Merge(StateValue, Hash) on pointer receivers
	nMergers := 0
	seenField := map[string]bool{}
	for _, fn := range c.Funcs {
		if fn.Name() != "Merge" || fn.Signature.Recv() == nil || fn.Signature.Params().Len() != 2 {
			continue
		}
		if !strings.HasSuffix(fn.Signature.Params().At(0).Type().String(), "base.StateValue") {
			continue
		}
		nMergers++
		tname := recvTypeName(fn)
		// appended slices: stores to receiver fields whose value is an append(...) — also through addOperation
		fns := []*ssa.Function{fn}
		for _, in := range allInstrs(fn) {
			if cc := callCommon(in); cc != nil {
				if cal := CalleeOf(cc); cal != nil && cal.Signature.Recv() != nil && c.inTree(cal.Pkg.Pkg) && (cal.Name() == "AddOperation" || cal.Name() == "addOperation") {
					fns = append(fns, cal)
					for _, in2 := range allInstrs(cal) {
						if cc2 := callCommon(in2); cc2 != nil {
							if cal2 := CalleeOf(cc2); cal2 != nil && cal2.Name() == "addOperation" {
								fns = append(fns, cal2)
							}
						}
					}
				}
			}
		}
		for _, f := range fns {
			for _, in := range allInstrs(f) {
				st, ok := in.(*ssa.Store)
				if !ok {
					continue
				}
				fa, ok := st.Addr.(*ssa.FieldAddr)
				if !ok {
					continue
				}
				if _, isSlice := st.Val.Type().Underlying().(*types.Slice); !isSlice {
					continue
				}
				owner := recvTypeNameOf(fa.X.Type())
				field := fieldName(fa)
				key := owner + "." + field
				_, known := table[key]
				seenField[key] = true
				c.Report(f, "merged slice "+key+" is tabled (sorted or filter-only)", c.InstrPos(in), known, "appended in "+tname+".Merge")
			}
		}
	}
	c.Floor(nil, "StateValueMerger implementations", nMergers, 3)
	var keys []string
	for k := range table {
		keys = append(keys, k)
	}
	sort.Strings(keys)
	for _, k := range keys {
		c.Report(nil, "tabled merged slice "+k+" still appended in Merge", 0, seenField[k], "table entry")
	}
	mergerOrderRules(c)
	filterOnly := func(typeName, field string) {
		n := 0
		for _, s := range c.WhoTouches(typeName, field) {
			if s.Fn.Name() == "Merge" {
				continue
			}
			if _, isStore := s.In.(*ssa.Store); isStore {
				continue
			}
			ld, ok := s.In.(*ssa.UnOp)
			if !ok || ld.Referrers() == nil {
				continue
			}
			for _, r := range *ld.Referrers() {
				n++
				ok := false
				if cc := callCommon(r); cc != nil {
					name := CalleeFullName(cc)
					if name == "len" {
						ok = true
					}
					if name == "util.Filter2Slices" && len(cc.Args) >= 2 && cc.Args[1] == ssa.Value(ld) {
						ok = true
					}
				}
				c.Report(s.Fn, typeName+"."+field+" used only as a filter set (len / second operand of Filter2Slices)", c.InstrPos(r), ok, r.String())
			}
		}
		c.Floor(nil, "uses of "+typeName+"."+field, n, 2)
	}
	filterOnly("SuffrageJoinStateValueMerger", "disjoined")
	filterOnly("SuffrageCandidatesStateValueMerger", "removes")
	// R10.5 --------------------------------------------------------------------------------------
	c.Rule("R10.5", "WhoMayWrite")
	nProc := 0
	for _, fn := range c.Funcs {
		if fn.Name() != "Process" || fn.Signature.Recv() == nil || !strings.HasPrefix(c.FuncKey(fn), "isaac/operation.") {
			continue
		}
		nProc++
		recv := fn.Params[0]
		writes := 0
		for _, cl := range WithClosures(fn) {
			for _, in := range allInstrs(cl) {
				switch x := in.(type) {
				case *ssa.Store:
					if fa, ok := x.Addr.(*ssa.FieldAddr); ok && strings.HasPrefix(c.D(fa.X), recv.Name()) {
						writes++
						c.Report(cl, "Process writes processor field "+fieldName(fa), c.InstrPos(in), false, c.D(x.Addr))
					}
				case *ssa.MapUpdate:
					if strings.HasPrefix(c.D(x.Map), recv.Name()+".") {
						writes++
						c.Report(cl, "Process updates processor map", c.InstrPos(in), false, c.D(x.Map))
					}
				}
			}
		}
		c.Report(fn, "Process (run concurrently) does not write processor state", fn.Pos(), writes == 0, "")
	}
	c.Floor(nil, "operation processors with Process", nProc, 5)
}

func recvTypeName(fn *ssa.Function) string {
	if fn.Signature.Recv() == nil {
		return ""
	}
	return recvTypeNameOf(fn.Signature.Recv().Type())
}

func recvTypeNameOf(t types.Type) string {
	if pt, ok := t.Underlying().(*types.Pointer); ok {
		t = pt.Elem()
	}
	if pt, ok := t.(*types.Pointer); ok {
		t = pt.Elem()
	}
	if n, ok := t.(*types.Named); ok {
		return n.Obj().Name()
	}
	return t.String()
}

func fieldName(fa *ssa.FieldAddr) string {
	t := fa.X.Type()
	if pt, ok := t.Underlying().(*types.Pointer); ok {
		t = pt.Elem()
	}
	if st, ok := t.Underlying().(*types.Struct); ok {
		return st.Field(fa.Field).Name()
	}
	return "?"
}

// mergerOrderRules: slices appended by concurrent Merge calls are sorted (comparator over both
// elements) before the closed value is built.
func mergerOrderRules(c *Ctx) {
	sortedUse := func(fnKey, slice, sink string) {
		fn := c.Need(fnKey)
		if fn == nil {
			return
		}
		sinks := c.CallsD(fn, sink)
		c.MP(fn, slice+" sorted before the closed value is built", sinks, 1,
			GCalled("sort.Slice("+slice+", *)"), GCalled("sort.SliceStable("+slice+", *)"), GCmp("len("+slice+")", "<=", "0"), GCmp("len("+slice+")", "<", "2"))
		for _, in := range append(c.CallsD(fn, "sort.Slice("+slice+", *)"), c.CallsD(fn, "sort.SliceStable("+slice+", *)")...) {
			cmp, _ := CallArg(in, 1).(*ssa.MakeClosure)
			ok := false
			got := ""
			if cmp != nil {
				for _, r := range Returns(cmp.Fn.(*ssa.Function)) {
					got = c.D(RetVal(r, 0))
					for _, op := range []string{"<", ">"} {
						if P("("+slice+"[i].* "+op+" "+slice+"[j].*)").Match(got) || P("("+slice+"[j].* "+op+" "+slice+"[i].*)").Match(got) {
							ok = true
						}
					}
				}
			}
			c.Report(fn, slice+" comparator orders by an attribute of both elements", c.InstrPos(in), ok, got)
		}
	}
	sortedUse("isaac/operation.(*SuffrageJoinStateValueMerger).closeValue", "s.joined", "isaac.NewSuffrageNodesStateValue(*)")
	sortedUse("isaac/operation.(*SuffrageCandidatesStateValueMerger).closeValue", "s.added", "isaac.NewSuffrageCandidatesStateValue(*)")
	sortedUse("base.(*BaseStateValueMerger).CloseValue", "s.ops", "base.NewBaseState(*)")
}
