package main

import (
	"go/token"
	"fmt"
	"regexp"
	"strings"

	"golang.org/x/tools/go/ssa"
)

func init() {
	Register(&Property{
		ID: "C29",
		Decides: "the structural part of the framing, not the round trip itself: " +
			"(R29.1) short reads: io.Reader.Read is called only inside EnsureRead's loop (everything else reads through EnsureRead, io.ReadFull or io.ReadAll), and EnsureRead reports success only when the whole buffer was filled; " +
			"(R29.2) a rejection is an error: no return of util/bytes.go hands back an error value that is known to be nil on every path to it; " +
			"(R29.3) every allocation sized by a length read from the input is preceded by an upper-bound test, every slice expression on input bytes by the matching length test; " +
			"(R29.4) writer and reader agree: a lengthed item is length ++ bytes on both sides, a lengthed list is count ++ items on both sides, list readers report success only after the loop over all announced items ran to completion and store an item only after it was read; the frame writer and reader exchange the same 2 version bytes.; a frame body that was read reaches the callback (success without it only if nothing was read or no callback was given); every payload read of a lengthed item asks for no more than what is still missing",
		NotDecided: "byte equality of the round trip; arbitrary chunking beyond the who-may-Read rule; items longer than the 2 GiB item limit (written, then refused by the reader).",
		Run:        runC29,
	})
}

func inFile(c *Ctx, fn *ssa.Function, suffix string) bool {
	root := fn
	for root.Parent() != nil {
		root = root.Parent()
	}
	if !root.Pos().IsValid() {
		return false
	}
	return strings.HasSuffix(c.Fset.Position(root.Pos()).Filename, suffix)
}

func runC29(c *Ctx) {
	var fns []*ssa.Function
	for _, fn := range c.Funcs {
		if fn.Pkg != nil && fn.Pkg.Pkg.Path() == modPath+"/util" && inFile(c, fn, "/util/bytes.go") {
			fns = append(fns, fn)
		}
	}
	c.Floor(nil, "functions of util/bytes.go", len(fns), 30)
	// R29.1 --------------------------------------------------------------------------------------
	c.Rule("R29.1", "WhoMayCall")
	var reads []Site
	for _, fn := range fns {
		for _, in := range allInstrs(fn) {
			if cc := callCommon(in); cc != nil && cc.IsInvoke() && cc.Method.Name() == "Read" && strings.HasSuffix(cc.Value.Type().String(), "io.Reader") {
				reads = append(reads, Site{fn, in})
			}
		}
	}
	c.OnlyIn("direct io.Reader.Read (may return fewer bytes than asked)", reads, 1, "util.EnsureRead")
	ensureReadRules(c)
	if fn := c.Need("util.NewBytesFrameReader"); fn != nil {
		rf := append(c.CallsTo(fn, "io.ReadFull"), c.CallsTo(fn, "util.EnsureRead")...)
		c.Exists(fn, "frame reader reads the version bytes in full (ReadFull / EnsureRead)", rf, 1)
		for _, in := range rf {
			k := 1
			if CalleeFullName(callCommon(in)) == "util.EnsureRead" {
				k = 2
			}
			c.ArgIs(fn, "frame reader reads exactly the version bytes", []ssa.Instruction{in}, 1, k, "var:version[:]")
		}
		c.MP(fn, "frame reader built only if the version was read (or the stream is empty)", c.SuccessReturns(fn), 1,
			GOk("io.ReadFull(*)"), GTrue("errors.Is(io.ReadFull(*)#1, io.EOF)"), GOk("util.EnsureRead(*)"), GTrue("errors.Is(util.EnsureRead(*)#1, io.EOF)"))
	}
	// R29.2 --------------------------------------------------------------------------------------
	c.Rule("R29.2", "Contradiction")
	nRet := 0
	for _, fn := range fns {
		ei := errResultIndex(fn)
		if ei < 0 {
			continue
		}
		for _, r := range Returns(fn) {
			if ei >= len(r.Results) {
				continue
			}
			v := RetVal(r, ei)
			if k, ok := v.(*ssa.Const); ok && k.IsNil() {
				continue
			}
			d := c.D(v)
			if strings.Contains(d, "(") && !strings.HasSuffix(d, "#1") && !strings.HasSuffix(d, "#2") && !strings.HasPrefix(d, "φ(") && !strings.HasPrefix(d, "var:") {
				continue // a freshly constructed error
			}
			nRet++
			res := c.MustPass(fn, nil, []ssa.Instruction{r}, GNil(globEscape(d)))
			known := len(res) == 1 && res[0].OK && res[0].NGates > 0
			c.Report(fn, "returned error value is not known to be nil", c.InstrPos(r), !known, "returns "+d+", which is nil on every path to this return: a rejection that reports success")
		}
	}
	c.Floor(nil, "returns handing back an error variable", nRet, 10)
	// R29.3 --------------------------------------------------------------------------------------
	c.Rule("R29.3", "BoundsGuard")
	nAlloc := 0
	for _, fn := range fns {
		for _, in := range allInstrs(fn) {
			mk, ok := in.(*ssa.MakeSlice)
			if !ok {
				continue
			}
			fromInput := c.DependsOn(mk.Len, func(x ssa.Value) bool {
				if call, ok := x.(*ssa.Call); ok {
					n := CalleeFullName(&call.Call)
					return n == "util.ReadLength" || n == "util.ReadLengthBytes" || n == "util.BytesToUint64"
				}
				return false
			})
			if !fromInput {
				continue
			}
			nAlloc++
			// bounded: the size itself, or the input length it is computed from (a size that is
			// min(missing, chunk) of a bounded length is bounded)
			gates := []Gate{GCmp(globEscape(c.D(mk.Len)), "<=", "*")}
			for x := range c.BackSlice(mk.Len) {
				if ex, ok := x.(*ssa.Extract); ok {
					if call, ok := ex.Tuple.(*ssa.Call); ok {
						switch CalleeFullName(&call.Call) {
						case "util.ReadLength", "util.ReadLengthBytes":
							d := globEscape(c.D(ex))
							gates = append(gates, GCmp(d, "<=", "*"), GCmp(d, "<", "*"))
						}
					}
				}
			}
			c.MP(fn, "allocation sized by an input length is bounded first", []ssa.Instruction{in}, 1, gates...)
		}
	}
	c.Floor(nil, "allocations sized by an input length", nAlloc, 3)
	if fn := c.Need("util.ReadLengthBytes"); fn != nil {
		c.MP(fn, "length part read only from at least 8 bytes", c.CallsD(fn, "util.BytesToUint64(b[:8])"), 1, GCmp("len(b)", ">=", "8"))
	}
	if fn := c.Need("util.ReadLengthedBytes"); fn != nil {
		c.MP(fn, "item cut out only if the announced length fits the rest", nonMatchingReturns(c, fn, 0, "nil"), 1, GCmp("(len(b) - 8)", ">=", "util.ReadLengthBytes(b)#0"))
		c.MP(fn, "item cut out only if the length part was readable", nonMatchingReturns(c, fn, 0, "nil"), 1, GOk("util.ReadLengthBytes(b)"))
		for _, r := range nonMatchingReturns(c, fn, 0, "nil") {
			rr := r.(*ssa.Return)
			c.Report(fn, "item is exactly the announced bytes after the length part", c.InstrPos(r), c.D(RetVal(rr, 0)) == "b[8:(util.ReadLengthBytes(b)#0 + 8)]", c.D(RetVal(rr, 0)))
			c.Report(fn, "rest starts right after the item", c.InstrPos(r), c.D(RetVal(rr, 1)) == "b[(util.ReadLengthBytes(b)#0 + 8):]", c.D(RetVal(rr, 1)))
		}
	}
	// R29.4 --------------------------------------------------------------------------------------
	c.Rule("R29.4", "SiblingAgreement")
	if fn := c.Need("util.WriteLengthed"); fn != nil {
		ws := c.CallsD(fn, "w.Write(*)")
		if c.Exists(fn, "lengthed item: two writes", ws, 2) {
			c.ArgIs(fn, "lengthed item: the length part is the item's length", ws[:1], 1, 0, "util.Uint64ToBytes(len(b))")
			c.ArgIs(fn, "lengthed item: then the bytes themselves", ws[1:2], 1, 0, "b")
			c.MPFrom(fn, nil, "lengthed item: bytes written only after the length part was written", ws[1:2], 1, GOk("w.Write(util.Uint64ToBytes(len(b)))"))
		}
		c.MP(fn, "lengthed item: success only after the bytes were written (or the item is empty)", c.SuccessReturns(fn), 1, GOk("w.Write(b)"), GCmp("len(b)", "<", "1"))
	}
	if fn := c.Need("util.ReadLength"); fn != nil {
		// when the 8 bytes arrived (also together with EOF) the answer is the parse of those bytes
		for _, r := range Returns(fn) {
			l := c.D(RetVal(r, 1))
			if l == "0" {
				c.MP(fn, "length part: a read failure is passed on only if the 8 bytes did not arrive", []ssa.Instruction{r}, 1, GFalse("errors.Is(util.EnsureRead(*)#1, io.EOF)"))
				continue
			}
			c.Report(fn, "length part: the answer is the parse of the 8 bytes read", c.InstrPos(r), l == "util.ReadLengthBytes(var:makeslice[:8])#0" && c.D(RetVal(r, 2)) == "util.ReadLengthBytes(var:makeslice[:8])#1", l+", "+c.D(RetVal(r, 2)))
			c.MP(fn, "length part: parsed only if the 8 bytes arrived", []ssa.Instruction{r}, 1, GOk("util.EnsureRead(*)"), GTrue("errors.Is(util.EnsureRead(*)#1, io.EOF)"))
		}
		c.ArgIs(fn, "length part: exactly 8 bytes are read", c.CallsTo(fn, "util.EnsureRead"), 1, 2, "var:makeslice[:8]")
	}
	lengthedAllocRules(c, false)
	if fn := c.Need("util.ReadLengthed"); fn != nil {
		er := c.CallsTo(fn, "util.EnsureRead")
		c.MP(fn, "lengthed item: bytes read only after the length part was read", er, 1, GOk("util.ReadLength(r)"))
		// data is handed back as complete only if exactly the announced number of bytes was read
		// (one buffer of the announced size filled by EnsureRead, or a grown buffer whose length
		// was compared with the announced length), and then with the read's own result; any
		// other return that carries data carries an error
		oneShot := false
		for _, in := range allInstrs(fn) {
			if mk, ok := in.(*ssa.MakeSlice); ok && c.D(mk.Len) == "util.ReadLength(r)#1" {
				oneShot = true
			}
		}
		nret := 0
		for _, ri := range nonMatchingReturns(c, fn, 1, "nil") {
			r := ri.(*ssa.Return)
			nret++
			errD := c.D(RetVal(r, 2))
			own := strings.HasPrefix(errD, "util.EnsureRead(")
			complete := oneShot || allOK(c.MustPass(fn, nil, []ssa.Instruction{r}, GCmp("len(*)", "==", "util.ReadLength(r)#1"), GCmp("util.ReadLength(r)#1", "==", "len(*)"), GCmp("len(*)", ">=", "util.ReadLength(r)#1")))
			failed := strings.HasPrefix(errD, "errors.Errorf(") || strings.HasPrefix(errD, "errors.New(") ||
				(own && allOK(c.MustPass(fn, nil, []ssa.Instruction{r}, GNonNil("util.EnsureRead(*)#1"))))
			c.Report(fn, "lengthed item: data handed back either complete with the read's own result, or with an error", c.InstrPos(r), (complete && own) || failed,
				fmt.Sprintf("complete=%v own result=%v error=%s", complete, own, errD))
		}
		c.Floor(fn, "lengthed item: returns that carry data", nret, 1)
	}
	// a body that was read reaches the consumer: the frame reader answers success without handing the
	// item to the callback only if nothing was read (the stream had ended) or no callback was given —
	// a last item that arrives together with io.EOF is still an item
	if fn := c.Need("util.(*BytesFrameReader).Lengthed"); fn != nil {
		c.MP(fn, "frame body: success without the callback only if nothing was read", c.SuccessReturns(fn), 1,
			GCalled("call(read)(*)"), GCmp("util.ReadLengthed(f.r)#0", "<", "1"), GNil("read"))
		c.ArgIs(fn, "frame body: the callback gets the bytes that were read", c.CallsD(fn, "call(read)(*)"), 1, 0, "util.ReadLengthed(f.r)#1")
		c.MP(fn, "frame body: read only after the header part was passed", c.CallsTo(fn, "util.ReadLengthed"), 1, GOk("f.exhaustHeader()"))
	}
	for _, t := range []struct{ key, countArg, item, loop string }{
		{"util.WriteLengthedSlice", "util.Uint64ToBytes(len(m))", "util.WriteLengthed(w, m[ι])", "(ι < len(m))"},
		{"util.(*BytesFrameWriter).Header", "util.Uint64ToBytes(len(bs))", "util.WriteLengthed(f.w, bs[ι])", "(ι < len(bs))"},
	} {
		fn := c.Need(t.key)
		if fn == nil {
			continue
		}
		ws := c.CallsD(fn, "*.Write(*)")
		c.ArgIs(fn, "list writer: the count part is the number of items", ws, 1, 0, t.countArg)
		c.ForEach(fn, "list writer: every item is written as a lengthed item", t.loop, 1, GOk(t.item))
		c.MP(fn, "list writer: success only after every item was written", c.SuccessReturns(fn), 1, GLoopDone(t.loop))
		c.MP(fn, "list writer: items written only after the count part", c.CallsD(fn, t.item), 1, GOk("*.Write("+t.countArg+")"))
	}
	listLimitRules(c)
	if fn := c.Need("util.ReadLengthedSlice"); fn != nil {
		loop := "(ι < len(make([][]byte)))"
		var data []ssa.Instruction
		for _, r := range Returns(fn) {
			if c.D(RetVal(r, 1)) != "nil" {
				data = append(data, r)
			}
		}
		c.MP(fn, "list reader: a list is handed back only after the loop over all announced items ended", data, 1, GLoopDone(loop))
		c.MP(fn, "list reader: a list is handed back only if the count part was read", data, 1, GOk("util.ReadLength(r)"), GTrue("errors.Is(util.ReadLength(r)#2, io.EOF)"))
		for _, r := range data {
			c.Report(fn, "list reader: a list comes with a nil error", c.InstrPos(r), c.D(RetVal(r.(*ssa.Return), 2)) == "nil", "")
		}
		sts := c.StoresD(fn, "&make([][]byte)[ι]")
		c.StoredIs(fn, "list reader: an item slot gets the item just read", sts, 1, "util.ReadLengthed(r)#1")
		c.MP(fn, "list reader: an item is stored only if it was read (EOF allowed only on the last item)", sts, 1,
			GOk("util.ReadLengthed(r)"), GTrue("errors.Is(util.ReadLengthed(r)#2, io.EOF)"))
		var ms []ssa.Instruction
		for _, in := range allInstrs(fn) {
			if mk, ok := in.(*ssa.MakeSlice); ok && c.D(mk.Len) == "util.ReadLength(r)#1" {
				ms = append(ms, in)
			}
		}
		c.Exists(fn, "list reader: as many slots as announced items", ms, 1)
	}
	if fn := c.Need("util.ReadLengthedBytesSlice"); fn != nil {
		loop := "(ι < len(make([][]byte)))"
		var data []ssa.Instruction
		for _, r := range Returns(fn) {
			if c.D(RetVal(r, 0)) != "nil" {
				data = append(data, r)
			}
		}
		c.MP(fn, "buffer list reader: a list is handed back only after the loop over all announced items ended", data, 1, GLoopDone(loop))
		c.ForEach(fn, "buffer list reader: every announced item is cut out of the rest", loop, 1, GOk("util.ReadLengthedBytes(*)"))
		c.StoredIs(fn, "buffer list reader: an item slot gets the item just cut out", c.StoresD(fn, "&make([][]byte)[ι]"), 1, "util.ReadLengthedBytes(φ(b[8:]|↺#1))#0")
		c.ArgIs(fn, "buffer list reader: each item is cut from what the previous one left", c.CallsTo(fn, "util.ReadLengthedBytes"), 1, 0, "φ(b[8:]|*#1)")
		var ms []ssa.Instruction
		for _, in := range allInstrs(fn) {
			if mk, ok := in.(*ssa.MakeSlice); ok && c.D(mk.Len) == "util.ReadLengthBytes(b)#0" {
				ms = append(ms, in)
			}
		}
		c.Exists(fn, "buffer list reader: as many slots as announced items", ms, 1)
		for _, r := range data {
			c.Report(fn, "buffer list reader: the rest is what the last item left", c.InstrPos(r), c.D(RetVal(r.(*ssa.Return), 1)) == "φ(b[8:]|util.ReadLengthedBytes(↺)#1)", c.D(RetVal(r.(*ssa.Return), 1)))
		}
	}
	if fn := c.Need("util.NewBytesFrameWriter"); fn != nil {
		c.ArgIs(fn, "frame writer starts with the version bytes", c.CallsD(fn, "w.Write(*)"), 1, 0, "util.bytesFrameVersion[:]")
		c.MP(fn, "frame writer built only if the version was written", c.SuccessReturns(fn), 1, GOk("w.Write(*)"))
	}
	if fn := c.Need("util.(*BytesFrameReader).Header"); fn != nil {
		c.Exists(fn, "frame header is read as a lengthed list", c.CallsD(fn, "util.ReadLengthedSlice(f.r)"), 1)
		c.MP(fn, "frame header is read at most once", c.CallsD(fn, "util.ReadLengthedSlice(f.r)"), 1, GFalse("f.headerRead"))
	}
	if fn := c.Need("util.(*BytesFrameReader).exhaustHeader"); fn != nil {
		c.MP(fn, "an unread frame header is skipped before the body", c.SuccessReturns(fn), 1, GTrue("f.headerRead"), GOk("util.ReadLengthedSlice(f.r)"))
	}
	for _, m := range []string{"Body", "BodyReader", "Lengthed"} {
		if fn := c.Need("util.(*BytesFrameReader)." + m); fn != nil {
			var data []ssa.Instruction
			for _, in := range allInstrs(fn) {
				if cc := callCommon(in); cc != nil {
					n := CalleeFullName(cc)
					if n == "io.ReadAll" || n == "util.ReadLengthed" {
						data = append(data, in)
					}
				}
			}
			if m == "BodyReader" {
				data = c.SuccessReturns(fn)
			}
			c.MP(fn, m+": the body is touched only after the header was consumed", data, 1, GOk("f.exhaustHeader()"))
		}
	}
	_ = fmt.Sprintf
}

// globEscape: a descriptor used as a pattern must match literally.
func globEscape(d string) string {
	return "re:" + regexp.QuoteMeta(d)
}

// ensureReadRules (shared by C29 and C30): EnsureRead fills the whole buffer or fails, asking each
// time for what is still missing.
func ensureReadRules(c *Ctx) {
	if fn := c.Need("util.EnsureRead"); fn != nil {
		// success (nil or EOF passed through) only when the buffer is full
		var okRets []ssa.Instruction
		for _, r := range Returns(fn) {
			d := c.D(RetVal(r, 1))
			if d == "nil" {
				continue // the empty-buffer shortcut, checked below
			}
			if strings.HasPrefix(d, "errors.WithStack(φ(nil|") {
				okRets = append(okRets, r)
			}
		}
		// two such returns: the read-error one (err != nil && !EOF) and the buffer-full one
		var full []ssa.Instruction
		for _, r := range okRets {
			res := c.MustPass(fn, nil, []ssa.Instruction{r}, GCmp("φ(nil|var:j[1])", "!=", "nil"), GFalse("errors.Is(φ(nil|var:j[1]), io.EOF)"))
			_ = res
			full = append(full, r)
		}
		c.Exists(fn, "EnsureRead has a pass-through return", full, 1)
		c.MP(fn, "EnsureRead passes a nil/EOF result through only when the buffer is full (or the reader failed)", full, 1,
			GCmp("var:n", "==", "len(b)"), GFalse("errors.Is(φ(nil|var:j[1]), io.EOF)"))
		c.MP(fn, "EnsureRead: EOF before the buffer is full is an error", c.ReturnsD(fn, 1, "errors.Errorf(\"insufficient read\", nil)"), 1, GTrue("errors.Is(φ(nil|var:j[1]), io.EOF)"))
		c.MP(fn, "EnsureRead: nil error without reading only for an empty buffer", c.ReturnsD(fn, 1, "nil"), 1, GCmp("len(b)", "<", "1"))
		cp := c.CallsD(fn, "copy(b[var:n:], var:j[2])")
		c.Exists(fn, "EnsureRead appends each chunk at the current offset", cp, 1)
		if cl := c.ClosureWithCall(fn, "r.Read(*)"); cl != nil {
			// each chunk asks for no more than what is missing
			var ms []ssa.Instruction
			for _, in := range allInstrs(cl) {
				if mk, ok := in.(*ssa.MakeSlice); ok && c.D(mk.Len) == "(len(b) - var:n)" {
					ms = append(ms, in)
				}
			}
			c.Exists(cl, "EnsureRead asks for exactly the missing bytes", ms, 1)
			// … computed at the time of the read, from the current count (not a size taken earlier)
			for _, in := range ms {
				mk := in.(*ssa.MakeSlice)
				bo, isBin := stripConv(mk.Len).(*ssa.BinOp)
				fresh := false
				if isBin {
					for _, op := range []ssa.Value{bo.X, bo.Y} {
						if ld, ok := stripConv(op).(*ssa.UnOp); ok {
							if fv, ok := ld.X.(*ssa.FreeVar); ok && fv.Name() == "n" {
								fresh = true
							}
						}
					}
				}
				c.Report(cl, "EnsureRead computes the missing size when it reads", c.InstrPos(in), fresh, "the size must be len(b) minus the count read so far, evaluated in the read step")
			}
		}
	}
}

// lengthedAllocRules (shared by C29 and C30 under the caller's current rule): ReadLengthed allocates
// the buffer of an item only for an announced length that passed the limit as an unsigned value.
func lengthedAllocRules(c *Ctx, hostile bool) {
	fn := c.Need("util.ReadLengthed")
	if fn == nil {
		return
	}
	var ms []ssa.Instruction
	for _, in := range allInstrs(fn) {
		if mk, ok := in.(*ssa.MakeSlice); ok && c.DependsOnD(mk.Len, "util.ReadLength(r)#1") {
			ms = append(ms, in)
		}
	}
	c.MP(fn, "lengthed item: buffer allocated only for an announced length within the limit (compared as unsigned)", ms, 1,
		GCmpU("util.ReadLength(r)#1", "<=", "*"), GCmpU("util.ReadLength(r)#1", "<", "*"))
	// every read of the payload asks for no more than what is still missing (a chunk sized by the
	// whole announced length over-reads into the next item of the stream)
	for _, in := range c.CallsTo(fn, "util.EnsureRead") {
		buf := stripConv(CallArg(in, 2))
		if sl, ok := buf.(*ssa.Slice); ok {
			buf = sl.X
		}
		mk, ok := buf.(*ssa.MakeSlice)
		if !ok {
			c.Unresolved(fn, "lengthed item: buffer of a payload read", c.D(buf))
			continue
		}
		okSize := c.D(mk.Len) == "util.ReadLength(r)#1"
		if call, isCall := stripConv(mk.Len).(*ssa.Call); isCall && !okSize {
			if b, isB := call.Call.Value.(*ssa.Builtin); isB && b.Name() == "min" {
				for _, a := range call.Call.Args {
					if bo, isBo := stripConv(a).(*ssa.BinOp); isBo && bo.Op == token.SUB && c.D(bo.X) == "util.ReadLength(r)#1" && strings.HasPrefix(c.D(bo.Y), "len(") {
						okSize = true
					}
				}
			}
		}
		c.Report(fn, "lengthed item: a payload read asks for no more than what is still missing", c.InstrPos(in), okSize, "buffer size "+c.D(mk.Len))
	}
	if !hostile {
		return
	}
	// the whole buffer is allocated before the first payload byte arrives: the limit is what nine bytes
	// from a peer can make the node allocate (and EnsureRead allocates a scratch buffer of the missing
	// size again on every read round)
	const maxUpfront = 64 << 20
	// either the announced length itself is limited to maxUpfront, or every allocation sized by it
	// is capped (min(announced…, constant <= maxUpfront)) so that the buffer grows with the bytes
	// that actually arrived
	var limits []string
	limited := false
	for _, b := range fn.Blocks {
		if len(b.Instrs) == 0 {
			continue
		}
		ifi, isIf := b.Instrs[len(b.Instrs)-1].(*ssa.If)
		if !isIf {
			continue
		}
		bo, isB := ifi.Cond.(*ssa.BinOp)
		if !isB || c.D(bo.X) != "util.ReadLength(r)#1" {
			continue
		}
		k, isK := bo.Y.(*ssa.Const)
		if !isK || k.Value == nil || k.Uint64() <= 1 {
			continue
		}
		limits = append(limits, c.D(bo.Y))
		if k.Uint64() <= maxUpfront {
			limited = true
		}
	}
	capped := func(v ssa.Value) (bool, string) {
		v = stripConv(v)
		if k, ok := v.(*ssa.Const); ok {
			return k.Value != nil && k.Uint64() <= maxUpfront, c.D(v)
		}
		if call, ok := v.(*ssa.Call); ok {
			if b, isB := call.Call.Value.(*ssa.Builtin); isB && b.Name() == "min" {
				for _, a := range call.Call.Args {
					if k, isK := stripConv(a).(*ssa.Const); isK && k.Value != nil && k.Uint64() <= maxUpfront {
						return true, c.D(v)
					}
				}
			}
		}
		return false, c.D(v)
	}
	var bad []string
	n := 0
	for _, in := range allInstrs(fn) {
		mk, ok := in.(*ssa.MakeSlice)
		if !ok {
			continue
		}
		for _, sz := range []ssa.Value{mk.Len, mk.Cap} {
			if !c.DependsOnD(sz, "util.ReadLength(r)#1") {
				continue
			}
			n++
			if okc, d := capped(sz); !okc {
				bad = append(bad, c.Pos(in.Pos())+": make sized "+d)
			}
		}
	}
	c.Report(fn, "lengthed item: a peer-announced length allocates at most 64 MiB before any payload byte arrives", fn.Pos(), limited || (n > 0 && len(bad) == 0),
		"limit(s) on the announced length: "+strings.Join(limits, ", ")+"; allocations sized by it and not capped: "+strings.Join(bad, "; "))
}

// listLimitRules: the stream reader and the buffer reader of a lengthed list refuse the same
// counts — a list one of them accepts is not rejected by the other (sibling agreement on the
// comparison operator and the constant).
func listLimitRules(c *Ctx) {
	type lim struct {
		op  token.Token
		k   string
		pos token.Pos
	}
	find := func(key, count string) (*ssa.Function, []lim) {
		fn := c.Need(key)
		if fn == nil {
			return nil, nil
		}
		var out []lim
		for _, b := range fn.Blocks {
			if len(b.Instrs) == 0 {
				continue
			}
			ifi, ok := b.Instrs[len(b.Instrs)-1].(*ssa.If)
			if !ok {
				continue
			}
			bo, ok := ifi.Cond.(*ssa.BinOp)
			if !ok {
				continue
			}
			k, isK := bo.Y.(*ssa.Const)
			if !isK || c.D(bo.X) != count || k.Value == nil {
				continue
			}
			if k.Int64() <= 1 { // the emptiness tests
				continue
			}
			out = append(out, lim{bo.Op, c.D(bo.Y), ifi.Pos()})
		}
		return fn, out
	}
	sfn, sl := find("util.ReadLengthedSlice", "util.ReadLength(r)#1")
	bfn, bl := find("util.ReadLengthedBytesSlice", "util.ReadLengthBytes(b)#0")
	if sfn == nil || bfn == nil {
		return
	}
	if !c.Floor(sfn, "count limit of the stream reader", len(sl), 1) || !c.Floor(bfn, "count limit of the buffer reader", len(bl), 1) {
		return
	}
	ok := len(sl) == 1 && len(bl) == 1 && sl[0].op == bl[0].op && sl[0].k == bl[0].k
	c.Report(sfn, "stream and buffer list readers refuse the same counts", sfn.Pos(), ok,
		fmt.Sprintf("stream: count %v %s; buffer: count %v %s", sl[0].op, sl[0].k, bl[0].op, bl[0].k))
	if !ok || sl[0].op != token.GTR {
		return
	}
	// the writers refuse what the readers refuse: a list that was written reads back
	for _, t := range [][2]string{{"util.WriteLengthedSlice", "len(m)"}, {"util.(*BytesFrameWriter).Header", "len(bs)"}} {
		fn := c.Need(t[0])
		if fn == nil {
			continue
		}
		ws := c.CallsD(fn, "*.Write(util.Uint64ToBytes("+t[1]+"))")
		c.MP(fn, "list writer: the count part is written only for a count the readers accept", ws, 1, GCmp(t[1], "<=", sl[0].k))
	}
}
