package fix
