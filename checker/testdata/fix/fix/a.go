// Package fix holds tiny positive and negative examples for the rule engines of the checker. Every
// run evaluates the engines on this package first: each "Bad" function must be reported, each "Good"
// one must stay silent. Nothing here is part of mitum.
package fix

import (
	"errors"
	"sync"
)

var errSome = errors.New("some")

func check(x int) error {
	if x < 0 {
		return errSome
	}

	return nil
}

func use() int { return 1 }

func alloc(n int) []byte { return make([]byte, n) }

// ---- must-pass on an error check -------------------------------------------------------------------

func MPGood(x int) (int, error) {
	if err := check(x); err != nil {
		return 0, err
	}

	return use(), nil
}

func MPBad(x int) (int, error) {
	if err := check(x); err != nil && x > 3 {
		return 0, err
	}

	return use(), nil
}

// wrapped error still counts as the call's error
func MPWrapGood(x int) (int, error) {
	err := check(x)
	if err != nil {
		return 0, errors.Join(errSome, err)
	}

	return use(), nil
}

// ---- short-circuit conditions ------------------------------------------------------------------------

func AndGood(a, b bool) int {
	if a && b {
		return use()
	}

	return 0
}

func OrBad(a, b bool) int {
	if a || b {
		return use()
	}

	return 0
}

// ---- comparison implication ----------------------------------------------------------------------------

func CmpGood(n, limit int) []byte {
	if n > limit {
		return nil
	}

	return alloc(n)
}

func CmpBad(n, limit int) []byte {
	if n > limit+1 {
		return nil
	}

	return alloc(n)
}

// switch form of the same check
func CmpSwitchGood(n, limit int) []byte {
	switch {
	case n > limit:
		return nil
	default:
		return alloc(n)
	}
}

// ---- locks ---------------------------------------------------------------------------------------------

type T struct {
	mu sync.RWMutex
	v  int
}

func (t *T) LockGood() {
	t.mu.Lock()
	defer t.mu.Unlock()

	t.v = 1
}

func (t *T) LockSharedBad() {
	t.mu.RLock()
	defer t.mu.RUnlock()

	t.v = 1
}

func (t *T) LockEarlyUnlockBad() {
	t.mu.Lock()
	t.mu.Unlock()

	t.v = 1
}

func (t *T) LockBranchBad(c bool) {
	if c {
		t.mu.Lock()
		defer t.mu.Unlock()
	}

	t.v = 1
}

// ---- loops ---------------------------------------------------------------------------------------------

func EachGood(xs []int) error {
	for i := range xs {
		if err := check(xs[i]); err != nil {
			return err
		}
	}

	return nil
}

func EachBad(xs []int) error {
	for i := range xs {
		if i == 0 {
			continue
		}

		if err := check(xs[i]); err != nil {
			return err
		}
	}

	return nil
}

// ---- who may write ---------------------------------------------------------------------------------------

func WriterAllowed(t *T) { t.v = 2 }

func WriterForeign(t *T) { t.v = 3 }

// ---- ordering (barrier gates) ----------------------------------------------------------------------------

func first()  {}
func second() {}

func OrderGood() {
	first()
	second()
}

func OrderBad(c bool) {
	if c {
		first()
	}

	second()
}

// ---- descriptors: a captured local that may still hold its zero value is not its single store ---------

func DescZero(c bool) int {
	var x int

	f := func() {
		if c {
			x = 5
		}
	}
	f()

	return x
}

func DescInit() int {
	x := 5

	f := func() int { return x }

	return f()
}

// ---- asynchronous capture: a submitted job must not read a variable assigned again -----------------------

type worker struct{}

func (worker) NewJob(f func() error) error { go func() { _ = f() }(); return nil }

func flush([]int) error { return nil }

func AsyncGood(xs []int) {
	var w worker

	batch := []int{}

	for i := range xs {
		batch = append(batch, xs[i])

		if len(batch) == 3 {
			b := batch

			_ = w.NewJob(func() error { return flush(b) })

			batch = nil
		}
	}

	_ = w.NewJob(func() error { return flush(batch) })
}

func AsyncBad(xs []int) {
	var w worker

	batch := []int{}

	for i := range xs {
		batch = append(batch, xs[i])

		if len(batch) == 3 {
			_ = w.NewJob(func() error { return flush(batch) })

			batch = nil
		}
	}
}

func AsyncCallbackBad(xs []int, each func(func(int))) {
	var w worker

	batch := []int{}

	each(func(x int) {
		batch = append(batch, x)

		_ = w.NewJob(func() error { return flush(batch) })
	})
}
