module mitumfix

go 1.22.0
