package main

import (
	"fmt"

	"golang.org/x/tools/go/ssa"
)

func init() {
	Register(&Property{
		ID: "C03",
		Decides: "the validation other nodes apply to a voteproof contains every test the quorum-intersection argument relies on, on every path: " +
			"(R03.1) isaac.IsValidVoteproofWithSuffrage succeeds only after base.IsValidVoteproofWithSuffrage succeeded, every expel passed IsValidExpelWithSuffrage and NewSuffrageWithExpels succeeded, and the (suffrage, threshold) pair handed on is (reduced suffrage, 100) exactly on the expel path and (suffrage, voteproof threshold) otherwise; " +
			"(R03.2) base.IsValidVoteproofWithSuffrage tests every sign fact's node and public key against the suffrage, recounts the votes with the given threshold over the suffrage size and compares result and majority hash; " +
			"(R03.3) base.IsValidVoteproof tests duplicate sign nodes, vote result, every sign fact's validity and point, majority present; " +
			"(R03.4) NewSuffrageWithExpels requires every expel's node signs to reach the threshold count and removes exactly the expelled nodes; " +
			"(R03.5) expel/stuck voteproofs reject duplicate expel nodes and expelled voters; an expel's node signs exclude the expelled node's own; " +
			"(R03.6) all six concrete voteproof IsValid reach base.IsValidVoteproof; (R03.7) IsValidExpelWithSuffrage tests expiry, membership of the expelled node and every signer's key; " +
			"(R03.9) a stuck voteproof (whose recount is skipped) is valid only with an empty majority; (R03.8) the per-expel sign count in NewSuffrageWithExpels is compared with the full threshold count of the unreduced suffrage (violated today by the n-k lowering: known finding).",
		NotDecided: "the quorum-intersection arithmetic itself (that these tests suffice for every n, t, equivocator set) — R03.8 is the one arithmetic fact encoded, found by a reproducer, not derived by the checker; signature cryptography.",
		Run:        runC03,
	})
}

func runC03(c *Ctx) {
	// R03.1 --------------------------------------------------------------------------------
	c.Rule("R03.1", "MustPass")
	if fn := c.Need("isaac.IsValidVoteproofWithSuffrage"); fn != nil {
		succ := c.SuccessReturns(fn)
		noExpels := GCmp("len(φ(nil|vp.Expels()))", "<=", "0")
		c.MP(fn, "success: base.IsValidVoteproofWithSuffrage succeeded", succ, 1, GOkTo("base.IsValidVoteproofWithSuffrage"))
		c.MP(fn, "success: voteproof not nil", succ, 1, GNonNil("vp"))
		c.MP(fn, "success: with expels, NewSuffrageWithExpels succeeded", succ, 1, noExpels, GOkTo("isaac.NewSuffrageWithExpels"))
		c.MP(fn, "success: with expels, the expel loop ran to completion", succ, 1, noExpels, GLoopDone("(ι < len(φ(nil|vp.Expels())))"))
		c.MP(fn, "success: stuck voteproof covers the whole suffrage", succ, 1, GFalse("vp.(base.StuckVoteproof)#1"),
			GCmp("suf.Len()", "==", "(len(vp.SignFacts()) + len(φ(nil|vp.Expels())))"))
		c.ForEach(fn, "each expel: IsValidExpelWithSuffrage succeeded", "(ι < len(φ(nil|vp.Expels())))", 1,
			GOk("isaac.IsValidExpelWithSuffrage(vp.Point().Height(), φ(nil|vp.Expels())[ι], suf)"))
		ns := c.CallsTo(fn, "isaac.NewSuffrageWithExpels")
		c.ArgIs(fn, "NewSuffrageWithExpels: the given suffrage", ns, 1, 0, "suf")
		c.ArgIs(fn, "NewSuffrageWithExpels: the voteproof's threshold", ns, 1, 1, "vp.Threshold()")
		c.ArgIs(fn, "NewSuffrageWithExpels: the voteproof's expels", ns, 1, 2, "φ(nil|vp.Expels())", "vp.Expels()")
		// the (suffrage, threshold) pair
		c.Rule("R03.1p", "Dependence")
		calls := c.CallsTo(fn, "base.IsValidVoteproofWithSuffrage")
		if c.Floor(fn, "base.IsValidVoteproofWithSuffrage calls", len(calls), 1) {
			for _, in := range calls {
				cc := callCommon(in)
				c.Report(fn, "base.IsValidVoteproofWithSuffrage: the same voteproof", c.InstrPos(in), c.D(cc.Args[0]) == "vp", "arg 0: "+c.D(cc.Args[0]))
				ok, w := phiPairs(c, cc.Args[1], cc.Args[2], [][2]string{
					{"suf", "vp.Threshold()"},
					{"isaac.NewSuffrageWithExpels(suf, vp.Threshold(), *)#0", "base.MaxThreshold"},
				})
				c.Report(fn, "base.IsValidVoteproofWithSuffrage: (suffrage, threshold) pairs", c.InstrPos(in), ok, w)
			}
		}
	}
	// R03.2 --------------------------------------------------------------------------------
	c.Rule("R03.2", "MustPass")
	if fn := c.Need("base.IsValidVoteproofWithSuffrage"); fn != nil {
		succ := c.SuccessReturns(fn)
		loop := "(ι < len(vp.SignFacts()))"
		c.ForEach(fn, "each sign fact: node in suffrage", loop, 1, GTrue("suf.Exists(vp.SignFacts()[ι].Node())"))
		c.ForEach(fn, "each sign fact: signer key is the node's key in the suffrage", loop, 1,
			GTrue("suf.ExistsPublickey(vp.SignFacts()[ι].Node(), vp.SignFacts()[ι].Signer())"))
		c.MP(fn, "success: sign-fact loop ran to completion", succ, 1, GLoopDone(loop))
		stuck := GTrue("vp.(base.StuckVoteproof)#1")
		recount := "th.VoteResult(suf.Len(), base.CountBallotSignFacts(vp.SignFacts())#0)"
		c.MP(fn, "success: recounted result equals the voteproof's result", succ, 1, stuck, GCmp(recount+"#0", "==", "vp.Result()"))
		c.MP(fn, "success: on MAJORITY the majority hash equals the recounted one", succ, 1, stuck,
			GCmp(recount+"#0", "!=", "\"MAJORITY\""),
			GTrue("vp.Majority().Hash().Equal(base.CountBallotSignFacts(vp.SignFacts())#1["+recount+"#1].Hash())"))
		c.MP(fn, "success: on MAJORITY the majority is present", succ, 1, stuck,
			GCmp(recount+"#0", "!=", "\"MAJORITY\""), GNonNil("vp.Majority()"))
		c.MP(fn, "success: on DRAW the majority is empty", succ, 1, stuck,
			GCmp(recount+"#0", "!=", "\"DRAW\""), GNil("vp.Majority()"))
	}
	// R03.3 --------------------------------------------------------------------------------
	c.Rule("R03.3", "MustPass")
	if fn := c.Need("base.IsValidVoteproof"); fn != nil {
		succ := c.SuccessReturns(fn)
		c.MP(fn, "success: no duplicated sign node", succ, 1, GOk("base.isValidVoteproofDuplicatedSignNode(vp)"))
		c.MP(fn, "success: vote result consistent", succ, 1, GOk("base.isValidVoteproofVoteResult(vp, networkID)"))
		c.MP(fn, "success: sign facts valid", succ, 1, GOk("base.isValidVoteproofSignFacts(vp, networkID)"))
		c.MP(fn, "success: point/result/threshold valid", succ, 1, GOkTo("util.CheckIsValiders"))
		c.MP(fn, "success: finished", succ, 1, GCmp("vp.Result()", "!=", "\"NOT YET\""))
		c.MP(fn, "success: has sign facts", succ, 1, GCmp("len(vp.SignFacts())", ">=", "1"))
		c.MP(fn, "success: votable stage", succ, 1, GTrue("vp.Point().Stage().CanVote()"))
	}
	if fn := c.Need("base.isValidVoteproofDuplicatedSignNode"); fn != nil {
		c.MP(fn, "success: IsDuplicatedSlice is false", c.SuccessReturns(fn), 1,
			GFalse("util.IsDuplicatedSlice(vp.SignFacts(), func:base.isValidVoteproofDuplicatedSignNode$1)"))
		if cl := c.Need("base.isValidVoteproofDuplicatedSignNode$1"); cl != nil {
			// the key of a non-nil fact is its node's string
			rs := c.ReturnsD(cl, 1, "fact.Node().String()")
			c.Exists(cl, "duplicate key is the sign fact's node", rs, 1)
			c.MP(cl, "empty key only for nil fact/node", c.ReturnsD(cl, 1, "\"\""), 1, GNil("fact"), GNil("fact.Node()"))
			c.Exists(cl, "no other key forms", nonMatchingReturns(c, cl, 1, "fact.Node().String()", "\"\""), 0)
			c.Report(cl, "only the two key forms", cl.Pos(), len(nonMatchingReturns(c, cl, 1, "fact.Node().String()", "\"\"")) == 0, "returns with other key expressions")
		}
	}
	if fn := c.Need("base.isValidVoteproofVoteResult"); fn != nil {
		succ := c.SuccessReturns(fn)
		draw := GCmp("vp.Result()", "==", "\"DRAW\"")
		c.MP(fn, "success: majority fact valid unless draw", succ, 1, draw, GOk("vp.Majority().IsValid(networkID)"))
		c.MP(fn, "success: majority fact's point is the voteproof's unless draw", succ, 1, draw, GOk("base.isValidFactInVoteproof(vp, vp.Majority())"))
		c.MP(fn, "success: majority present unless draw", succ, 1, draw, GNonNil("vp.Majority()"))
		c.MP(fn, "success: draw has no majority", succ, 1, GCmp("vp.Result()", "!=", "\"DRAW\""), GNil("vp.Majority()"))
	}
	if fn := c.Need("base.isValidVoteproofSignFacts"); fn != nil {
		succ := c.SuccessReturns(fn)
		c.MP(fn, "success: every sign fact validated", succ, 1, GOkTo("util.CheckIsValiders"))
		c.MP(fn, "success: majority found among sign facts", succ, 1, GNil("φ(nil|vp.Majority().Hash())"), GTrue("φ(false|true)"))
		if cl := c.Need("base.isValidVoteproofSignFacts$1"); cl != nil {
			s2 := c.SuccessReturns(cl)
			c.MP(cl, "sign fact: IsValid(networkID) succeeded", s2, 1, GOk("vp.SignFacts()[ι].IsValid(networkID)"))
			c.MP(cl, "sign fact: point matches the voteproof", s2, 1, GOk("base.isValidSignFactInVoteproof(vp, vp.SignFacts()[ι])"))
			c.MP(cl, "sign fact: not nil", s2, 1, GNonNil("vp.SignFacts()[ι]"))
		}
	}
	if fn := c.Need("base.isValidFactInVoteproof"); fn != nil {
		c.MP(fn, "success: points equal", c.SuccessReturns(fn), 1, GTrue("vp.Point().Equal(fact.Point())"), GTrue("fact.Point().Equal(vp.Point())"))
	}
	if fn := c.Need("base.isValidSignFactInVoteproof"); fn != nil {
		c.MP(fn, "success: fact point checked", c.SuccessReturns(fn), 1, GOk("base.isValidFactInVoteproof(vp, sf.Fact())"))
	}
	// R03.4 --------------------------------------------------------------------------------
	c.Rule("R03.4", "MustPass")
	if fn := c.Need("isaac.NewSuffrageWithExpels"); fn != nil {
		loop := "(ι < len(expels))"
		full := "threshold.Threshold(suf.Len())"
		lowered := "φ((suf.Len() - len(expels))|" + full + ")"
		bound := expelSignBound(c, fn)
		switch bound {
		case full, lowered:
			c.ForEach(fn, "each expel: node signs reach the threshold count", loop, 1,
				GCmp("len(expels[ι].NodeSigns())", ">=", globEscape(bound)))
		default:
			c.Report(fn, "each expel: node signs reach the threshold count", fn.Pos(), false, "bound of the per-expel sign count: "+bound)
		}
		filtered := c.ReturnsD(fn, 0, "isaac.NewSuffrage(util.Filter2Slices(suf.Nodes(), expels, func:isaac.NewSuffrageWithExpels$1))#0")
		c.Exists(fn, "result is the suffrage without the expelled nodes", filtered, 1)
		c.MPFrom(fn, nil, "reduced suffrage: loop ran to completion", filtered, 1, GLoopDone(loop))
		if bound == lowered {
			// th is lowered only when the number of expels exceeds n - threshold
			c.Report(fn, "threshold lowered only when len(expels) > n - Threshold(n)", fn.Pos(),
				len(c.condsMatching(fn, "(len(expels) > (suf.Len() - threshold.Threshold(suf.Len())))")) == 1,
				"the controlling condition of the lowered threshold")
		}
		// R03.8: the quorum-intersection argument needs every expel to carry a full quorum of signs
		// of the unreduced suffrage; a bound below Threshold(n) lets disjoint signer sets each cut
		// the suffrage down to themselves and produce conflicting 100%-voteproofs with no equivocator.
		c.Rule("R03.8", "Dependence")
		c.Report(fn, "per-expel sign bound is the full threshold count: "+bound, fn.Pos(), bound == full, "bound of the per-expel sign count")
		c.Rule("R03.4", "MustPass")
		if cl := c.Need("isaac.NewSuffrageWithExpels$1"); cl != nil {
			c.Exists(cl, "filter matches the expelled node's address", c.ReturnsD(cl, 0, "x.Address().Equal(y.ExpelFact().Node())"), 1)
		}
	}
	// R03.5 --------------------------------------------------------------------------------
	c.Rule("R03.5", "MustPass")
	if fn := c.Need("isaac.isValidithdrawVoteproof"); fn != nil {
		succ := c.SuccessReturns(fn)
		c.MP(fn, "success: expels valid", succ, 1, GOkTo("util.CheckIsValiderSlice"))
		c.MP(fn, "success: no duplicated expel node", succ, 1, GFalse("util.IsDuplicatedSlice(expels, func:isaac.isValidithdrawVoteproof$1)"))
		c.MP(fn, "success: at least one expel", succ, 1, GCmp("len(expels)", ">=", "1"))
		c.ForEach(fn, "each sign fact: voter is not an expelled node", "(ι < len(ovp.sfs))", 1,
			GCmp("slices.Index(make([]string), ovp.sfs[ι].Node().String())", "<", "0"))
		c.MP(fn, "success: voter loop ran to completion", succ, 1, GLoopDone("(ι < len(ovp.sfs))"))
		if cl := c.Need("isaac.isValidithdrawVoteproof$1"); cl != nil {
			c.Exists(cl, "duplicate key is the expelled node", c.ReturnsD(cl, 1, "i.Fact().Node().String()"), 1)
			sts := c.StoresD(cl, "&make([]string)[*]")
			c.StoredIs(cl, "expelled node recorded for the voter test", sts, 1, "i.Fact().Node().String()")
		}
	}
	if fn := c.Need("isaac.(baseExpelVoteproof).isValid"); fn != nil {
		c.MP(fn, "success: expels checked against the sign facts", c.SuccessReturns(fn), 1, GOk("isaac.isValidithdrawVoteproof(networkID, vp.expels, ovp)"))
	}
	if fn := c.Need("isaac.(baseStuckVoteproof).isValid"); fn != nil {
		c.MP(fn, "success: expels checked against the sign facts", c.SuccessReturns(fn), 1, GOk("isaac.isValidithdrawVoteproof(networkID, vp.expels, ovp)"))
	}
	if fn := c.Need("isaac.(SuffrageExpelOperation).NodeSigns"); fn != nil {
		rs := nonMatchingReturns(c, fn, 0, "nil")
		c.Exists(fn, "non-nil result is filtered", rs, 1)
		for _, r := range rs {
			c.Report(fn, "node signs filtered by the expelled node", c.InstrPos(r), P("util.FilterSlice(op.BaseNodeOperation.NodeSigns(), func:isaac.(SuffrageExpelOperation).NodeSigns$1)").Match(c.D(RetVal(r.(*ssa.Return), 0))), c.D(RetVal(r.(*ssa.Return), 0)))
		}
		if cl := c.Need("isaac.(SuffrageExpelOperation).NodeSigns$1"); cl != nil {
			c.Exists(cl, "filter drops the expelled node's own sign", c.ReturnsD(cl, 0, "!op.Fact().Node().Equal(i.Node())"), 1)
		}
	}
	// R03.6 --------------------------------------------------------------------------------
	c.Rule("R03.6", "MustPass")
	for _, t := range []struct{ typ, inner string }{
		{"INITVoteproof", ""}, {"ACCEPTVoteproof", ""},
		{"INITExpelVoteproof", "baseExpelVoteproof"}, {"ACCEPTExpelVoteproof", "baseExpelVoteproof"},
		{"INITStuckVoteproof", "baseStuckVoteproof"}, {"ACCEPTStuckVoteproof", "baseStuckVoteproof"},
	} {
		fn := c.Need("isaac.(" + t.typ + ").IsValid")
		if fn == nil {
			continue
		}
		succ := c.SuccessReturns(fn)
		c.MP(fn, "success: stage voteproof isValid succeeded", succ, 1, GOkTo("(isaac.INITVoteproof).isValid"), GOkTo("(isaac.ACCEPTVoteproof).isValid"))
		c.MP(fn, "success: hint type checked", succ, 1, GOkTo("(util/hint.BaseHinter).IsValid"))
		if t.inner != "" {
			c.MP(fn, "success: expel part isValid succeeded", succ, 1, GOkTo("(isaac."+t.inner+").isValid"))
		}
		if t.inner == "baseStuckVoteproof" {
			c.MP(fn, "success: stuck threshold is 100", succ, 1, GCmp("vp.threshold", "==", "base.MaxThreshold"))
		}
	}
	for _, t := range []string{"INITVoteproof", "ACCEPTVoteproof"} {
		if fn := c.Need("isaac.(" + t + ").isValid"); fn != nil {
			succ := c.SuccessReturns(fn)
			c.MP(fn, "success: base voteproof IsValid succeeded", succ, 1, GOkTo("(isaac.baseVoteproof).IsValid"))
			c.MP(fn, "success: stage matches the type", succ, 1, GOkTo("base.IsValidINITVoteproof"), GOkTo("base.IsValidACCEPTVoteproof"))
		}
	}
	if fn := c.Need("isaac.(baseVoteproof).IsValid"); fn != nil {
		c.MP(fn, "success: base.IsValidVoteproof succeeded", c.SuccessReturns(fn), 1, GOkTo("base.IsValidVoteproof"))
	}
	if fn := c.Need("base.IsValidINITVoteproof"); fn != nil {
		c.MP(fn, "success: stage is INIT", c.SuccessReturns(fn), 1, GCmp("vp.Point().Stage()", "==", "\"INIT\""))
	}
	if fn := c.Need("base.IsValidACCEPTVoteproof"); fn != nil {
		c.MP(fn, "success: stage is ACCEPT", c.SuccessReturns(fn), 1, GCmp("vp.Point().Stage()", "==", "\"ACCEPT\""))
	}
	// R03.9: a stuck voteproof skips the recount in base.IsValidVoteproofWithSuffrage, so its
	// IsValid must reject a non-empty majority (either in the concrete IsValid or in the shared
	// baseStuckVoteproof.isValid it must pass through, R03.6).
	c.Rule("R03.9", "MustPass")
	innerOK := false
	if in := c.Need("isaac.(baseStuckVoteproof).isValid"); in != nil {
		innerOK = allOK(c.MustPass(in, nil, c.SuccessReturns(in), GNil("ovp.majority"), GNil("ovp.Majority()")))
	}
	for _, t := range []string{"INITStuckVoteproof", "ACCEPTStuckVoteproof"} {
		if fn := c.Need("isaac.(" + t + ").IsValid"); fn != nil {
			own := allOK(c.MustPass(fn, nil, c.SuccessReturns(fn), GNil("vp.majority"), GNil("vp.Majority()")))
			c.Report(fn, "success: stuck voteproof has no majority", fn.Pos(), own || innerOK,
				fmt.Sprintf("nil-majority gate in IsValid: %v; in baseStuckVoteproof.isValid: %v", own, innerOK))
		}
	}
	// R03.7 --------------------------------------------------------------------------------
	c.Rule("R03.7", "MustPass")
	if fn := c.Need("isaac.IsValidExpelWithSuffrage"); fn != nil {
		succ := c.SuccessReturns(fn)
		loop := "(ι < len(expel.NodeSigns()))"
		c.MP(fn, "success: not expired", succ, 1, GCmp("height", "<=", "expel.ExpelFact().ExpelEnd()"))
		c.MP(fn, "success: expelled node is a member", succ, 1, GTrue("suf.Exists(expel.ExpelFact().Node())"))
		c.ForEach(fn, "each sign: signer key is a member's key", loop, 1,
			GTrue("suf.ExistsPublickey(expel.NodeSigns()[ι].Node(), expel.NodeSigns()[ι].Signer())"))
		c.MP(fn, "success: sign loop ran to completion", succ, 1, GLoopDone(loop))
	}
}

// expelSignBound: the descriptor of the value every expel's node-sign count is compared with in
// NewSuffrageWithExpels ("?" when the comparison is not found or ambiguous).
func expelSignBound(c *Ctx, fn *ssa.Function) string {
	out := "?"
	n := 0
	for _, in := range c.condsMatching(fn, "(len(expels[ι].NodeSigns()) * *)") {
		b, ok := in.(*ssa.If).Cond.(*ssa.BinOp)
		if !ok {
			continue
		}
		n++
		out = c.D(b.Y)
	}
	if n != 1 {
		return "?"
	}
	return out
}

func allOK(res []MustPassResult) bool {
	if len(res) == 0 {
		return false
	}
	for _, r := range res {
		if !r.OK {
			return false
		}
	}
	return true
}

// condsMatching lists If instructions whose condition descriptor matches.
func (c *Ctx) condsMatching(fn *ssa.Function, pat string) []ssa.Instruction {
	var out []ssa.Instruction
	for _, b := range fn.Blocks {
		if len(b.Instrs) == 0 {
			continue
		}
		if ifi, ok := b.Instrs[len(b.Instrs)-1].(*ssa.If); ok && P(pat).Match(c.D(ifi.Cond)) {
			out = append(out, ifi)
		}
	}
	return out
}

// nonMatchingReturns: returns whose idx-th result matches none of the patterns.
func nonMatchingReturns(c *Ctx, fn *ssa.Function, idx int, pats ...string) []ssa.Instruction {
	var out []ssa.Instruction
	for _, r := range Returns(fn) {
		if idx >= len(r.Results) {
			continue
		}
		if !matchAny(c.D(RetVal(r, idx)), pats) {
			out = append(out, r)
		}
	}
	return out
}

// phiPairs: a and b are phis of the same block (or plain values); for every incoming edge the pair
// (a-edge, b-edge) must match one of the allowed descriptor pairs, and every allowed pair must occur.
func phiPairs(c *Ctx, a, b ssa.Value, allowed [][2]string) (bool, string) {
	pa, oka := a.(*ssa.Phi)
	pb, okb := b.(*ssa.Phi)
	var pairs [][2]string
	switch {
	case oka && okb && pa.Block() == pb.Block():
		for i := range pa.Edges {
			pairs = append(pairs, [2]string{c.D(pa.Edges[i]), c.D(pb.Edges[i])})
		}
	case !oka && !okb:
		pairs = append(pairs, [2]string{c.D(a), c.D(b)})
	default:
		return false, fmt.Sprintf("operands are not phis of one block: %s ; %s", c.D(a), c.D(b))
	}
	seen := make([]bool, len(allowed))
	for _, pr := range pairs {
		ok := false
		for i, al := range allowed {
			if P(al[0]).Match(pr[0]) && P(al[1]).Match(pr[1]) {
				ok = true
				seen[i] = true
			}
		}
		if !ok {
			return false, fmt.Sprintf("pair (%s, %s) is not allowed", pr[0], pr[1])
		}
	}
	for i, s := range seen {
		if !s {
			return false, fmt.Sprintf("expected pair (%s, %s) does not occur", allowed[i][0], allowed[i][1])
		}
	}
	return true, fmt.Sprintf("pairs: %v", pairs)
}
