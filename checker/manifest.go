package main

import (
	"bufio"
	"encoding/json"
	"fmt"
	"os"
	"path/filepath"
	"sort"
)

// reasons for properties that are not claimed
var naReasons = map[string]string{
}

func writeManifest(verif string) {
	f, err := os.Open(filepath.Join(verif, "properties.jsonl"))
	if err != nil {
		panic(err)
	}
	defer f.Close()
	var all []string
	sc := bufio.NewScanner(f)
	sc.Buffer(make([]byte, 1<<20), 1<<24)
	for sc.Scan() {
		var p struct {
			ID string `json:"id"`
		}
		if json.Unmarshal(sc.Bytes(), &p) == nil && p.ID != "" {
			all = append(all, p.ID)
		}
	}
	sort.Strings(all)
	var checks []map[string]any
	na := []map[string]string{}
	var served []string
	for _, id := range all {
		pr := registry[id]
		if pr == nil {
			r := naReasons[id]
			if r == "" {
				r = "no sound static rule has been built for this property yet (see DESIGN.md); not claimed"
			}
			na = append(na, map[string]string{"property_id": id, "reason": r})
			continue
		}
		served = append(served, id)
		tech := pr.Technique
		if tech == "" {
			tech = "static analysis over go/ssa: gate dominance (must-pass), who-may-write/call, lock-held dataflow, data-dependence"
		}
		checks = append(checks, map[string]any{
			"property_id":         id,
			"quick_cmd":           fmt.Sprintf("./check %s quick", id),
			"thorough_cmd":        fmt.Sprintf("./check %s thorough", id),
			"evidence_file":       fmt.Sprintf("/verif/evidence/%s.json", id),
			"replay_cmd_template": fmt.Sprintf("./check %s quick  # replay file {path} names the violated obligation", id),
			"engine":              "mitumvet",
			"level_claimed": map[string]any{
				"category":   "other",
				"text":       "Structural necessary conditions decided statically on every path of the analysed functions: " + pr.Decides + " Not decided: " + pr.NotDecided,
				"design_ref": "DESIGN.md A.3 " + id,
			},
			"level_note": "Trusted: Go type checker, x/tools go/ssa v0.29.0, the tabled idioms (nil-preserving wrappers, projection methods) confirmed by reading. Decides the named structural clauses only, not the behavioural statement over all inputs/schedules/histories.",
			"technique":  tech,
		})
	}
	m := map[string]any{
		"version":   1,
		"setup_cmd": "cd /verif/checker && GOFLAGS=-mod=mod GOPROXY=off GOSUMDB=off GOTOOLCHAIN=local GOWORK=off go build -o /verif/bin/mitumvet .",
		"hooks": map[string]any{
			"guard":            "verif",
			"enable":           "none needed: static analysis reads /repo's sources; no instrumentation is compiled into mitum",
			"baseline_off_cmd": "cd /repo && go test -vet=off -count=1 -timeout 25m ./...",
			"source_commits":   []string{},
			"add_only":         true,
		},
		"engines": []map[string]any{{
			"name": "mitumvet", "path": "/verif/checker", "serves_properties": served,
			"kind_free_text": "repository-specific static analyzer (go/packages + go/ssa): must-pass gate dominance on the CFG, who-may-write/call/send, lock-held dataflow, key-table and constant-set agreement, field coverage, data dependence, bounds guards, sibling agreement",
		}},
		"checks":         checks,
		"not_applicable": na,
		"notes":          "All checks are static: they load /repo's current working tree with go/packages, build go/ssa and evaluate repository-specific rules; no mitum code is run. known_findings.json lists recorded genuine defects (KNOWN-FINDING lines) and fixed ones.",
	}
	if err := os.WriteFile(filepath.Join(verif, "MANIFEST.json"), marshal(m), 0o644); err != nil {
		panic(err)
	}
}
