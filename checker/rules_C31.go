package main

import (
	"fmt"
	"go/constant"
	"regexp"
	"strings"

	"golang.org/x/tools/go/ssa"
)

func init() {
	Register(&Property{
		ID: "C31",
		Decides: "(R31.1) the printed form is type ++ \"-\" ++ version and the parser cuts at the leftmost match of the separator pattern; a valid Type cannot contain a match of that pattern (Type.IsValid rejects it, its last character is not '-') and every match of the pattern starts with \"-v\" followed by a digit (decided on the pattern constants by enumerating all strings up to length 4 over a 7-letter alphabet); so the leftmost match in a printed hint is the separator; " +
			"(R31.2) the compatible set replaces the entry of (type, major) only for an incompatible or a higher version and always updates value and hint together; lookup reads exactly set[type][major]; the highest-version-per-type table is replaced only by a higher version; " +
			"(R31.3) cache coherence: every cached answer is what the uncached lookup answers for that key, and every change of the set purges the cache; the parse cache stores under the parsed string what parseHint returned for it.",
		NotDecided: "the ordering among prerelease identifiers beyond the structural rules (every difference decides, orientation of each answer); that Version.String() begins with \"v<digit>\" (delegated to golang.org/x/mod/semver through Version.IsValid); a type string that is also a hint string shares one cache key space in CompatibleSet (FindBytTypeString vs FindByString).",
		Run:        runC31,
	})
}

// globalStringInit: the constant string argument of the call that initialises package variable name
// (e.g. regexp.MustCompile(`…`)).
func (c *Ctx) globalStringInit(pkgShort, name string) (string, bool) {
	sp := c.SPkgs[modPath+"/"+pkgShort]
	if sp == nil {
		return "", false
	}
	init := sp.Func("init")
	if init == nil {
		return "", false
	}
	for _, in := range allInstrs(init) {
		st, ok := in.(*ssa.Store)
		if !ok {
			continue
		}
		g, ok := st.Addr.(*ssa.Global)
		if !ok || g.Name() != name {
			continue
		}
		call, ok := st.Val.(*ssa.Call)
		if !ok || len(call.Call.Args) < 1 {
			continue
		}
		k, ok := call.Call.Args[0].(*ssa.Const)
		if !ok || k.Value == nil || k.Value.Kind() != constant.String {
			continue
		}
		return constant.StringVal(k.Value), true
	}
	return "", false
}

func runC31(c *Ctx) {
	// R31.1 --------------------------------------------------------------------------------------
	c.Rule("R31.1", "UnambiguousSplit")
	if fn := c.Need("util/hint.hintString"); fn != nil {
		var parts []string
		for _, in := range c.CallsTo(fn, "(*strings.Builder).WriteString") {
			parts = append(parts, c.D(CallArg(in, 0)))
		}
		c.Report(fn, "printed hint is type ++ \"-\" ++ version", fn.Pos(), strings.Join(parts, " ++ ") == "t.String() ++ \"-\" ++ v.String()", strings.Join(parts, " ++ "))
	}
	if fn := c.Need("util/hint.NewHint"); fn != nil {
		c.Exists(fn, "a new hint's string is the printed form of its type and version", c.CallsD(fn, "hint.hintString(t, v)"), 1)
	}
	if fn := c.Need("util/hint.EnsureParseHint"); fn != nil {
		nh := c.CallsTo(fn, "util/hint.NewHint")
		idx := "hint.regVersion.FindStringIndex(s)[0]"
		c.ArgIs(fn, "parsed type is everything before the leftmost separator match", nh, 1, 0, "s[:"+idx+"]")
		c.ArgIs(fn, "parsed version is everything after the separator's dash", nh, 1, 1, "util.EnsureParseVersion(s[("+idx+" + 1):])")
		c.MP(fn, "the string is cut only if a separator was found", nh, 1, GCmp("len(hint.regVersion.FindStringIndex(s))", ">=", "1"))
	}
	if fn := c.Need("util/hint.parseHint"); fn != nil {
		c.MP(fn, "parse succeeds only if a separator was found", c.SuccessReturns(fn), 1, GCmp("len(hint.regVersion.FindStringIndex(*))", ">=", "1"))
		for _, r := range c.SuccessReturns(fn) {
			c.Report(fn, "parse result is the cut of the trimmed string", c.InstrPos(r), strings.HasPrefix(c.D(RetVal(r.(*ssa.Return), 0)), "hint.EnsureParseHint("), c.D(RetVal(r.(*ssa.Return), 0)))
		}
	}
	if fn := c.Need("util/hint.(Type).IsValid"); fn != nil {
		succ := c.SuccessReturns(fn)
		c.MP(fn, "a valid type contains no match of the separator pattern", succ, 1, GFalse("hint.regVersion.MatchString(t)"))
		c.MP(fn, "a valid type matches the allowed-characters pattern", succ, 1, GTrue("hint.reTypeAllowedChars.Match(t)"))
	}
	if fn := c.Need("util/hint.(Hint).IsValid"); fn != nil {
		c.MP(fn, "a valid hint has a valid type", c.SuccessReturns(fn), 1, GOk("ht.t.IsValid(nil)"))
		c.MP(fn, "a valid hint has a valid version", c.SuccessReturns(fn), 1, GOk("ht.v.IsValid(nil)"))
	}
	// the two pattern constants
	sep, ok1 := c.globalStringInit("util/hint", "regVersion")
	typ, ok2 := c.globalStringInit("util/hint", "reTypeAllowedChars")
	c.Report(nil, "separator and type patterns are constants of the package", 0, ok1 && ok2, sep+" / "+typ)
	if ok1 && ok2 {
		rs, e1 := regexp.Compile(sep)
		rt, e2 := regexp.Compile(typ)
		c.Report(nil, "pattern constants compile", 0, e1 == nil && e2 == nil, "")
		if e1 == nil && e2 == nil {
			alpha := []byte("-v1a_+.")
			var words []string
			var gen func(prefix string, n int)
			gen = func(prefix string, n int) {
				if prefix != "" {
					words = append(words, prefix)
				}
				if n == 0 {
					return
				}
				for _, ch := range alpha {
					gen(prefix+string(ch), n-1)
				}
			}
			gen("", 4)
			badSep, badTyp := "", ""
			for _, w := range words {
				if loc := rs.FindStringIndex(w); loc != nil {
					m := w[loc[0]:loc[1]]
					if !(len(m) >= 3 && m[0] == '-' && m[1] == 'v' && m[2] >= '0' && m[2] <= '9') {
						badSep = m
					}
				}
				if rt.MatchString(w) && (w[len(w)-1] == '-' || w[0] == '-') {
					badTyp = w
				}
			}
			c.Report(nil, "every separator match starts with \"-v\" and a digit", 0, badSep == "", fmt.Sprintf("counter-example %q among %d strings", badSep, len(words)))
			c.Report(nil, "no allowed type starts or ends with '-'", 0, badTyp == "", fmt.Sprintf("counter-example %q among %d strings", badTyp, len(words)))
			c.Report(nil, "the separator pattern matches the printed separator", 0, rs.MatchString("ab-v0.0.1") && rs.FindStringIndex("ab-v0.0.1")[0] == 2, "")
		}
	}
	// R31.2 --------------------------------------------------------------------------------------
	c.Rule("R31.2", "MustPass")
	const S = "util/hint.(*CompatibleSet[T])."
	if fn := c.Need(S + "addWithHint"); fn != nil {
		key := "[ht.Type()][ht.Version().Major()]"
		setU := c.MapUpdatesD(fn, "st.set[ht.Type()]")
		hintU := c.MapUpdatesD(fn, "st.hints[ht.Type()]")
		c.Report(fn, "value and hint tables are updated at the same places", fn.Pos(), len(setU) == len(hintU) && len(setU) >= 3, fmt.Sprintf("%d value updates, %d hint updates", len(setU), len(hintU)))
		for i, in := range setU {
			mu := in.(*ssa.MapUpdate)
			c.Report(fn, fmt.Sprintf("value update %d stores the given value under the hint's major version", i), c.InstrPos(in),
				c.D(mu.Key) == "ht.Version().Major()" && c.D(mu.Value) == "v", c.D(mu.Key)+" = "+c.D(mu.Value))
			// the hint update follows in the same block
			okPair := false
			for _, h := range hintU {
				if h.Block() == in.Block() {
					hm := h.(*ssa.MapUpdate)
					okPair = c.D(hm.Key) == "ht.Version().Major()" && c.D(hm.Value) == "ht"
				}
			}
			c.Report(fn, fmt.Sprintf("value update %d is paired with the hint update", i), c.InstrPos(in), okPair, "")
		}
		// a registered (type, major) entry is replaced only if incompatible or lower than the new one
		var repl []ssa.Instruction
		ex := "st.hints" + key + "#0"
		res := c.MustPass(fn, nil, setU, GTrue("st.hints"+key+"#1"))
		for i, r := range res {
			if r.OK { // reached only when an entry exists
				repl = append(repl, setU[i])
			}
		}
		c.Exists(fn, "replacement sites of an existing entry", repl, 2)
		c.MP(fn, "an existing entry is replaced only by an incompatible or a higher version", repl, 1,
			GFalse(ex+".Version().IsCompatible(ht.Version())"), GCmp("ht.Version().Compare("+ex+".Version())", ">", "0"))
		c.MP(fn, "an entry is stored only for a valid hint", setU, 1, GOk("ht.IsValid(nil)"))
		c.MP(fn, "the same hint is not added twice", repl, 1, GFalse(ex+".Equal(ht)"))
	}
	if fn := c.Need(S + "find"); fn != nil {
		for _, r := range Returns(fn) {
			d := c.D(RetVal(r, 0))
			if strings.HasPrefix(d, "zero(") {
				continue
			}
			c.Report(fn, "lookup answers the entry of (type, major version)", c.InstrPos(r), d == "st.set[ht.Type()]#0[ht.Version().Major()]#0", d)
			c.Report(fn, "lookup reports found exactly if the entry exists", c.InstrPos(r), c.D(RetVal(r, 1)) == "st.set[ht.Type()]#0[ht.Version().Major()]#1", c.D(RetVal(r, 1)))
		}
	}
	if fn := c.Need(S + "add"); fn != nil {
		th := c.MapUpdatesD(fn, "st.typeheads")
		c.MP(fn, "the per-type head is replaced only by a higher version (or set first)", th, 2,
			GFalse("st.typeheadhints[ht.Type()]#1"), GCmp("ht.Version().Compare(st.typeheadhints[ht.Type()]#0.Version())", ">", "0"))
		c.MP(fn, "the per-type head changes only if the hint was accepted", th, 2, GOk("st.addWithHint(ht, v)"))
		hh := c.MapUpdatesD(fn, "st.typeheadhints")
		c.Report(fn, "per-type head value and hint are updated together", fn.Pos(), len(th) == len(hh) && len(th) == 2, fmt.Sprintf("%d / %d", len(th), len(hh)))
	}
	// the version order the set relies on ("highest registered version"): mitum's own prerelease compare
	if fn := c.Need("util.compareVersionPrerelease"); fn != nil {
		dx, dy := "util.versionNextIdent(φ(a|↺#1)[1:])#0", "util.versionNextIdent(φ(b|↺#1)[1:])#0"
		for _, r := range Returns(fn) {
			d := c.D(RetVal(r, 0))
			one := []ssa.Instruction{r}
			switch d {
			case "0":
				c.MP(fn, "prerelease compare: equal only for equal strings", one, 1, GCmp("a", "==", "b"))
			}
		}
		c.MP(fn, "prerelease compare: a release (no prerelease) is higher than any prerelease", c.ReturnsD(fn, 0, "1"), 1,
			GCmp("a", "==", "\"\""), GCmp("b", "!=", "\"\""))
		c.MP(fn, "prerelease compare: a prerelease is lower than the release", c.ReturnsD(fn, 0, "-1"), 1,
			GCmp("b", "==", "\"\""), GCmp("a", "!=", "\"\""))
		// inside the loop: once two identifiers differ, every path answers (no fall-through to the next
		// identifier), and the answer follows the comparison on that path
		var differ *ssa.If
		for _, in := range c.condsMatching(fn, "("+dx+" == "+dy+")") {
			differ = in.(*ssa.If)
		}
		if differ == nil {
			c.Unresolved(fn, "prerelease compare: identifier equality test", "not found")
		} else {
			hdr := c.Loops(fn, "*")
			start := differ.Block().Succs[1]
			res := reachFromBlock(fn, start, nil)
			back := false
			for _, l := range hdr {
				if res.reached[l.Header.Instrs[len(l.Header.Instrs)-1]] {
					back = true
				}
			}
			c.Report(fn, "prerelease compare: two different identifiers always decide (no fall-through to the next identifier)", c.InstrPos(differ), !back && len(hdr) >= 1, "")
			// orientation of each decision
			for _, t := range []struct {
				ret   string
				gates []Gate
				what  string
			}{
				{"-1", []Gate{GCmp("len("+dx+")", "<", "len("+dy+")"), GCmp(dx, "<", dy), GTrue("util.versionIsNum("+dx+")"), GCmp("a", "!=", "\"\"")}, "lower"},
				{"1", []Gate{GCmp("len("+dx+")", ">", "len("+dy+")"), GCmp(dx, ">=", dy), GFalse("util.versionIsNum("+dx+")"), GCmp("a", "==", "\"\"")}, "higher"},
			} {
				var rets []ssa.Instruction
				for _, r := range c.ReturnsD(fn, 0, t.ret) {
					if res.reached[r] {
						rets = append(rets, r)
					}
				}
				c.MP(fn, "prerelease compare: `"+t.what+"` is answered only on a path that compared that way", rets, 2, t.gates...)
			}
		}
	}
	if fn := c.Need("util.(Version).Compare"); fn != nil {
		calls := c.CallsTo(fn, "util.compareVersionMainPart")
		c.Report(fn, "version compare: major, minor, patch in that order, then the prerelease", fn.Pos(), len(calls) == 3 &&
			c.D(CallArg(calls[0], 0)) == "v.major" && c.D(CallArg(calls[1], 0)) == "v.minor" && c.D(CallArg(calls[2], 0)) == "v.patch" &&
			c.D(CallArg(calls[0], 1)) == "b.major" && c.D(CallArg(calls[1], 1)) == "b.minor" && c.D(CallArg(calls[2], 1)) == "b.patch", "")
		c.ArgIs(fn, "version compare: prerelease of the receiver against the argument's", c.CallsTo(fn, "util.compareVersionPrerelease"), 1, 0, "v.prerelease")
		c.ArgIs(fn, "version compare: prerelease of the receiver against the argument's (second)", c.CallsTo(fn, "util.compareVersionPrerelease"), 1, 1, "b.prerelease")
	}
	if fn := c.Need("util.compareVersionMainPart"); fn != nil {
		c.MP(fn, "number compare: 0 only for equal", c.ReturnsD(fn, 0, "0"), 1, GCmp("a", "==", "b"))
		c.MP(fn, "number compare: -1 only for lower", c.ReturnsD(fn, 0, "-1"), 1, GCmp("a", "<", "b"))
		c.MP(fn, "number compare: 1 only for not lower", c.ReturnsD(fn, 0, "1"), 1, GCmp("a", ">=", "b"))
		c.MP(fn, "number compare: 1 only for not equal", c.ReturnsD(fn, 0, "1"), 1, GCmp("a", "!=", "b"))
	}
	// R31.3 --------------------------------------------------------------------------------------
	hintSetCacheRules(c, "R31.3")
	c.Rule("R31.3", "CacheCoherence")
	if fn := c.Need(S + "add"); fn != nil {
		c.MP(fn, "adding a hint purges the cached lookups (when a cache exists)", c.SuccessReturns(fn), 1, GCalled("st.cache.Purge()"), GNil("st.cache"))
		c.Report(fn, "add does not cache an answer of its own", fn.Pos(), len(c.CallsD(fn, "st.cacheSet(*)")) == 0, "")
	}
	// all writers of the tables
	for _, f := range []string{"set", "hints", "typeheads", "typeheadhints"} {
		var sites []Site
		for _, fn := range c.FuncsWithPrefix("util/hint.(*CompatibleSet[T]).") {
			for _, in := range allInstrs(fn) {
				if mu, ok := in.(*ssa.MapUpdate); ok && strings.HasPrefix(c.D(mu.Map), "st."+f) && !strings.HasPrefix(c.D(mu.Map), "st."+f+"h") {
					sites = append(sites, Site{fn, in})
				}
			}
		}
		c.OnlyIn("update of CompatibleSet."+f, sites, 1, S+"addWithHint", S+"add")
	}
	if fn := c.Need(S + "findBytType"); fn != nil {
		for _, in := range c.CallsD(fn, "st.cacheSet(*)") {
			c.ArgIs(fn, "type lookup caches under the requested type", []ssa.Instruction{in}, 1, 0, "t.String()")
		}
	}
	if fn := c.Need("util/hint.ParseHint"); fn != nil {
		sets := c.CallsD(fn, "hint.hintcache.Set(*)")
		c.Exists(fn, "parse results are cached", sets, 2)
		for _, in := range sets {
			c.ArgIs(fn, "parse result cached under the parsed string", []ssa.Instruction{in}, 1, 0, "s")
			v := c.D(CallArg(in, 1))
			c.Report(fn, "cached parse result is what parseHint returned", c.InstrPos(in), v == "&var:ht" || v == "hint.parseHint(s)#1", v)
		}
		c.StoredIs(fn, "the cached hint is parseHint's result for that string", c.StoresD(fn, "&var:ht"), 1, "hint.parseHint(s)#0")
		c.ArgIs(fn, "cache is asked for the string being parsed", c.CallsD(fn, "hint.hintcache.Get(*)"), 1, 0, "s")
	}
}
