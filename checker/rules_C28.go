package main

import (
	"fmt"
	"go/types"
	"sort"
	"strings"

	"golang.org/x/tools/go/ssa"
)

func init() {
	Register(&Property{
		ID: "C28",
		Decides: "(R28.1) every type that can generate its own hash (generateHash()/hash(), own or promoted) and has its own IsValid reports validity only after Hash() was compared equal with the regenerated hash, in that IsValid or in the embedded type's IsValid it succeeds through; " +
			"(R28.2) every field of such a type (embedded parts through their own hash bytes) flows into the hash input, with tabled exemptions; every field of a sign (signer, signature, signed-at, node) is either part of the verified message or the verifying key/signature; " +
			"(R28.3) BaseSign.Verify's message is network id ++ content ++ signed-at of that sign and BaseNodeSign.Verify prefixes the node; the signing constructors build the same message; IsValidSignFact verifies every sign over the fact hash under the caller's network id and rejects a fact that fails its own IsValid; " +
			"(R28.4) kind separation: fact types that share one hash generator (the hint is not hashed) are listed as known finding. The expel facts of a ballot fact are left out of the hashed bytes only when there are none.",
		NotDecided: "the signature scheme itself; ambiguity of the unframed concatenation networkID ++ content; which IsValid a caller runs on a decoded object (covered per consumer in C04/C09/C16).",
		Run:        runC28,
	})
}

// hashGen: the generator method (own or promoted) of t, nil if none.
func hashGen(t *types.Named) (*types.Func, []int) {
	for _, name := range []string{"generateHash", "hash"} {
		obj, idx, _ := types.LookupFieldOrMethod(t, true, t.Obj().Pkg(), name)
		f, ok := obj.(*types.Func)
		if !ok {
			continue
		}
		sig := f.Type().(*types.Signature)
		if sig.Params().Len() != 0 || sig.Results().Len() != 1 || !strings.HasSuffix(types.TypeString(sig.Results().At(0).Type(), nil), "util.Hash") {
			continue
		}
		return f, idx
	}
	return nil, nil
}

func runC28(c *Ctx) {
	// the expel facts of a ballot fact are left out of the hashed bytes only when there are none
	c.Rule("R28.1", "MustPass")
	if parent := c.Need("isaac.(baseBallotFact).hashBytes"); parent != nil {
		n := 0
		for _, f := range WithClosures(parent) {
			if f == parent {
				continue
			}
			rs := c.ReturnsD(f, 0, "nil")
			n += len(rs)
			c.MP(f, "ballot fact hash: the expel facts are skipped only if there are none", rs, 0, GCmp("len(fact.expelfacts)", "<", "1"), GCmp("len(fact.expelfacts)", "==", "0"))
		}
		c.floors["R28.1 empty-expel exits of the ballot fact hash"] = [2]int{1, n}
	}
	// R28.1 --------------------------------------------------------------------------------------
	c.Rule("R28.1", "MustPass")
	var hashed []*types.Named
	var paths []string
	for p := range c.PPkgs {
		paths = append(paths, p)
	}
	sort.Strings(paths)
	for _, p := range paths {
		scope := c.PPkgs[p].Types.Scope()
		for _, name := range scope.Names() {
			tn, ok := scope.Lookup(name).(*types.TypeName)
			if !ok || tn.IsAlias() {
				continue
			}
			n, ok := tn.Type().(*types.Named)
			if !ok || n.TypeParams().Len() > 0 {
				continue
			}
			if _, isStruct := n.Underlying().(*types.Struct); !isStruct {
				continue
			}
			if g, _ := hashGen(n); g != nil {
				hashed = append(hashed, n)
			}
		}
	}
	c.Floor(nil, "types with a hash generator", len(hashed), 15)
	checked := map[string]bool{} // types whose own IsValid recomputes
	var pending []*types.Named
	for _, t := range hashed {
		tn := strings.TrimPrefix(types.TypeString(t, nil), modPath+"/")
		iv := c.ssaOf(ownMethod(t, "IsValid"))
		if iv == nil {
			continue // validated as part of the embedding type
		}
		succ := c.SuccessReturns(iv)
		cut, n := c.buildCut(iv, []Gate{GTrue("*.Equal(*.generateHash())"), GTrue("*.Equal(*.hash())")})
		if n == 0 {
			pending = append(pending, t)
			continue
		}
		_ = cut
		c.MP(iv, tn+": valid only if Hash() equals the regenerated hash", succ, 1, GTrue("*.Equal(*.generateHash())"), GTrue("*.Equal(*.hash())"))
		// the compared value is this object's stored hash and the regenerated one is this object's
		ok := false
		for _, in := range allInstrs(iv) {
			if cc := callCommon(in); cc != nil && cc.IsInvoke() && cc.Method.Name() == "Equal" {
				d := c.D(cc.Value)
				a := c.D(cc.Args[0])
				recv := c.D(iv.Params[0])
				if (strings.HasPrefix(d, recv+".Hash()") || d == recv+".h" || strings.HasPrefix(d, recv+".")) && (a == recv+".generateHash()" || a == recv+".hash()") {
					ok = true
				}
			}
		}
		c.Report(iv, tn+": the comparison is between this object's hash and this object's regenerated hash", iv.Pos(), ok, "")
		checked[tn] = true
	}
	for _, t := range pending {
		tn := strings.TrimPrefix(types.TypeString(t, nil), modPath+"/")
		iv := c.ssaOf(ownMethod(t, "IsValid"))
		// valid only through the IsValid of an embedded type that recomputes (and shares the generator)
		st := t.Underlying().(*types.Struct)
		var gates []Gate
		var via []string
		g, _ := hashGen(t)
		for i := 0; i < st.NumFields(); i++ {
			f := st.Field(i)
			en, ok := f.Type().(*types.Named)
			if !f.Embedded() || !ok {
				continue
			}
			etn := strings.TrimPrefix(types.TypeString(en, nil), modPath+"/")
			eg, _ := hashGen(en)
			if checked[etn] && eg == g {
				gates = append(gates, GOkTo("("+strings.TrimPrefix(types.TypeString(en, nil), modPath+"/")+").IsValid"))
				via = append(via, etn)
			}
		}
		if len(gates) == 0 {
			// an unexported base type that is never validated on its own: every type embedding it must
			// recompute in its own IsValid
			var emb, bad []string
			for _, e := range hashed {
				est := e.Underlying().(*types.Struct)
				for i := 0; i < est.NumFields(); i++ {
					if en, ok := est.Field(i).Type().(*types.Named); ok && est.Field(i).Embedded() && en.Obj() == t.Obj() {
						etn := strings.TrimPrefix(types.TypeString(e, nil), modPath+"/")
						emb = append(emb, etn)
						if !checked[etn] {
							bad = append(bad, etn)
						}
					}
				}
			}
			ok := !t.Obj().Exported() && len(emb) > 0 && len(bad) == 0
			c.Report(iv, tn+": valid only if Hash() equals the regenerated hash", iv.Pos(), ok,
				"IsValid neither recomputes the hash nor succeeds through an embedded type's IsValid that does; embedding types: "+strings.Join(emb, ", ")+"; not recomputing: "+strings.Join(bad, ", "))
			continue
		}
		c.MP(iv, tn+": valid only through "+strings.Join(via, "/")+".IsValid, which recomputes the shared hash", c.SuccessReturns(iv), 1, gates...)
		checked[tn] = true
	}
	// R28.2 --------------------------------------------------------------------------------------
	c.Rule("R28.2", "FieldFlow")
	for _, t := range hashed {
		g, idx := hashGen(t)
		if len(idx) > 1 {
			continue // promoted: covered at the owner
		}
		tn := strings.TrimPrefix(types.TypeString(t, nil), modPath+"/")
		gf := c.ssaOf(g)
		if gf == nil {
			continue
		}
		read, _ := c.fieldUse(t, []*ssa.Function{gf})
		st := t.Underlying().(*types.Struct)
		for i := 0; i < st.NumFields(); i++ {
			f := st.Field(i)
			key := tn + "." + f.Name()
			if why, ex := hashExempt[key]; ex {
				c.Report(gf, key+" is deliberately outside the hash", gf.Pos(), true, why)
				continue
			}
			if isHashItself(f) {
				continue
			}
			c.Report(gf, key+" flows into the hash", gf.Pos(), read[f.Name()], "field is not read by "+g.Name()+"() or the own methods it calls")
			if read[f.Name()] && f.Embedded() {
				c.embeddedFlow(gf, t, f, key, g.Name(), 0)
			}
		}
		// every component of a pair-valued field is hashed; no field is replaced by a constant on some path
		for _, fn := range c.ownClosure(t, gf) {
			for _, in := range allInstrs(fn) {
				switch x := in.(type) {
				case *ssa.Phi:
					var fld string
					hasConst := false
					for _, e := range x.Edges {
						v := e
						for {
							if mi, ok := v.(*ssa.MakeInterface); ok {
								v = mi.X
								continue
							}
							if ci, ok := v.(*ssa.ChangeInterface); ok {
								v = ci.X
								continue
							}
							break
						}
						if k, ok := v.(*ssa.Const); ok && (k.IsNil() || k.Value != nil) {
							hasConst = true
						}
						for fname := range c.tFieldsInDirect(t, v) {
							fld = fname
						}
					}
					if fld != "" && hasConst && !isLoopCounter(x) {
						c.Report(fn, tn+"."+fld+" is hashed unconditionally", c.InstrPos(firstNonPhi(x.Block())), false, "on some path a constant takes the place of the field: "+c.D(x))
					}
				}
			}
		}
		for i := 0; i < st.NumFields(); i++ {
			f := st.Field(i)
			sl, ok := f.Type().Underlying().(*types.Slice)
			if !ok {
				continue
			}
			arr, ok := sl.Elem().Underlying().(*types.Array)
			if !ok || arr.Len() > 4 {
				continue
			}
			seen := map[int64]bool{}
			for _, fn := range c.ownClosure(t, gf) {
				for _, in := range allInstrs(fn) {
					var idx ssa.Value
					var base ssa.Value
					switch x := in.(type) {
					case *ssa.IndexAddr:
						if pt, ok := x.X.Type().Underlying().(*types.Pointer); ok {
							if a, ok := pt.Elem().Underlying().(*types.Array); ok && a.Len() == arr.Len() {
								idx, base = x.Index, x.X
							}
						}
					case *ssa.Index:
						if a, ok := x.X.Type().Underlying().(*types.Array); ok && a.Len() == arr.Len() {
							idx, base = x.Index, x.X
						}
					}
					if idx == nil {
						continue
					}
					if !c.tFieldsIn(t, base)[f.Name()] {
						continue
					}
					if k, ok := constInt(idx); ok {
						seen[int64(k)] = true
					}
				}
			}
			for k := int64(0); k < arr.Len(); k++ {
				c.Report(gf, fmt.Sprintf("%s.%s: component %d of every element flows into the hash", tn, f.Name(), k), gf.Pos(), seen[k], "")
			}
		}
	}
	// signs: every field is in the message, or is the verifying key / the signature
	if t := c.NamedType("base", "BaseSign"); t != nil {
		vf := c.Need("base.(BaseSign).Verify")
		read, _ := c.fieldUse(t, []*ssa.Function{vf})
		for _, f := range []string{"signedAt", "signer", "signature"} {
			c.Report(vf, "BaseSign."+f+" takes part in the verification", vf.Pos(), read[f], "")
		}
	}
	if t := c.NamedType("base", "BaseNodeSign"); t != nil {
		vf := c.Need("base.(BaseNodeSign).Verify")
		read, _ := c.fieldUse(t, []*ssa.Function{vf})
		for _, f := range []string{"node", "BaseSign"} {
			c.Report(vf, "BaseNodeSign."+f+" takes part in the verification", vf.Pos(), read[f], "")
		}
	}
	// the block map: signed bytes cover the manifest hash and every attribute of every item
	if fn := c.Need("isaac/block.(BlockMap).IsValid"); fn != nil {
		succ := c.SuccessReturns(fn)
		c.MP(fn, "block map valid only if its node sign verifies over the signed bytes", succ, 1, GOk("m.Verify(b, m.signedBytes())"))
		c.MP(fn, "block map valid only if manifest and sign are valid", succ, 1, GOk("util.CheckIsValiders(nil, false, *)"))
	}
	if fn := c.Need("isaac/block.(BlockMap).signedBytes"); fn != nil {
		c.Report(fn, "signed bytes cover the manifest hash", fn.Pos(), len(c.CallsD(fn, "m.manifest.Hash()")) == 1 && retDependsOn(c, fn, "m.manifest.Hash()"), "")
		used := map[string]bool{}
		for _, f := range WithClosures(fn) {
			for _, in := range allInstrs(f) {
				if cc := callCommon(in); cc != nil && cc.IsInvoke() && c.D(cc.Value) == "v" {
					used[cc.Method.Name()] = true
				}
			}
		}
		for _, m := range []string{"Checksum", "Type"} {
			c.Report(fn, "signed bytes cover every item's "+m+"()", fn.Pos(), used[m], "item attributes used: "+strings.Join(sortedKeys(used), ","))
		}
	}
	// R28.3 --------------------------------------------------------------------------------------
	c.Rule("R28.3", "MessageShape")
	msg := func(fn *ssa.Function, call ssa.Instruction, want []string, what string) {
		// the varargs slice handed to util.ConcatBytesSlice
		var parts []string
		for _, in := range allInstrs(fn) {
			if st, ok := in.(*ssa.Store); ok && strings.HasPrefix(c.D(st.Addr), "&var:varargs[") {
				parts = append(parts, c.D(st.Val))
			}
		}
		c.Report(fn, what, c.InstrPos(call), strings.Join(parts, " ++ ") == strings.Join(want, " ++ "), "message: "+strings.Join(parts, " ++ "))
	}
	if fn := c.Need("base.(BaseSign).Verify"); fn != nil {
		v := c.CallsD(fn, "si.signer.Verify(*)")
		if c.Exists(fn, "BaseSign.Verify verifies with the sign's own key", v, 1) {
			c.ArgIs(fn, "verified message is the concatenation", v, 1, 0, "util.ConcatBytesSlice(var:varargs[:])")
			c.ArgIs(fn, "verified signature is the sign's own signature", v, 1, 1, "si.signature")
			msg(fn, v[0], []string{"networkID", "b", "localtime.New(si.signedAt).Bytes()"}, "verified message is network id ++ content ++ signed-at")
		}
		c.MP(fn, "verification succeeds only if the key accepted the signature", c.SuccessReturns(fn), 1, GOk("si.signer.Verify(*)"))
	}
	if fn := c.Need("base.NewBaseSignFromBytes"); fn != nil {
		s := c.CallsD(fn, "priv.Sign(*)")
		if c.Exists(fn, "signing constructor signs with the given key", s, 1) {
			msg(fn, s[0], []string{"networkID", "b", "localtime.New(localtime.Now().UTC()).Bytes()"}, "signed message is network id ++ content ++ signed-at")
		}
		// the recorded signed-at is the signed one, the recorded signer is the signing key's public key
		nb := c.CallsTo(fn, "base.NewBaseSign")
		c.ArgIs(fn, "recorded signer is the signing key's public key", nb, 1, 0, "priv.Publickey()")
		c.ArgIs(fn, "recorded signature is the produced one", nb, 1, 1, "priv.Sign(util.ConcatBytesSlice(var:varargs[:]))#0")
		c.ArgIs(fn, "recorded signed-at is the signed one", nb, 1, 2, "localtime.New(localtime.Now().UTC()).Time", "localtime.New(localtime.Now().UTC())", "var:now")
		c.StoredIs(fn, "the signed time is taken once", c.StoresD(fn, "&var:now"), 1, "localtime.New(localtime.Now().UTC())")
	}
	if fn := c.Need("base.(BaseNodeSign).Verify"); fn != nil {
		v := c.CallsD(fn, "si.BaseSign.Verify(*)")
		if c.Exists(fn, "BaseNodeSign.Verify delegates to the sign", v, 1) {
			c.ArgIs(fn, "node sign verified under the caller's network id", v, 1, 0, "networkID")
			c.ArgIs(fn, "node sign message is node ++ content", v, 1, 1, "util.ConcatByters(var:varargs[:])")
			msg(fn, v[0], []string{"si.node", "b"}, "node sign message is node ++ content")
		}
	}
	if fn := c.Need("base.NewBaseNodeSignFromBytes"); fn != nil {
		s := c.CallsTo(fn, "base.NewBaseSignFromBytes")
		if c.Exists(fn, "node signing constructor signs node ++ content", s, 1) {
			msg(fn, s[0], []string{"node", "b"}, "node signed message is node ++ content")
		}
	}
	for _, k := range []string{"base.NewBaseSignFromFact", "base.NewBaseNodeSignFromFact"} {
		if fn := c.Need(k); fn != nil {
			var calls []ssa.Instruction
			calls = append(calls, c.CallsTo(fn, "base.NewBaseSignFromBytes")...)
			calls = append(calls, c.CallsTo(fn, "base.NewBaseNodeSignFromBytes")...)
			idx := 2
			if strings.Contains(k, "Node") {
				idx = 3
			}
			c.ArgIs(fn, "the signed content of a fact is its hash", calls, 1, idx, "fact.Hash().Bytes()")
		}
	}
	if fn := c.Need("base.IsValidSignFact"); fn != nil {
		succ := c.SuccessReturns(fn)
		c.MP(fn, "sign fact valid only if the fact is valid", succ, 1, GOk("util.CheckIsValiders(*)"))
		// the loop that verifies (the other loop over the signs only collects them for IsValid)
		var vloop *Loop
		for _, l := range c.Loops(fn, "(ι < len(sf.Signs()))") {
			l := l
			res := reachFromBlock(fn, l.Body, nil)
			for in := range res.reached {
				if cc := callCommon(in); cc != nil && cc.IsInvoke() && cc.Method.Name() == "Verify" && in.Block() != nil {
					// inside the loop: the header is reachable again from the call
					if reach(fn, in, nil).reached[l.Header.Instrs[len(l.Header.Instrs)-1]] {
						vloop = &l
					}
				}
			}
		}
		if vloop == nil {
			c.Unresolved(fn, "loop verifying every sign", "no loop over sf.Signs() contains a Verify call")
		} else {
			cut, n := c.buildCut(fn, []Gate{GOk("*.Verify(networkID, sf.Fact().Hash().Bytes())")})
			res := reachFromBlock(fn, vloop.Body, cut)
			hdr := vloop.Header.Instrs[len(vloop.Header.Instrs)-1]
			c.Report(fn, "every sign is verified (no iteration completes without a successful Verify)", c.InstrPos(hdr), n > 0 && !res.reached[hdr], "")
			hb := vloop.Header
			done := Gate{Name: "the verifying loop ran to completion", Edges: func(p *Prog, ifi *ssa.If) (bool, bool) {
				if ifi.Block() != hb {
					return false, false
				}
				return false, true
			}}
			c.MP(fn, "sign fact valid only after all signs were verified", succ, 1, done)
		}
		var vs []ssa.Instruction
		for _, in := range allInstrs(fn) {
			if cc := callCommon(in); cc != nil && cc.IsInvoke() && cc.Method.Name() == "Verify" {
				vs = append(vs, in)
			}
		}
		c.ArgIs(fn, "each sign verified under the caller's network id", vs, 1, 0, "networkID")
		c.ArgIs(fn, "each sign verified over the fact hash", vs, 1, 1, "sf.Fact().Hash().Bytes()")
	}
	// R28.4 --------------------------------------------------------------------------------------
	c.Rule("R28.4", "KindSeparation")
	// registered fact kinds (instances of the decoder registry that are facts: they carry a token)
	// sharing one generator: the hint is in no hash input
	byGen := map[*types.Func][]string{}
	for _, e := range c.registryEntries() {
		t, ok := derefNamed(e.instance).(*types.Named)
		if !ok || e.hintObj == nil {
			continue
		}
		if _, isStruct := t.Underlying().(*types.Struct); !isStruct {
			continue
		}
		g, _ := hashGen(t)
		if g == nil {
			continue
		}
		if tok, _, _ := types.LookupFieldOrMethod(t, true, t.Obj().Pkg(), "Token"); tok == nil {
			continue
		}
		byGen[g] = append(byGen[g], strings.TrimPrefix(types.TypeString(t, nil), modPath+"/"))
	}
	var gens []*types.Func
	for g := range byGen {
		gens = append(gens, g)
	}
	sort.Slice(gens, func(i, j int) bool { return gens[i].FullName() < gens[j].FullName() })
	for _, g := range gens {
		ts := byGen[g]
		sort.Strings(ts)
		gf := c.ssaOf(g)
		if len(ts) < 2 {
			continue
		}
		// the hint separates them only if it flows into the hash input
		usesHint := false
		for _, in := range allInstrs(gf) {
			if cc := callCommon(in); cc != nil && (strings.HasSuffix(CalleeFullName(cc), ".Hint") || (cc.IsInvoke() && cc.Method.Name() == "Hint")) {
				usesHint = true
			}
		}
		c.Report(gf, "kinds "+strings.Join(ts, ", ")+" are separated in their shared hash", gf.Pos(), usesHint,
			fmt.Sprintf("%d hinted kinds hash through %s(), which does not include the hint: equal content gives equal hashes across kinds", len(ts), g.Name()))
	}
}

// hashExempt: fields deliberately outside the hash, key "pkg.Type.field".
var hashExempt = map[string]string{}

// isHashItself: the field that stores the hash (h), or the embedded part that stores it (BaseFact,
// BaseHinter): they are the output / the kind label, not hash input.
func isHashItself(f *types.Var) bool {
	if f.Name() == "h" {
		return true
	}
	// the kind label: no hash in the tree includes the hint (kind separation is R28.4)
	if n, ok := f.Type().(*types.Named); ok && f.Embedded() && n.Obj().Name() == "BaseHinter" {
		return true
	}
	return false
}

// ownClosure: fn, its closures, and the own methods of t it calls (transitively, depth 3).
func (c *Ctx) ownClosure(t *types.Named, fn *ssa.Function) []*ssa.Function {
	var out []*ssa.Function
	seen := map[*ssa.Function]bool{}
	var visit func(f *ssa.Function, d int)
	visit = func(f *ssa.Function, d int) {
		if f == nil || seen[f] || d > 3 {
			return
		}
		seen[f] = true
		for _, g := range WithClosures(f) {
			out = append(out, g)
			for _, in := range allInstrs(g) {
				// direct calls and method values (util.DummyByter(fact.baseBallotFact.hashBytes))
				var ops []*ssa.Value
				for _, o := range in.Operands(ops) {
					var cal *ssa.Function
					switch y := (*o).(type) {
					case *ssa.Function:
						cal = y
					case *ssa.MakeClosure:
						cal, _ = y.Fn.(*ssa.Function)
					}
					if cal == nil {
						continue
					}
					if cal.Synthetic != "" && strings.Contains(cal.Synthetic, "bound method") {
						if m, ok := cal.Object().(*types.Func); ok {
							if real := c.SSA.FuncValue(m); real != nil {
								cal = real
							}
						}
					}
					if cal.Blocks != nil && cal.Signature.Recv() != nil && c.inTree(cal.Pkg.Pkg) {
						visit(cal, d+1)
					}
				}
			}
		}
	}
	visit(fn, 0)
	return out
}

// tFieldsInDirect: v is (a load of) a field of t, possibly through an embedded chain.
func (c *Ctx) tFieldsInDirect(t *types.Named, v ssa.Value) map[string]bool {
	out := map[string]bool{}
	st := t.Underlying().(*types.Struct)
	isT := func(x types.Type) bool {
		n, ok := derefNamed(x).(*types.Named)
		return ok && n.Obj() == t.Obj()
	}
	switch y := v.(type) {
	case *ssa.UnOp:
		if fa, ok := y.X.(*ssa.FieldAddr); ok && isT(fa.X.Type()) {
			out[st.Field(fa.Field).Name()] = true
		}
	case *ssa.Field:
		if isT(y.X.Type()) {
			out[st.Field(y.Field).Name()] = true
		}
	}
	return out
}

func isLoopCounter(p *ssa.Phi) bool {
	b, ok := p.Type().Underlying().(*types.Basic)
	return ok && b.Info()&types.IsInteger != 0
}

func firstNonPhi(b *ssa.BasicBlock) ssa.Instruction {
	for _, in := range b.Instrs {
		if _, ok := in.(*ssa.Phi); !ok {
			return in
		}
	}
	return b.Instrs[0]
}

// embeddedFlow: an embedded struct part that the hash generator of outer reads must itself flow
// into the hash field by field (the generator, or the methods it calls on the part, read each of
// its fields) — unless the part has its own hash generator that the outer generator calls (then
// the part is covered where it is declared).
func (c *Ctx) embeddedFlow(gf *ssa.Function, outer *types.Named, f *types.Var, label, gname string, depth int) {
	en, ok := derefNamed(f.Type()).(*types.Named)
	if !ok || depth > 2 || en.Obj().Pkg() == nil || !c.inTree(en.Obj().Pkg()) {
		return
	}
	est, ok := en.Underlying().(*types.Struct)
	if !ok {
		return
	}
	fns := c.ownClosure(outer, gf)
	if eg, _ := hashGen(en); eg != nil {
		if egf := c.ssaOf(eg); egf != nil {
			for _, fn := range fns {
				if fn == egf {
					return // the part's own generator runs: covered at the part
				}
			}
		}
	}
	read, _ := c.fieldUse(en, fns)
	for i := 0; i < est.NumFields(); i++ {
		sf := est.Field(i)
		key := label + "." + sf.Name()
		if why, ex := hashExempt[key]; ex {
			c.Report(gf, key+" is deliberately outside the hash", gf.Pos(), true, why)
			continue
		}
		if isHashItself(sf) {
			continue
		}
		c.Report(gf, key+" flows into the hash", gf.Pos(), read[sf.Name()], "field of the embedded part is not read by "+gname+"() or the methods it calls")
		if read[sf.Name()] && sf.Embedded() {
			c.embeddedFlow(gf, outer, sf, key, gname, depth+1)
		}
	}
}
