package main

import (
	"strings"

	"golang.org/x/tools/go/ssa"
)

func init() {
	Register(&Property{
		ID: "C22",
		Decides: "(R22.1) OperationHashes returns the collected list (ops[:collected] of a buffer, or the list grown by append); an entry is collected only for a record that decoded and passed the filter, as (operation hash, fact hash) of that record, and the iteration continues after collecting only while collected != limit; " +
			"(R22.2) success is reported only after the broken ordered keys and the filtered-out / superseded operations were handed to the removal routines; " +
			"(R22.3) the removal buffers grow by append (no indexed store beyond a fixed length); " +
			"(R22.4) SetOperation writes only when the operation key does not exist yet (idempotence), test and write in one exclusive section of the pool's set lock; " +
			"(R22.5) for a fact found again the superseded entry's operation (not the newly selected one) is queued for removal, the entry is cut out of the collected list and every remembered position above it is shifted down.; (R22.k) every leveldb key builder carries each of its parameters in full under its own prefix constant; (R22.j) jobs handed to a worker read only captured variables that the submitter does not assign again (no job works on a later batch/slot than the one it was created for); (R22.7) the pool is scanned only for a limit of at least one and the result buffer is not sized by the caller's limit up front; (R22.8) reaching the limit does not cut the oldest-first scan off before newer operations of selected facts — R22.8 is violated today, a known finding; after every cut of a superseded entry the walk over all remembered positions runs to its end before the next entry is collected",
		NotDecided: "that the leveldb iteration order is insertion order ('most recently added'); the removal routines' own batching; cache coherence of the operation cache.",
		Run:        runC22,
	})
}

func runC22(c *Ctx) {
	c.Rule("R22.j", "AsyncCapture")
	c.AsyncCaptures(c.Need("isaac/database.(*TempPool).setRemoveNewOperations"), "*.NewJob", 1)
	c.Rule("R22.k", "KeyTable")
	keyBuilderRules(c)
	parent := c.Need("isaac/database.(*TempPool).OperationHashes")
	if parent == nil {
		return
	}
	meta := "isaacdatabase.ReadFrameHeaderOperation(b)#0"
	c.Rule("R22.1", "MustPass")
	all := c.SuccessReturns(parent)
	// an empty answer for a zero limit is "at most L entries" too; everything else goes through the scan
	var succ []ssa.Instruction
	for _, r := range all {
		if c.D(RetVal(r.(*ssa.Return), 0)) == "nil" && allOK(c.MustPass(parent, nil, []ssa.Instruction{r}, GCmp("limit", "<", "1"))) {
			continue
		}
		succ = append(succ, r)
	}
	for _, r := range succ {
		d := c.D(RetVal(r.(*ssa.Return), 0))
		c.Report(parent, "result is the collected prefix of the buffer", c.InstrPos(r), d == "var:ops[:var:opsindex]" || d == "var:ops", d)
	}
	c.Floor(parent, "success returns", len(succ), 1)
	c.Rule("R22.2", "MustPass")
	c.MP(parent, "success: broken ordered keys removed", succ, 1, GOk("db.removeNewOperationOrdereds(*)"))
	c.MP(parent, "success: filtered-out and superseded operations queued for removal", succ, 1, GOk("db.setRemoveNewOperations(ctx, height, var:removeops)"))
	c.MP(parent, "success: iteration succeeded", succ, 1, GOk("*.Iter(*)"))
	// R22.7: "at most L entries" for every L: the scan is entered only for L >= 1 (the first selected
	// entry is stored before the limit is compared), and the result buffer is not sized by the caller's L
	// before a single record was read
	c.Rule("R22.7", "BoundsGuard")
	c.MP(parent, "the pool is scanned only for a limit of at least one", c.CallsD(parent, "*.Iter(*)"), 1, GCmp("limit", ">=", "1"))
	var pre []string
	for _, in := range allInstrs(parent) {
		if mk, ok := in.(*ssa.MakeSlice); ok && c.D(mk.Len) == "limit" {
			pre = append(pre, c.Pos(mk.Pos()))
		}
	}
	c.Report(parent, "the result buffer is not allocated by the caller's limit up front", parent.Pos(), len(pre) == 0,
		"make([][2]util.Hash, limit) at "+strings.Join(pre, ", ")+": a huge limit panics (makeslice) or allocates before any record is read")
	setOperationRules(c)
	var cb *ssa.Function
	for _, f := range WithClosures(parent) {
		if f != parent && len(c.StoresD(f, "&var:ops[var:opsindex]")) > 0 {
			cb = f
		}
	}
	if cb == nil {
		// the list grows by append (no buffer sized by the limit): same obligations on that form
		opHashesAppendForm(c, parent, meta)
		return
	}
	// R22.8: "for a fact submitted several times the most recently added operation is chosen": the scan
	// runs oldest first, so stopping at the limit must not cut off a newer operation of a selected fact
	c.Rule("R22.8", "MustPass")
	stops := c.ReturnsD(cb, 0, "false")
	var atLimit []ssa.Instruction
	for _, r := range stops {
		if allOK(c.MustPass(cb, nil, []ssa.Instruction{r}, GCmp("var:opsindex", "==", "limit"), GCmp("var:opsindex", ">=", "limit"))) {
			atLimit = append(atLimit, r)
		}
	}
	oldestFirst := false
	for _, it := range c.CallsD(parent, "*.Iter(*)") {
		if c.D(CallArg(it, 2)) == "true" {
			oldestFirst = true
		}
	}
	for _, r := range atLimit {
		c.Report(cb, "reaching the limit does not end the scan while newer operations of selected facts may follow", c.InstrPos(r), !oldestFirst,
			"the oldest-first scan returns at opsindex == limit: a newer operation of an already selected fact is never seen and the older one is handed out")
	}
	if len(atLimit) == 0 {
		c.floors["R22.8 stops at the limit (0 is fine: the scan covers the pool)"] = [2]int{0, 0}
	}
	c.Rule("R22.2", "MustPass")
	c.Rule("R22.1", "MustPass")
	col := c.StoresD(cb, "&var:ops[var:opsindex]")
	c.MP(cb, "entry collected only for a decodable record", col, 1, GOk("isaacdatabase.ReadFrameHeaderOperation(b)"))
	c.MP(cb, "entry collected only if the filter passed", col, 1, GTrue("call(var:nfilter)("+meta+")#0"))
	c.MP(cb, "entry collected only if the filter did not fail", col, 1, GOk("call(var:nfilter)("+meta+")"))
	c.StoredIs(cb, "entry's first half is the record's operation hash", c.StoresD(cb, "&var:complit[0]"), 1, meta+".Operation()")
	c.StoredIs(cb, "entry's second half is the record's fact hash", c.StoresD(cb, "&var:complit[1]"), 1, meta+".Fact()")
	// continue after collecting only while collected != limit
	if len(col) == 1 {
		var conts []ssa.Instruction
		res := reach(cb, col[0], nil)
		for _, r := range c.ReturnsD(cb, 0, "true") {
			if res.reached[r] {
				conts = append(conts, r)
			}
		}
		c.MPFrom(cb, col[0], "after collecting, the iteration continues only while collected != limit", conts, 1, GCmp("var:opsindex", "!=", "limit"))
		incs := c.StoresD(cb, "&var:opsindex")
		n := 0
		for _, in := range incs {
			if c.D(in.(*ssa.Store).Val) == "(var:opsindex + 1)" && res.reached[in] {
				n++
			}
		}
		c.Report(cb, "collected count grows by one per collected entry", c.InstrPos(col[0]), n == 1, "increments after the store")
	}
	mus := c.MapUpdatesD(cb, "var:facts")
	okKey := false
	for _, in := range mus {
		mu := in.(*ssa.MapUpdate)
		if c.D(mu.Key) == meta+".Fact().String()" && c.D(mu.Value) == "var:opsindex" {
			okKey = true
		}
	}
	c.Report(cb, "fact position remembered under the record's fact", cb.Pos(), okKey, "facts[fact] = position")
	// R22.3
	c.Rule("R22.3", "BoundsGuard")
	nIdx := 0
	for _, in := range allInstrs(cb) {
		if st, ok := in.(*ssa.Store); ok {
			if ia, ok := st.Addr.(*ssa.IndexAddr); ok {
				d := c.D(ia.X)
				if strings.Contains(d, "removeops") || strings.Contains(d, "removeordereds") {
					nIdx++
					c.Report(cb, "indexed store into a removal buffer", c.InstrPos(in), false, "the number of filtered-out records is not bounded by limit: "+c.D(st.Addr))
				}
			}
		}
	}
	app1 := c.StoresD(cb, "&var:removeops")
	app2 := c.StoresD(cb, "&var:removeordereds")
	c.Report(cb, "removal buffers grow by append", cb.Pos(), nIdx == 0 && len(app1) >= 2 && len(app2) >= 1, "appends to removeops / removeordereds")
	for _, in := range append(app1, app2...) {
		c.Report(cb, "removal buffer store is an append", c.InstrPos(in), strings.HasPrefix(c.D(in.(*ssa.Store).Val), "append("), c.D(in.(*ssa.Store).Val))
	}
	// R22.5
	c.Rule("R22.5", "MustPass")
	dup := "var:facts[" + meta + ".Fact().String()]"
	var supersede, filtered []ssa.Instruction
	for _, in := range c.StoresD(cb, "&var:varargs[0]") {
		d := c.D(in.(*ssa.Store).Val)
		switch d {
		case "var:ops[" + dup + "#0][0]":
			supersede = append(supersede, in)
		case meta + ".Operation()":
			filtered = append(filtered, in)
		case "k":
		default:
			c.Report(cb, "queued for removal: a tabled value", c.InstrPos(in), false, d)
		}
	}
	c.MP(cb, "superseded entry's operation queued only when the fact was found again", supersede, 1, GTrue(dup+"#1"))
	c.MP(cb, "the record's own operation queued only when the filter rejected it", filtered, 1, GFalse("call(var:nfilter)("+meta+")#0"))
	cut := c.StoresD(cb, "&var:ops")
	c.MP(cb, "collected list cut only when the fact was found again", cut, 1, GTrue(dup+"#1"))
	for _, cs := range cut {
		res := reach(cb, cs, nil)
		for _, sp := range supersede {
			c.Report(cb, "superseded operation is read before its entry is cut out of the list", c.InstrPos(sp), !res.reached[sp], "the position refers to the list before the cut")
		}
	}
	dec := 0
	for _, in := range c.StoresD(cb, "&var:opsindex") {
		if c.D(in.(*ssa.Store).Val) == "(var:opsindex - 1)" {
			dec++
			c.MP(cb, "collected count shrinks only when an entry was cut out", []ssaInstr{in}, 1, GTrue(dup+"#1"))
		}
	}
	c.Report(cb, "cutting an entry shrinks the collected count", cb.Pos(), dec == 1, "")
	shift := false
	for _, in := range mus {
		mu := in.(*ssa.MapUpdate)
		if c.D(mu.Key) == "κ(var:facts)" && c.D(mu.Value) == "(var:facts[κ(var:facts)] - 1)" {
			shift = true
			c.MP(cb, "remembered positions above the cut are shifted down", []ssaInstr{in}, 1, GCmp("var:facts[κ(var:facts)]", ">", dup+"#0"))
		}
	}
	c.Report(cb, "remembered positions are shifted after a cut", cb.Pos(), shift, "facts[k]-- for positions above the removed entry")
	// … after every cut: between the cut and the next collected entry the walk over all remembered
	// positions has run to its end (a guard that skips it leaves stale positions behind)
	for _, cs := range cut {
		c.MPFrom(cb, cs, "after a cut every remembered position was visited before the next entry is collected", col, 1, GLoopDone("more(var:facts)"))
	}

}

func setOperationRules(c *Ctx) {
	// R22.4
	c.Rule("R22.4", "MustPass")
	if fn := c.Need("isaac/database.(*TempPool).SetOperation"); fn != nil {
		ex := c.CallsTo(fn, "(*storage/leveldb.PrefixStorage).Exists")
		if c.Exists(fn, "existence test", ex, 1) {
			exD := c.D(ex[0].(ssa.Value))
			var wr []ssa.Instruction
			for _, in := range c.CallsD(fn, "*.Batch(*)") {
				if strings.HasPrefix(CalleeFullName(callCommon(in)), "(*storage/leveldb.PrefixStorage).") {
					wr = append(wr, in)
				}
			}
			c.Held(fn, nil, "existence test and write are one critical section: test under the set lock", ex, 1, "&db.setlock", LW)
			c.Held(fn, nil, "existence test and write are one critical section: write under the set lock", wr, 1, "&db.setlock", LW)
			c.MP(fn, "operation written only if its key does not exist yet", wr, 1, GFalse(exD+"#0"))
			c.MP(fn, "cache updated only after the write succeeded", c.CallsD(fn, "db.setOpCache(op)"), 1, GOk("*.Batch(*)"))
			c.ArgIs(fn, "existence tested under the operation's own key", ex, 1, 0, "isaacdatabase.newNewOperationLeveldbKeys(op.Hash())#0")
		}
	}
}

// opHashesAppendForm: the obligations of R22.1/R22.3/R22.5/R22.8 on an OperationHashes whose
// collected list grows by append (ops = append(ops, entry)) instead of filling a buffer by index.
func opHashesAppendForm(c *Ctx, parent *ssa.Function, meta string) {
	var cb *ssa.Function
	var col []ssa.Instruction
	for _, f := range WithClosures(parent) {
		if f == parent {
			continue
		}
		for _, st := range c.StoresD(f, "&var:ops") {
			if strings.HasPrefix(c.D(st.(*ssa.Store).Val), "append(var:ops, ") {
				cb = f
				col = append(col, st)
			}
		}
	}
	if cb == nil {
		c.Unresolved(parent, "scan callback", "no closure collects into the list (neither by index nor by append)")
		return
	}
	c.Rule("R22.8", "MustPass")
	full := []Gate{GCmp("len(var:ops)", "==", "limit"), GCmp("len(var:ops)", ">=", "limit")}
	var atLimit []ssa.Instruction
	for _, r := range c.ReturnsD(cb, 0, "false") {
		if allOK(c.MustPass(cb, nil, []ssa.Instruction{r}, full...)) {
			atLimit = append(atLimit, r)
		}
	}
	oldestFirst := false
	for _, it := range c.CallsD(parent, "*.Iter(*)") {
		if c.D(CallArg(it, 2)) == "true" {
			oldestFirst = true
		}
	}
	for _, r := range atLimit {
		c.Report(cb, "reaching the limit does not end the scan while newer operations of selected facts may follow", c.InstrPos(r), !oldestFirst,
			"the oldest-first scan returns at opsindex == limit: a newer operation of an already selected fact is never seen and the older one is handed out")
	}
	if len(atLimit) == 0 {
		c.floors["R22.8 stops at the limit (0 is fine: the scan covers the pool)"] = [2]int{0, 0}
	}
	c.Rule("R22.1", "MustPass")
	c.Exists(cb, "one place collects an entry", col, 1)
	c.MP(cb, "entry collected only for a decodable record", col, 1, GOk("isaacdatabase.ReadFrameHeaderOperation(b)"))
	c.MP(cb, "entry collected only if the filter passed", col, 1, GTrue("call(var:nfilter)("+meta+")#0"))
	c.MP(cb, "entry collected only if the filter did not fail", col, 1, GOk("call(var:nfilter)("+meta+")"))
	c.StoredIs(cb, "entry's first half is the record's operation hash", c.StoresD(cb, "&var:complit[0]"), 1, meta+".Operation()")
	c.StoredIs(cb, "entry's second half is the record's fact hash", c.StoresD(cb, "&var:complit[1]"), 1, meta+".Fact()")
	for _, st := range col {
		c.Report(cb, "exactly one entry is appended per record", c.InstrPos(st), c.D(st.(*ssa.Store).Val) == "append(var:ops, var:varargs[:])" && len(c.StoresD(cb, "&var:varargs[0]")) >= 1, c.D(st.(*ssa.Store).Val))
	}
	if len(col) == 1 {
		var conts []ssa.Instruction
		res := reach(cb, col[0], nil)
		for _, r := range c.ReturnsD(cb, 0, "true") {
			if res.reached[r] {
				conts = append(conts, r)
			}
		}
		c.MPFrom(cb, col[0], "after collecting, the iteration continues only while collected != limit", conts, 1, GCmp("len(var:ops)", "!=", "limit"), GCmp("len(var:ops)", "<", "limit"))
		// the position remembered for the fact is the position the entry gets: the length before the append
		mus := c.MapUpdatesD(cb, "var:facts")
		okKey := false
		for _, in := range mus {
			mu := in.(*ssa.MapUpdate)
			if c.D(mu.Key) == meta+".Fact().String()" && c.D(mu.Value) == "len(var:ops)" && !res.reached[in] {
				// no store to the list between remembering the position and appending
				between := reach(cb, in, nil)
				okKey = true
				for _, st := range c.StoresD(cb, "&var:ops") {
					if st != col[0] && between.reached[st] && reachesInstr(cb, st, col[0]) {
						okKey = false
					}
				}
			}
		}
		c.Report(cb, "fact position remembered under the record's fact", cb.Pos(), okKey, "facts[fact] = len(ops) taken right before the entry is appended")
	}
	// R22.3
	c.Rule("R22.3", "BoundsGuard")
	nIdx := 0
	for _, in := range allInstrs(cb) {
		if st, ok := in.(*ssa.Store); ok {
			if ia, ok := st.Addr.(*ssa.IndexAddr); ok {
				d := c.D(ia.X)
				if strings.Contains(d, "removeops") || strings.Contains(d, "removeordereds") {
					nIdx++
					c.Report(cb, "indexed store into a removal buffer", c.InstrPos(in), false, "the number of filtered-out records is not bounded by limit: "+c.D(st.Addr))
				}
			}
		}
	}
	app1 := c.StoresD(cb, "&var:removeops")
	app2 := c.StoresD(cb, "&var:removeordereds")
	c.Report(cb, "removal buffers grow by append", cb.Pos(), nIdx == 0 && len(app1) >= 2 && len(app2) >= 1, "appends to removeops / removeordereds")
	for _, in := range append(app1, app2...) {
		c.Report(cb, "removal buffer store is an append", c.InstrPos(in), strings.HasPrefix(c.D(in.(*ssa.Store).Val), "append("), c.D(in.(*ssa.Store).Val))
	}
	// R22.5
	c.Rule("R22.5", "MustPass")
	dup := "var:facts[" + meta + ".Fact().String()]"
	var supersede, filtered []ssa.Instruction
	for _, in := range c.StoresD(cb, "&var:varargs[0]") {
		d := c.D(in.(*ssa.Store).Val)
		switch d {
		case "var:ops[" + dup + "#0][0]":
			supersede = append(supersede, in)
		case meta + ".Operation()":
			filtered = append(filtered, in)
		case "k", "var:complit":
		default:
			c.Report(cb, "queued for removal: a tabled value", c.InstrPos(in), false, d)
		}
	}
	c.MP(cb, "superseded entry's operation queued only when the fact was found again", supersede, 1, GTrue(dup+"#1"))
	c.MP(cb, "the record's own operation queued only when the filter rejected it", filtered, 1, GFalse("call(var:nfilter)("+meta+")#0"))
	var cut []ssa.Instruction
	for _, st := range c.StoresD(cb, "&var:ops") {
		if st != col[0] {
			cut = append(cut, st)
		}
	}
	c.MP(cb, "collected list cut only when the fact was found again", cut, 1, GTrue(dup+"#1"))
	for _, cs := range cut {
		d := c.D(cs.(*ssa.Store).Val)
		c.Report(cb, "the cut removes exactly the superseded entry", c.InstrPos(cs), d == "slices.Delete(var:ops, "+dup+"#0, ("+dup+"#0 + 1))", d)
		res := reach(cb, cs, nil)
		for _, sp := range supersede {
			c.Report(cb, "superseded operation is read before its entry is cut out of the list", c.InstrPos(sp), !res.reached[sp], "the position refers to the list before the cut")
		}
	}
	shift := false
	for _, in := range c.MapUpdatesD(cb, "var:facts") {
		mu := in.(*ssa.MapUpdate)
		if c.D(mu.Key) == "κ(var:facts)" && c.D(mu.Value) == "(var:facts[κ(var:facts)] - 1)" {
			shift = true
			c.MP(cb, "remembered positions above the cut are shifted down", []ssaInstr{in}, 1, GCmp("var:facts[κ(var:facts)]", ">", dup+"#0"))
		}
	}
	c.Report(cb, "remembered positions are shifted after a cut", cb.Pos(), shift, "facts[k]-- for positions above the removed entry")
	// … after every cut: between the cut and the next collected entry the walk over all remembered
	// positions has run to its end (a guard that skips it leaves stale positions behind)
	for _, cs := range cut {
		c.MPFrom(cb, cs, "after a cut every remembered position was visited before the next entry is collected", col, 1, GLoopDone("more(var:facts)"))
	}
}

// reachesInstr: to is reachable from from within fn.
func reachesInstr(fn *ssa.Function, from, to ssa.Instruction) bool {
	return reach(fn, from, nil).reached[to]
}
