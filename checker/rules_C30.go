package main

import (
	"fmt"
	"go/types"
	"strings"

	"golang.org/x/tools/go/ssa"
)

func init() {
	Register(&Property{
		ID: "C30",
		Decides: "the structural part of the stream header protocol, not the round trip over chunked streams: " +
			"(R30.1) no panic on peer input: every unchecked type assertion of the broker is applied to the header of a readHead call that succeeded for the matching data type, and readHead succeeds only after the checked assertion for that data type; " +
			"(R30.2) writer and reader walk the same layout in the same order: head = data type, lengthed encoder hint, lengthed header bytes; body = data type, body type, a length part exactly for the fixed-length kind, then the bytes; each side's data-type constant is the one the other side requires; " +
			"(R30.3) peer bytes are used only after validation: data type and body type are handed out only if read in full and IsValid, the encoder only if the hint was read and found; the raw reader is touched only by the tabled read helpers (all bounded by C29). A reader that limits a body to its announced length decreases its remaining length by exactly the count the underlying read returned, never asks the stream for more than what is left and hands back that count.",
		NotDecided: "arbitrary chunking (delegated to C29's who-may-Read rule); that a fixed-length body delivers as many bytes as announced (the broker hands out a reader limited to the announced length; a short stream ends it early without an error); panics inside the registered header decoders.",
		Run:        runC30,
	})
}

func runC30(c *Ctx) {
	const B = "network/quicstream/header.(*baseBroker)."
	pkgFns := c.FuncsWithPrefix("network/quicstream/header.")
	// R30.1 --------------------------------------------------------------------------------------
	c.Rule("R30.1", "NoPanic")
	nTA := 0
	for _, fn := range pkgFns {
		if !inFile(c, fn, "/header/broker.go") {
			continue
		}
		for _, in := range allInstrs(fn) {
			ta, ok := in.(*ssa.TypeAssert)
			if !ok || ta.CommaOk || !strings.HasSuffix(types.TypeString(ta.X.Type(), nil), "quicstream/header.Header") {
				continue // only assertions on a (peer-supplied) header value
			}
			nTA++
			kind := ""
			switch {
			case strings.HasSuffix(types.TypeString(ta.AssertedType, nil), ".RequestHeader"):
				kind = "RequestHeaderDataType"
			case strings.HasSuffix(types.TypeString(ta.AssertedType, nil), ".ResponseHeader"):
				kind = "ResponseHeaderDataType"
			}
			src := c.D(ta.X)
			okSrc := strings.HasPrefix(src, "broker.readHead(ctx, ") && strings.HasSuffix(src, "#1")
			c.Report(fn, "unchecked type assertion is applied to a header read by readHead", c.InstrPos(in), okSrc && kind != "", "asserts "+types.TypeString(ta.AssertedType, nil)+" on "+src)
			if !okSrc || kind == "" {
				continue
			}
			call := strings.TrimSuffix(src, "#1")
			dt := strings.TrimSuffix(strings.TrimPrefix(call, "broker.readHead(ctx, "), ")")
			one := []ssa.Instruction{in}
			c.MP(fn, "unchecked type assertion only after readHead succeeded", one, 1, GOk(globEscape(call)))
			c.MP(fn, "unchecked type assertion only for the matching data type", one, 1, GCmp(globEscape(dt), "==", "quicstreamheader."+kind))
		}
	}
	c.Floor(nil, "unchecked type assertions in the broker", nTA, 3)
	if fn := c.Need(B + "readHead"); fn != nil {
		succ := nonMatchingReturns(c, fn, 0, "nil") // returns that hand out an encoder and a header
		// the two checked assertions, told apart by their type argument
		n := 0
		for _, in := range allInstrs(fn) {
			cc := callCommon(in)
			if cc == nil || CalleeFullName(cc) != "util.AssertInterfaceValue" {
				continue
			}
			cal := CalleeOf(cc)
			targ := ""
			if f, ok := cc.Value.(*ssa.Function); ok && len(f.TypeArgs()) == 1 {
				targ = types.TypeString(f.TypeArgs()[0], nil)
			}
			_ = cal
			kind := ""
			switch {
			case strings.HasSuffix(targ, ".RequestHeader"):
				kind = "RequestHeaderDataType"
			case strings.HasSuffix(targ, ".ResponseHeader"):
				kind = "ResponseHeaderDataType"
			}
			n++
			c.Report(fn, "checked assertion is for a header kind", c.InstrPos(in), kind != "", "type argument "+targ)
			if kind != "" {
				c.MP(fn, "header checked as "+strings.TrimSuffix(kind, "DataType")+" exactly for that data type", []ssa.Instruction{in}, 1, GCmp("dataType", "==", "quicstreamheader."+kind))
			}
			c.ArgIs(fn, "the checked value is the decoded header", []ssa.Instruction{in}, 1, 0, "var:header")
		}
		c.Report(fn, "readHead checks the header kind for both header data types", fn.Pos(), n == 2, fmt.Sprintf("%d checked assertions", n))
		c.MP(fn, "readHead succeeds only after the header kind was checked", succ, 1, GOk("util.AssertInterfaceValue(var:header)"))
		c.MP(fn, "readHead succeeds only if the header was decoded", succ, 1, GOk("encoder.Decode(*)"))
		c.MP(fn, "readHead succeeds only for a header data type", succ, 1,
			GCmp("dataType", "==", "quicstreamheader.RequestHeaderDataType"), GCmp("dataType", "==", "quicstreamheader.ResponseHeaderDataType"))
		for _, r := range succ {
			c.Report(fn, "readHead hands out the decoded and checked header", c.InstrPos(r), c.D(RetVal(r.(*ssa.Return), 1)) == "var:header", c.D(RetVal(r.(*ssa.Return), 1)))
		}
	}
	// R30.2 --------------------------------------------------------------------------------------
	c.Rule("R30.2", "SiblingAgreement")
	if fn := c.Need(B + "writeHead"); fn != nil {
		w1 := c.CallsD(fn, "broker.write(ctx, dataType[:])")
		w2 := c.CallsD(fn, "broker.writeLengthed(ctx, broker.Encoder.Hint().Bytes())")
		w3 := c.CallsD(fn, "broker.writeLengthed(ctx, broker.Encoder.Marshal(header)#0)")
		c.Exists(fn, "head writer: data type part", w1, 1)
		c.MP(fn, "head writer: encoder hint after the data type", w2, 1, GOk("broker.write(ctx, dataType[:])"))
		c.MP(fn, "head writer: header bytes after the encoder hint", w3, 1, GOk("broker.writeLengthed(ctx, broker.Encoder.Hint().Bytes())"))
		c.MP(fn, "head writer: success only after the header bytes were written", c.SuccessReturns(fn), 1, GOk("broker.writeLengthed(ctx, broker.Encoder.Marshal(header)#0)"))
		c.MP(fn, "head writer: nothing written for an unknown data type", w1, 1, GOk("dataType.IsValid(nil)"))
		c.MP(fn, "head writer: nothing written for a header that does not marshal", w1, 1, GOk("broker.Encoder.Marshal(header)"))
	}
	if fn := c.Need(B + "readHead"); fn != nil {
		c.MP(fn, "head reader: header bytes after the encoder hint", c.CallsD(fn, "broker.readLengthed(ctx)"), 1, GOk("broker.readEncoder(ctx)"))
		c.ArgIs(fn, "head reader: header decoded with the announced encoder", c.CallsD(fn, "encoder.Decode(*)"), 1, 0, "broker.readEncoder(ctx)#0")
		c.ArgIs(fn, "head reader: the header bytes are what is decoded", c.CallsD(fn, "encoder.Decode(*)"), 1, 1, "broker.readLengthed(ctx)#0")
	}
	if fn := c.Need(B + "readEncoder"); fn != nil {
		c.Exists(fn, "head reader: the encoder hint is a lengthed item", c.CallsD(fn, "broker.readLengthed(ctx)"), 1)
	}
	for _, t := range []struct{ w, r, dt string }{
		{"network/quicstream/header.(*ClientBroker).WriteRequestHead", "network/quicstream/header.(*HandlerBroker).ReadRequestHead", "quicstreamheader.RequestHeaderDataType"},
		{"network/quicstream/header.(*HandlerBroker).WriteResponseHead", "network/quicstream/header.(*ClientBroker).ReadResponseHead", "quicstreamheader.ResponseHeaderDataType"},
	} {
		if fn := c.Need(t.w); fn != nil {
			c.ArgIs(fn, "head is written under its own data type", c.CallsD(fn, "broker.writeHead(*)"), 1, 1, t.dt)
		}
		if parent := c.Need(t.r); parent != nil {
			if cl := c.ClosureWithCall(parent, "broker.readHead(*)"); cl != nil {
				rh := c.CallsD(cl, "broker.readHead(*)")
				c.MP(cl, "head is read only under the data type the writer uses", rh, 1, GCmp("broker.readDataType(ctx)#0", "==", t.dt))
				c.MP(cl, "head is read only after the data type was read", rh, 1, GOk("broker.readDataType(ctx)"))
				c.ArgIs(cl, "head is read for the data type just read", rh, 1, 1, "broker.readDataType(ctx)#0")
			} else {
				c.Unresolved(parent, "closure reading the head", "not found")
			}
		}
	}
	if fn := c.Need(B + "writeBody"); fn != nil {
		w1 := c.CallsD(fn, "broker.write(ctx, quicstreamheader.BodyDataType[:])")
		w2 := c.CallsD(fn, "broker.write(ctx, bodyType[:])")
		wl := c.CallsD(fn, "broker.writeLength(ctx, bodyLength)")
		wr := c.CallsD(fn, "broker.writeReader(*)")
		c.Exists(fn, "body writer: body data type part", w1, 1)
		c.MP(fn, "body writer: body type after the data type", w2, 1, GOk("broker.write(ctx, quicstreamheader.BodyDataType[:])"))
		c.MP(fn, "body writer: length part after the body type", wl, 1, GOk("broker.write(ctx, bodyType[:])"))
		c.MP(fn, "body writer: length part exactly for the fixed-length kind", wl, 1, GCmp("bodyType", "==", "quicstreamheader.FixedLengthBodyType"))
		c.MP(fn, "body writer: bytes after the body type", wr, 1, GOk("broker.write(ctx, bodyType[:])"))
		c.MP(fn, "body writer: for the fixed-length kind the bytes follow the length part", wr, 1,
			GOk("broker.writeLength(ctx, bodyLength)"), GCmp("bodyType", "==", "quicstreamheader.StreamBodyType"), GCmp("bodyType", "==", "quicstreamheader.EmptyBodyType"))
		c.MP(fn, "body writer: nothing written for an unknown body type", w1, 1, GOk("bodyType.IsValid(nil)"))
		c.MP(fn, "body writer: success only after the bytes were written (if any)", c.SuccessReturns(fn), 1, GOk("broker.writeReader(*)"), GNil("φ(body|nil)"))
	}
	if parent := c.Need(B + "readBody"); parent != nil {
		if cl := c.ClosureWithCall(parent, "broker.readBodyType(ctx)"); cl != nil {
			rl := c.CallsD(cl, "broker.readLength(ctx)")
			c.MP(cl, "body reader: length part exactly for the fixed-length kind", rl, 1, GCmp("var:bodyType", "==", "quicstreamheader.FixedLengthBodyType"))
			c.MP(cl, "body reader: length part after the body type", rl, 1, GOk("broker.readBodyType(ctx)"), GTrue("errors.Is(broker.readBodyType(ctx)#1, io.EOF)"))
			c.StoredIs(cl, "body reader: the announced length is what the length part says", c.StoresD(cl, "&var:bodyLength"), 1, "broker.readLength(ctx)#0")
			// the reader handed out for a fixed-length body: the one store to body that is neither the empty
			// buffer nor the raw stream
			var limited ssa.Instruction
			var limitedType types.Type
			for _, in := range c.StoresD(cl, "&var:body") {
				v := in.(*ssa.Store).Val
				d := c.D(v)
				if d == "broker.Reader" {
					continue
				}
				t := v.Type()
				if mi, ok := v.(*ssa.MakeInterface); ok {
					t = mi.X.Type()
				}
				if strings.HasSuffix(types.TypeString(t, nil), "bytes.Buffer") {
					continue
				}
				limited, limitedType = in, t
			}
			if limited == nil {
				c.Unresolved(cl, "body reader: the reader of a fixed-length body", "no store of a limiting reader to body")
			} else {
				lim := []ssa.Instruction{limited}
				c.MP(cl, "body reader: a fixed-length body is handed out only if its length part was read", lim, 1, GOk("broker.readLength(ctx)"), GTrue("errors.Is(broker.readLength(ctx)#1, io.EOF)"))
				// limited to the announced length: io.NewSectionReader(_, 0, bodyLength) or a literal with a field set from it
				bound := false
				for _, call := range c.CallsTo(cl, "io.NewSectionReader") {
					bound = bound || c.D(CallArg(call, 2)) == "var:bodyLength"
				}
				for _, call := range c.CallsTo(cl, "io.LimitReader") {
					bound = bound || c.D(CallArg(call, 1)) == "var:bodyLength"
				}
				for _, st := range c.StoresD(cl, "&var:complit.*") {
					if st.Block() == limited.Block() && c.D(st.(*ssa.Store).Val) == "var:bodyLength" {
						bound = true
					}
				}
				c.Report(cl, "body reader: a fixed-length body is limited to the announced length", c.InstrPos(limited), bound, types.TypeString(limitedType, nil))
				// an early end of the stream is an error for the consumer, not the end of the body
				early := false
				why := "reader type " + types.TypeString(limitedType, nil) + " passes a plain io.EOF through when the stream ends before the announced length"
				if n, ok := derefNamed(limitedType).(*types.Named); ok && n.Obj().Pkg() != nil && c.inTree(n.Obj().Pkg()) {
					if rd := c.ssaOf(ownMethod(n, "Read")); rd != nil {
						for _, r := range Returns(rd) {
							if len(r.Results) == 2 && c.D(RetVal(r, 1)) == "io.ErrUnexpectedEOF" {
								if allOK(c.MustPass(rd, nil, []ssa.Instruction{r}, GTrue("errors.Is(*, io.EOF)"), GCmp("*", "==", "io.EOF"))) {
									early = true
								}
							}
						}
						why = "Read of " + n.Obj().Name() + " answers io.ErrUnexpectedEOF when the inner read reports EOF with bytes left: " + fmt.Sprint(early)
						limitedReadRules(c, rd)
					}
				}
				c.Report(cl, "body reader: a fixed-length body that ends early is reported as an error", c.InstrPos(limited), early, why)
			}
			c.StoredIs(cl, "body reader: body type is the one read", c.StoresD(cl, "&var:bodyType"), 1, "broker.readBodyType(ctx)#0")
			// a fixed-length body stays the empty buffer only for length 0 (or a stream that ended)
			var empty []ssa.Instruction
			for _, in := range c.StoresD(cl, "&var:body") {
				if in.Block() != nil && len(rl) == 1 && in.Block() == storeBlock(c, cl, "&var:bodyLength") {
					empty = append(empty, in)
				}
			}
			if c.Exists(cl, "body reader: the fixed-length case starts from the empty body", empty, 1) {
				sect := limited
				c.MPFrom(cl, empty[0], "body reader: the empty body is kept only for length 0 or an ended stream", c.SuccessReturns(cl), 1,
					Gate{Name: "limited reader installed", Barrier: func(p *Prog, in ssa.Instruction) bool { return sect != nil && in == sect }},
					GCmp("var:bodyLength", "<=", "0"), GTrue("errors.Is(broker.readLength(ctx)#1, io.EOF)"))
			}
		} else {
			c.Unresolved(parent, "closure reading the body", "not found")
		}
	}
	if parent := c.Need(B + "ReadBody"); parent != nil {
		c.MP(parent, "body is read only after its data type was accepted", c.CallsD(parent, "broker.readBody(ctx)"), 1, GOk("call(network/quicstream/header.(*baseBroker).ReadBody$1)()"))
		if cl := c.ClosureWithCall(parent, "broker.readDataType(ctx)"); cl != nil {
			c.MP(cl, "body data type is accepted only if it is the body or the response-head data type", c.SuccessReturns(cl), 1,
				GCmp("broker.readDataType(ctx)#0", "==", "quicstreamheader.BodyDataType"), GCmp("broker.readDataType(ctx)#0", "==", "quicstreamheader.ResponseHeaderDataType"))
			c.MP(cl, "body data type is accepted only if it was read", c.SuccessReturns(cl), 1, GOk("broker.readDataType(ctx)"))
		}
	}
	// R30.3 --------------------------------------------------------------------------------------
	c.Rule("R30.3", "ValidatedInput")
	for _, t := range []struct{ fn, buf, isvalid string }{
		{"readDataType", "var:dataType[:]", "var:dataType.IsValid(nil)"},
		{"readBodyType", "var:bodyType[:]", "var:bodyType.IsValid(nil)"},
	} {
		parent := c.Need(B + t.fn)
		if parent == nil {
			continue
		}
		cl := c.ClosureWithCall(parent, "broker.read(ctx, "+t.buf+")")
		if cl == nil {
			c.Unresolved(parent, t.fn+": closure reading the type byte", "not found")
			continue
		}
		for _, r := range c.SuccessReturns(parent) {
			_ = r
		}
		c.MP(parent, t.fn+": a type is handed out only if the read-and-validate step succeeded", nonMatchingReturns(c, parent, 0, "quicstreamheader.Unknown*"), 1,
			GOk("call("+c.FuncKey(cl)+")()"))
		// inside: validity is the verdict, and it is reached only after the byte was read
		iv := c.CallsD(cl, t.isvalid)
		c.MP(cl, t.fn+": validated only after the byte was read (EOF with a full read allowed)", iv, 1,
			GOk("broker.read(ctx, "+t.buf+")"), GTrue("errors.Is(broker.read(ctx, "+t.buf+")#1, io.EOF)"))
		ok := false
		for _, r := range Returns(cl) {
			if c.D(RetVal(r, 0)) == t.isvalid {
				ok = true
			}
		}
		c.Report(cl, t.fn+": the verdict is the type's own IsValid", cl.Pos(), ok, "")
		c.MP(cl, t.fn+": success only through IsValid", c.SuccessReturns(cl), 1, GOk(t.isvalid))
	}
	if fn := c.Need(B + "readEncoder"); fn != nil {
		enc := nonMatchingReturns(c, fn, 0, "nil")
		c.MP(fn, "encoder handed out only if its hint was read", enc, 1, GOk("broker.readLengthed(ctx)"))
		c.MP(fn, "encoder handed out only if it was found", enc, 1, GTrue("broker.Encoders.CompatibleSet.FindByString(*)#2"))
		c.MP(fn, "encoder handed out only if the lookup did not fail", enc, 1, GNil("broker.Encoders.CompatibleSet.FindByString(*)#3"))
	}
	c.OnlyIn("use of the raw reader of a broker", c.WhoTouches("baseBroker", "Reader"), 4,
		"network/quicstream/header.newBaseBroker", B+"read", B+"readLength", B+"readLengthed", B+"readBody")
	ensureReadRules(c)
	lengthedAllocRules(c, true)
	for _, t := range [][2]string{{"read", "util.EnsureRead"}, {"readLength", "util.ReadLength"}, {"readLengthed", "util.ReadLengthed"}} {
		if fn := c.Need(B + t[0]); fn != nil {
			c.Exists(fn, t[0]+" reads through "+t[1], c.CallsTo(fn, t[1]), 1)
		}
	}
}

// storeBlock: the block of the (first) store to the address rendered as addr in fn.
func storeBlock(c *Ctx, fn *ssa.Function, addr string) *ssa.BasicBlock {
	for _, in := range c.StoresD(fn, addr) {
		return in.Block()
	}
	return nil
}

// limitedReadRules: the Read of an in-tree reader that limits a stream to an announced length.
// Its remaining-length counter must follow the bytes that really came: every store to it subtracts
// exactly the count the inner Read returned (a count taken from the size of the buffer asked for
// ends the body early on a short read and leaves its rest to be parsed as the next message), the
// inner Read is never asked for more than what is left, and the count handed to the caller is the
// inner read's.
func limitedReadRules(c *Ctx, rd *ssa.Function) {
	inner := c.CallsTo(rd, "(io.Reader).Read")
	if !c.Exists(rd, "limited reader: one read of the underlying stream", inner, 1) || len(inner) != 1 {
		return
	}
	in := inner[0]
	cnt := c.D(in.(ssa.Value)) + "#0"
	// the counter: stores to a field of the receiver of unsigned type
	var stores []ssa.Instruction
	field := ""
	for _, x := range allInstrs(rd) {
		st, ok := x.(*ssa.Store)
		if !ok {
			continue
		}
		fa, isFA := st.Addr.(*ssa.FieldAddr)
		if !isFA || !isUnsigned(st.Val.Type()) || len(rd.Params) == 0 || fa.X != ssa.Value(rd.Params[0]) {
			continue
		}
		stores = append(stores, x)
		field = strings.TrimPrefix(c.D(st.Addr), "&")
	}
	if !c.Exists(rd, "limited reader: the remaining length is updated", stores, 1) {
		return
	}
	for _, x := range stores {
		d := c.D(x.(*ssa.Store).Val)
		c.Report(rd, "limited reader: the remaining length shrinks by exactly the count the underlying read returned", c.InstrPos(x), d == "("+field+" - "+cnt+")", d)
	}
	// never asks for more than what is left
	arg := CallArg(in, 0)
	detail := "limited reader: the underlying stream is never asked for more than what is left"
	if phi, isPhi := arg.(*ssa.Phi); isPhi {
		for _, e := range phi.Edges {
			d := c.D(e)
			if d == "p[:"+field+"]" {
				continue
			}
			// the whole buffer only where its size was compared with what is left
			c.MPEdge(rd, detail+" (buffer "+d+")", c.PhiLeafEdges(phi, globEscape(d)), 1, GCmp("len("+d+")", "<=", field))
		}
	} else if d := c.D(arg); d != "p[:"+field+"]" {
		c.MP(rd, detail+" (buffer "+d+")", []ssa.Instruction{in}, 1, GCmp("len("+d+")", "<=", field))
	}
	for _, r := range Returns(rd) {
		d := c.D(RetVal(r, 0))
		c.Report(rd, "limited reader: the count handed back is the underlying read's (or zero)", c.InstrPos(r), d == cnt || d == "0", d)
	}
}
