package main

import (
	"fmt"
	"go/types"
	"strings"

	"golang.org/x/tools/go/ssa"
)

func init() {
	Register(&Property{
		ID: "C24",
		Decides: "(R24.1) in every Set function of the pool the existence test and the dependent write lie in one exclusive critical section of the pool's set lock; the write happens only on the not-found edge and `stored` is reported only after the write succeeded; " +
			"(R24.2) ballots are written and read under the same key builder with (stage point, suffrage-confirm flag) of the ballot resp. the query; a proposal and its point index are written in one batch, the index keyed by the proposal fact's (point, proposer, previous block) and holding the fact hash, and lookup by point resolves through that stored hash; " +
			"(R24.3) cleanup deletes a keyed entry only if its height is unparsable or not above top-minus-depth, depth steps below the newest height, with the configured depths being positive constants set only by the constructor.; (R24.k) every leveldb key builder carries each of its parameters in full under its own prefix constant; (R24.f) in every storage key a variable-length part is the last part or is preceded by its length frame (two tuples of parts never give one key)",
		NotDecided: "first-writer-wins across process restarts; two different proposal facts for one (point, proposer, previous block) — the point index keeps the last one; leveldb's own atomicity.",
		Run:        runC24,
	})
}

// poolCleanDepthRules: the configured clean depths are positive constants written only by the
// constructor (shared with C08: a zero depth purges the current height's local ballot).
func poolCleanDepthRules(c *Ctx, rule string) {
	c.Rule(rule, "ConstSet")
	ctor := c.Need("isaac/database.newTempPool")
	for _, f := range []string{"cleanRemovedBallotDeep", "cleanRemovedProposalDeep"} {
		sites := c.WhoStores("TempPool", f)
		c.OnlyIn("store TempPool."+f, sites, 1, "isaac/database.newTempPool")
		for _, s := range sites {
			st := s.In.(*ssa.Store)
			k, ok := constInt(st.Val)
			c.Report(s.Fn, "TempPool."+f+" is a positive constant", c.InstrPos(s.In), ok && k >= 1, "stored "+c.D(st.Val))
		}
	}
	_ = ctor
	if fn := c.Need("isaac/database.(*TempPool).cleanBallots"); fn != nil {
		c.ArgIs(fn, "ballots cleaned with the configured ballot depth", c.CallsD(fn, "db.cleanByHeight(*)"), 1, 1, "db.cleanRemovedBallotDeep")
		c.ArgIs(fn, "ballots cleaned under the ballot key prefix", c.CallsD(fn, "db.cleanByHeight(*)"), 1, 0, "isaacdatabase.leveldbKeyPrefixBallot")
	}
	if fn := c.Need("isaac/database.(*TempPool).cleanByHeight"); fn != nil {
		// the reference height is lowered exactly `deep` times from the newest height
		c.Exists(fn, "reference height is lowered once per depth step", toInstr(c.Loops(fn, "(ι < len(make([]int)))")), 1)
		var ms []ssa.Instruction
		for _, in := range allInstrs(fn) {
			if mk, ok := in.(*ssa.MakeSlice); ok && c.D(mk.Len) == "deep" {
				ms = append(ms, in)
			}
		}
		c.Exists(fn, "number of depth steps is the configured depth", ms, 1)
		del := c.CallsD(fn, "*.Delete(var:keys[ι][0])")
		c.MP(fn, "entry deleted only if its height is unparsable or not above newest-minus-depth", del, 1,
			GNil("var:keys[ι][2]"), GCmp("var:keys[ι][2]", "<=", "φ(var:top|↺.SafePrev())*"))
		c.MP(fn, "nothing deleted while the newest height is within 3 of genesis", del, 1, GCmp("(var:top - 3)", ">=", "base.GenesisHeight"))
	}
	if parent := c.Need("isaac/database.(*TempPool).cleanByHeight"); parent != nil {
		if cl := c.ClosureWithStore(parent, "&var:top"); cl != nil {
			st := c.StoresD(cl, "&var:top")
			c.MP(cl, "newest height only ever grows", st, 1, GCmp("isaacdatabase.heightFromKey(key, prefix)#0", ">", "var:top"))
			c.StoredIs(cl, "newest height taken from the entry's key", st, 1, "isaacdatabase.heightFromKey(key, prefix)#0")
		}
	}
}

func runC24(c *Ctx) {
	c.Rule("R24.k", "KeyTable")
	keyBuilderRules(c)
	unframedKeyPartsRule(c, "R24.f")
	// R24.1 --------------------------------------------------------------------------------------
	c.Rule("R24.1", "AtomicSection")
	for _, t := range []struct {
		fn, write string
		onFound   bool // the write is on the found edge (RemoveEmptyHeight)
	}{
		{"SetBallot", "*.Put(*)", false},
		{"SetProposal", "*.Batch(*)", false},
		{"SetOperation", "*.Batch(*)", false},
		{"AddEmptyHeight", "*.Put(*)", false},
		{"RemoveEmptyHeight", "*.Delete(*)", true},
	} {
		fn := c.Need("isaac/database.(*TempPool)." + t.fn)
		if fn == nil {
			continue
		}
		ex := c.CallsTo(fn, "(*storage/leveldb.PrefixStorage).Exists")
		var wr []ssa.Instruction
		for _, in := range c.CallsD(fn, t.write) {
			name := CalleeFullName(callCommon(in))
			if strings.HasPrefix(name, "(*storage/leveldb.PrefixStorage).") {
				wr = append(wr, in)
			}
		}
		c.Held(fn, nil, t.fn+": existence test under the set lock", ex, 1, "&db.setlock", LW)
		c.Held(fn, nil, t.fn+": dependent write under the set lock", wr, 1, "&db.setlock", LW)
		if len(ex) == 1 && len(wr) >= 1 {
			exD := c.D(ex[0].(ssa.Value))
			key := c.D(CallArg(ex[0], 0))
			if t.onFound {
				c.MP(fn, t.fn+": removal only if the key exists", wr, 1, GTrue(exD+"#0"))
			} else {
				c.MP(fn, t.fn+": write only if the key does not exist yet", wr, 1, GFalse(exD+"#0"))
			}
			c.MP(fn, t.fn+": write only after the existence test succeeded", wr, 1, GOk(exD))
			c.MP(fn, t.fn+": `stored` reported only after the write succeeded", c.ReturnsD(fn, 0, "true"), 1, GOk(t.write))
			// no unlock between test and write: same critical section (the lock is released by defer only)
			unl := c.CallsD(fn, "db.setlock.Unlock()")
			n := 0
			for _, u := range unl {
				if _, isDefer := u.(*ssa.Defer); !isDefer {
					n++
				}
			}
			c.Report(fn, t.fn+": one critical section (lock released only on return)", fn.Pos(), n == 0, fmt.Sprintf("%d explicit unlocks", n))
			// the written key is the tested key
			if t.fn == "SetBallot" || t.fn == "AddEmptyHeight" || t.fn == "RemoveEmptyHeight" {
				c.ArgIs(fn, t.fn+": written key is the tested key", wr, 1, 0, key)
			}
		}
	}
	c.OnlyIn("use of TempPool.setlock", c.WhoTouches("TempPool", "setlock"), 10,
		"isaac/database.(*TempPool).SetBallot", "isaac/database.(*TempPool).SetProposal", "isaac/database.(*TempPool).SetOperation",
		"isaac/database.(*TempPool).AddEmptyHeight", "isaac/database.(*TempPool).RemoveEmptyHeight")
	// R24.2 --------------------------------------------------------------------------------------
	c.Rule("R24.2", "KeyTable")
	if fn := c.Need("isaac/database.(*TempPool).SetBallot"); fn != nil {
		ex := c.CallsTo(fn, "(*storage/leveldb.PrefixStorage).Exists")
		c.ArgIs(fn, "ballot stored under (its stage point, its suffrage-confirm flag)", ex, 1, 0,
			"isaacdatabase.leveldbBallotKey(bl.Point(), isaac.IsSuffrageConfirmBallotFact(bl.SignFact().Fact()))")
		put := c.CallsD(fn, "*.Put(*)")
		c.ArgIs(fn, "stored bytes are the encoded ballot", put, 1, 1, "isaacdatabase.EncodeFrame(db.enc, nil, bl)#1")
	}
	if fn := c.Need("isaac/database.(*TempPool).Ballot"); fn != nil {
		get := c.CallsD(fn, "*.Get(*)")
		c.ArgIs(fn, "ballot looked up under (queried stage point, queried flag)", get, 1, 0,
			"isaacdatabase.leveldbBallotKey(base.NewStagePoint(point, stage), isSuffrageConfirm)")
		found := nonMatchingReturns(c, fn, 0, "nil")
		c.MP(fn, "a ballot is returned only if found", found, 1, GTrue("*.Get(*)#1"))
	}
	if fn := c.Need("isaac/database.leveldbBallotKey"); fn != nil {
		c.Report(fn, "ballot key depends on the stage point", fn.Pos(), retDependsOn(c, fn, "point.Bytes()"), "")
		c.Report(fn, "ballot key depends on the suffrage-confirm flag", fn.Pos(), len(c.condsMatching(fn, "isSuffrageConfirm")) == 1, "")
		c.Report(fn, "ballot key lives under the ballot prefix", fn.Pos(), retDependsOn(c, fn, "isaacdatabase.leveldbKeyPrefixBallot"), "")
	}
	if fn := c.Need("isaac/database.leveldbProposalPointKey"); fn != nil {
		c.Report(fn, "proposal point key depends on the whole point (height and round)", fn.Pos(), retDependsOn(c, fn, "point.Bytes()"), "")
		c.Report(fn, "proposal point key depends on the proposer", fn.Pos(), retDependsOn(c, fn, "proposer.Bytes()"), "")
		c.Report(fn, "proposal point key depends on the previous block", fn.Pos(), retDependsOn(c, fn, "previousBlock.Bytes()"), "")
		c.Report(fn, "proposal point key lives under the by-point prefix", fn.Pos(), retDependsOn(c, fn, "isaacdatabase.leveldbKeyPrefixProposalByPoint"), "")
	}
	if fn := c.Need("isaac/database.leveldbProposalKey"); fn != nil {
		c.Report(fn, "proposal key depends on the fact hash", fn.Pos(), retDependsOn(c, fn, "h.Bytes()"), "")
		c.Report(fn, "proposal key lives under the proposal prefix", fn.Pos(), retDependsOn(c, fn, "isaacdatabase.leveldbKeyPrefixProposal"), "")
	}
	if fn := c.Need("isaac/database.(*TempPool).SetProposal"); fn != nil {
		puts := c.CallsD(fn, "*.Put(*)")
		if c.Floor(fn, "batched puts", len(puts), 2) {
			b0 := c.D(callCommon(puts[0]).Args[0])
			for _, p := range puts {
				c.Report(fn, "proposal and point index go into one batch", c.InstrPos(p), c.D(callCommon(p).Args[0]) == b0, c.D(callCommon(p).Args[0]))
			}
			bt := c.CallsD(fn, "*.Batch(*)")
			c.ArgIs(fn, "that batch is the one written", bt, 1, 0, b0)
		}
		var idx, main []ssa.Instruction
		for _, p := range puts {
			if strings.HasPrefix(c.D(CallArg(p, 0)), "isaacdatabase.leveldbProposalPointKey(") {
				idx = append(idx, p)
			} else {
				main = append(main, p)
			}
		}
		c.ArgIs(fn, "point index keyed by the proposal fact's (point, proposer, previous block)", idx, 1, 0,
			"isaacdatabase.leveldbProposalPointKey(pr.ProposalFact().Point(), pr.ProposalFact().Proposer(), pr.ProposalFact().PreviousBlock())")
		c.ArgIs(fn, "point index holds the proposal fact's hash", idx, 1, 1, "pr.Fact().Hash().Bytes()")
		c.ArgIs(fn, "proposal stored under its fact hash", main, 1, 0, "isaacdatabase.leveldbProposalKey(pr.Fact().Hash())")
		pk := "isaacdatabase.leveldbProposalPointKey(pr.ProposalFact().Point(), pr.ProposalFact().Proposer(), pr.ProposalFact().PreviousBlock())"
		c.ArgIs(fn, "existence tested under the proposal's own key (and, for the index, under the index key)", c.CallsTo(fn, "(*storage/leveldb.PrefixStorage).Exists"), 1, 0,
			"isaacdatabase.leveldbProposalKey(pr.Fact().Hash())", pk)
		// first-writer-wins for the by-point lookup too: the index entry is written only if none exists
		c.MP(fn, "the point index is written only if the (point, proposer, previous block) has no entry yet", idx, 1, GFalse("*.Exists("+pk+")#0"))
		c.MP(fn, "the point index is written only after its existence test succeeded", idx, 1, GOk("*.Exists("+pk+")"))
	}
	if fn := c.Need("isaac/database.(*TempPool).ProposalByPoint"); fn != nil {
		get := c.CallsD(fn, "*.Get(*)")
		c.ArgIs(fn, "point lookup under (point, proposer, previous block) of the query", get, 1, 0, "isaacdatabase.leveldbProposalPointKey(point, proposer, previousBlock)")
		pr := c.CallsD(fn, "db.Proposal(*)")
		c.ArgIs(fn, "proposal resolved through the stored fact hash", pr, 1, 0, "valuehash.NewBytes(*.Get(*)#0)")
		c.MP(fn, "proposal resolved only if the point index exists", pr, 1, GTrue("*.Get(*)#1"))
	}
	// R24.3 --------------------------------------------------------------------------------------
	poolCleanDepthRules(c, "R24.3")
	if fn := c.Need("isaac/database.(*TempPool).cleanProposals"); fn != nil {
		c.ArgIs(fn, "proposals cleaned with the configured proposal depth", c.CallsD(fn, "db.cleanByHeight(*)"), 1, 1, "db.cleanRemovedProposalDeep")
	}
}

// retDependsOn: every non-trivial return value of fn depends on a value matching pat.
func retDependsOn(c *Ctx, fn *ssa.Function, pat string) bool {
	ok := false
	for _, r := range Returns(fn) {
		if len(r.Results) == 0 {
			continue
		}
		if !c.DependsOnD(RetVal(r, 0), pat) {
			return false
		}
		ok = true
	}
	return ok
}

// keyPartKind classifies one []byte part of a storage key: 'f' fixed width, 'l' a length frame
// (an integer rendering of len(x)), 'v' variable length.
func keyPartKind(v ssa.Value, depth int) byte {
	if depth > 6 {
		return 'v'
	}
	switch x := v.(type) {
	case *ssa.Const:
		return 'f' // nil part: empty
	case *ssa.Phi:
		k := byte('f')
		for _, e := range x.Edges {
			if keyPartKind(e, depth+1) == 'v' {
				k = 'v'
			}
		}
		return k
	case *ssa.Convert:
		if _, ok := x.X.(*ssa.Const); ok {
			return 'f' // []byte("-")
		}
		return 'v'
	case *ssa.ChangeType:
		return keyPartKind(x.X, depth+1)
	case *ssa.Call:
		cc := &x.Call
		name := CalleeFullName(cc)
		switch {
		case cc.IsInvoke():
			return 'v' // Address.Bytes(), Hash.Bytes(): whatever the implementation gives
		case strings.HasPrefix(name, "util.Uint64To") || strings.HasPrefix(name, "util.Int64To") || strings.HasPrefix(name, "util.Uint8To"):
			if len(cc.Args) == 1 {
				if in, ok := stripConv(cc.Args[0]).(*ssa.Call); ok {
					if b, isB := in.Call.Value.(*ssa.Builtin); isB && b.Name() == "len" {
						return 'l'
					}
				}
			}
			return 'f'
		case strings.HasSuffix(name, ".Bytes") && len(cc.Args) == 1:
			// a method of a concrete type: fixed width for the integer and point types of base
			switch t := cc.Args[0].Type().Underlying().(type) {
			case *types.Basic:
				if t.Info()&types.IsInteger != 0 {
					return 'f'
				}
			case *types.Struct:
				if n, ok := cc.Args[0].Type().(*types.Named); ok && (n.Obj().Name() == "Point" || n.Obj().Name() == "StagePoint") {
					return 'f'
				}
			}
			return 'v'
		}
		return 'v'
	}
	return 'v'
}

// unframedKeyPartsRule: a storage key concatenates its parts; two tuples of parts must not give one
// key. A variable-length part may therefore only be the last part, unless a length frame precedes
// it (then where it ends is known).
func unframedKeyPartsRule(c *Ctx, rule string) {
	c.Rule(rule, "KeyFraming")
	n := 0
	for _, fn := range c.FuncsWithPrefix("isaac/database.leveldb") {
		if fn.Parent() != nil {
			continue
		}
		for _, call := range c.CallsTo(fn, "storage/leveldb.NewPrefixKey") {
			cc := callCommon(call)
			if len(cc.Args) < 2 {
				continue
			}
			sl, ok := cc.Args[1].(*ssa.Slice)
			if !ok {
				if k, isC := cc.Args[1].(*ssa.Const); isC && k.IsNil() {
					continue // no parts
				}
				c.Unresolved(fn, "key parts", c.D(cc.Args[1]))
				continue
			}
			arr, ok := sl.X.(*ssa.Alloc)
			if !ok {
				c.Unresolved(fn, "key parts", c.D(sl.X))
				continue
			}
			parts := map[int64]ssa.Value{}
			max := int64(-1)
			for _, r := range *arr.Referrers() {
				ia, ok := r.(*ssa.IndexAddr)
				if !ok {
					continue
				}
				k, isC := ia.Index.(*ssa.Const)
				if !isC {
					continue
				}
				for _, rr := range *ia.Referrers() {
					if st, ok := rr.(*ssa.Store); ok && st.Addr == ssa.Value(ia) {
						parts[k.Int64()] = st.Val
						if k.Int64() > max {
							max = k.Int64()
						}
					}
				}
			}
			n++
			c.touch(fn)
			kinds := ""
			frames := 0
			var bad []string
			for i := int64(0); i <= max; i++ {
				k := byte('v')
				if p := parts[i]; p != nil {
					k = keyPartKind(p, 0)
				}
				kinds += string(k)
				switch {
				case k == 'l':
					frames++
				case k == 'v' && i < max:
					if frames > 0 {
						frames--
					} else {
						bad = append(bad, fmt.Sprintf("part %d (%s) is of variable length, is not the last part and no length frame precedes it", i, c.D(parts[i])))
					}
				}
			}
			c.Report(fn, "a variable-length key part is the last part or is framed by its length", call.Pos(), len(bad) == 0,
				"parts "+kinds+" (f fixed, l length frame, v variable): "+strings.Join(bad, "; "))
		}
	}
	c.Floor(nil, "storage keys built with NewPrefixKey", n, 15)
}
