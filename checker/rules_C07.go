package main

import (
	"strings"

	"golang.org/x/tools/go/ssa"
)

func init() {
	Register(&Property{
		ID: "C07",
		Decides: "(R07.1) every call through the proposer-select function receives a node list that derives — across functions — from BaseProposalSelector.getNodes' result through order-preserving operations only (dead-node filtering); " +
			"(R07.2) getNodes returns two or more nodes only after sorting them with a comparator over an attribute of both elements, for the suffrage of the previous height; " +
			"(R07.3) BlockBasedProposerSelector.Select returns only elements of the given node list, indexed by 0 (one node) or by a value reduced modulo the list length; " +
			"(R07.4) Select calls only pure accessors of its parameters (no time, randomness, globals, goroutines, channels, map iteration).",
		NotDecided: "nothing of the stated property beyond the recorded assumption that util.Hash.Bytes, Height.Int64, Round.Uint64 and Address.String are pure and that util.Filter2Slices preserves order (read and confirmed).",
		Run:        runC07,
	})
}

func runC07(c *Ctx) {
	// R07.1 -----------------------------------------------------------------------------------
	c.Rule("R07.1", "OrderPreservingFlow")
	var sel []Site
	for _, fn := range c.Funcs {
		for _, in := range allInstrs(fn) {
			cc := callCommon(in)
			if cc == nil {
				continue
			}
			d := c.dCall(cc, 0, map[ssa.Value]bool{})
			if strings.HasPrefix(d, "call(p.args.ProposerSelectFunc)(") && len(cc.Args) == 4 {
				sel = append(sel, Site{fn, in})
			}
			if cc.IsInvoke() && cc.Method.Name() == "Select" && strings.Contains(cc.Method.FullName(), "ProposerSelector") && len(cc.Args) == 4 {
				sel = append(sel, Site{fn, in})
			}
		}
	}
	if c.Floor(nil, "calls through ProposerSelectFunc", len(sel), 2) {
		through := func(cl *ssa.Call) ssa.Value {
			if CalleeFullName(&cl.Call) == "(*isaac.BaseProposalSelector).filterDeadNodes" && len(cl.Call.Args) >= 2 {
				return cl.Call.Args[1]
			}
			return nil
		}
		for _, s := range sel {
			cc := callCommon(s.In)
			nodesArg := cc.Args[2]
			roots := c.Roots(nodesArg, through, 3)
			ok := len(roots) > 0
			var ds []string
			for _, r := range roots {
				d := c.D(r)
				ds = append(ds, d)
				if !P("p.getNodes(point.Height(), p.args.GetNodesFunc)#0").Match(d) {
					ok = false
				}
			}
			c.Report(s.Fn, "proposer selected from the canonical node list", c.InstrPos(s.In), ok, "node list roots: "+strings.Join(ds, " ; "))
			c.ArgIs(s.Fn, "proposer selected for the requested point", []ssaInstr{s.In}, 1, 1, "point")
			c.ArgIs(s.Fn, "proposer selected for the requested previous block", []ssaInstr{s.In}, 1, 3, "previousBlock")
		}
	}
	// whoever is asked for the proposal is a member of the canonical node list: the only node of a
	// one-node suffrage, or the selected proposer
	pf := c.WhoCalls("(*isaac.BaseProposalSelector).proposalFromNode")
	if c.Floor(nil, "calls of proposalFromNode", len(pf), 2) {
		for _, s := range pf {
			c.ArgIs(s.Fn, "proposal requested from a suffrage member (sole member or selected proposer)", []ssaInstr{s.In}, 1, 2,
				"p.getNodes(point.Height(), p.args.GetNodesFunc)#0[0]", "call(p.args.ProposerSelectFunc)(ctx, point, *, previousBlock)#0")
			if P("p.getNodes(point.Height(), p.args.GetNodesFunc)#0[0]").Match(c.D(CallArg(s.In, 2))) {
				c.MP(s.Fn, "sole member used only for a one-node suffrage", []ssaInstr{s.In}, 1, GCmp("len(p.getNodes(point.Height(), p.args.GetNodesFunc)#0)", "<", "2"))
			}
		}
	}
	if fn := c.Need("isaac.(*BaseProposalSelector).filterDeadNodes"); fn != nil {
		c.Exists(fn, "dead-node filter is util.Filter2Slices over the given list", c.ReturnsD(fn, 0, "util.Filter2Slices(n, b, func:isaac.(*BaseProposalSelector).filterDeadNodes$1)"), 1)
	}
	if fn := c.Need("util.Filter2Slices"); fn != nil {
		// order preservation: elements are appended in index order of a, each at most once
		adds := c.CallsD(fn, "call(util.CompactAppendSlice(len(a))#0)(*)")
		c.ArgIs(fn, "Filter2Slices appends a[i] in index order", adds, 1, 0, "a[ι]")
		c.Exists(fn, "Filter2Slices ranges over a ascending", toInstr(c.Loops(fn, "(ι < len(a))")), 1)
	}
	// R07.2 -----------------------------------------------------------------------------------
	c.Rule("R07.2", "SortedBeforeUse")
	if fn := c.Need("isaac.(*BaseProposalSelector).getNodes"); fn != nil {
		list := "call(f)(height.SafePrev())#0"
		rets := nonMatchingReturns(c, fn, 0, "nil")
		c.MP(fn, "node list returned only sorted (or with fewer than two nodes)", rets, 2,
			GCalled("sort.Slice("+list+", func:isaac.(*BaseProposalSelector).getNodes$1)"),
			GCmp("len("+list+")", "<", "2"))
		for _, r := range rets {
			c.Report(fn, "returned list is the looked-up list", c.InstrPos(r), c.D(RetVal(r.(*ssa.Return), 0)) == list, c.D(RetVal(r.(*ssa.Return), 0)))
		}
		c.Exists(fn, "nodes looked up for the previous height", c.CallsD(fn, "call(f)(height.SafePrev())"), 1)
		if cl := c.Need("isaac.(*BaseProposalSelector).getNodes$1"); cl != nil {
			ok := false
			var got string
			for _, r := range Returns(cl) {
				got = c.D(RetVal(r, 0))
				for _, op := range []string{"<", ">"} {
					if P("("+list+"[i].* "+op+" "+list+"[j].*)").Match(got) || P("("+list+"[j].* "+op+" "+list+"[i].*)").Match(got) {
						ok = true
					}
				}
			}
			c.Report(cl, "comparator orders by an attribute of both elements", cl.Pos(), ok, got)
		}
	}
	for _, s := range c.WhoCalls("(*isaac.BaseProposalSelector).getNodes") {
		c.ArgIs(s.Fn, "getNodes asked for the point's height", []ssaInstr{s.In}, 1, 0, "point.Height()")
	}
	// R07.3 / R07.4 -----------------------------------------------------------------------------
	if fn := c.Need("isaac.(BlockBasedProposerSelector).Select"); fn != nil {
		c.Rule("R07.3", "Membership")
		rets := nonMatchingReturns(c, fn, 0, "nil")
		c.Floor(fn, "non-nil returns", len(rets), 2)
		for _, r := range rets {
			d := c.D(RetVal(r.(*ssa.Return), 0))
			ok := d == "nodes[0]" || P("nodes[(* % len(nodes))]").Match(d)
			c.Report(fn, "selected proposer is an element of the given node list", c.InstrPos(r), ok, d)
		}
		c.MP(fn, "selection only from a non-empty list", rets, 2, GCmp("len(nodes)", ">=", "1"))
		for _, r := range rets {
			d := c.D(RetVal(r.(*ssa.Return), 0))
			if d != "nodes[0]" {
				v := RetVal(r.(*ssa.Return), 0)
				c.Report(fn, "index depends on the previous block", c.InstrPos(r), c.DependsOnD(v, "previousBlock.Bytes()"), d)
				c.Report(fn, "index depends on the height", c.InstrPos(r), c.DependsOnD(v, "point.Height()"), d)
				c.Report(fn, "index depends on the round", c.InstrPos(r), c.DependsOnD(v, "point.Round()"), d)
			}
		}
		c.Rule("R07.4", "Purity")
		allowed := []string{"len", "(util.Byter).Bytes", "(base.Point).Height", "(base.Point).Round", "(base.Height).Int64", "(base.Round).Uint64", "github.com/pkg/errors.Errorf"}
		n := 0
		for _, in := range allInstrs(fn) {
			switch x := in.(type) {
			case *ssa.Go, *ssa.Select, *ssa.Send, *ssa.MakeChan, *ssa.Defer:
				c.Report(fn, "no concurrency or deferred effects in Select", c.InstrPos(in), false, "instruction "+in.String())
			case *ssa.Range:
				c.Report(fn, "no map/string iteration in Select", c.InstrPos(in), false, c.D(x.X))
			case *ssa.UnOp:
				if _, isG := x.X.(*ssa.Global); isG {
					c.Report(fn, "no global state read in Select", c.InstrPos(in), false, c.D(x))
				}
			case *ssa.Call:
				n++
				name := CalleeFullName(&x.Call)
				ok := false
				for _, a := range allowed {
					if a == name {
						ok = true
					}
				}
				c.Report(fn, "Select calls only pure accessors: "+name, c.InstrPos(in), ok, "allowed: "+strings.Join(allowed, ", "))
			}
		}
		c.Floor(fn, "calls in Select", n, 5)
	}
}

func toInstr(ls []Loop) []ssa.Instruction {
	var out []ssa.Instruction
	for _, l := range ls {
		out = append(out, l.Header.Instrs[len(l.Header.Instrs)-1])
	}
	return out
}
