package main

import (
	"fmt"
	"go/token"
	"go/types"
	"os"
	"path/filepath"
	"sort"
	"strings"

	"golang.org/x/tools/go/callgraph/cha"
	"golang.org/x/tools/go/callgraph/vta"
	"golang.org/x/tools/go/packages"
	"golang.org/x/tools/go/ssa"
	"golang.org/x/tools/go/ssa/ssautil"
)

const modPath = "github.com/spikeekips/mitum"

// Prog is the loaded, type-checked, SSA-built view of a source tree.
type Prog struct {
	Root  string
	Mod   string
	Fset  *token.FileSet
	Pkgs  []*packages.Package
	SSA   *ssa.Program
	SPkgs map[string]*ssa.Package // by package path
	PPkgs map[string]*packages.Package
	// all source functions (incl. methods and anonymous functions) of the tree's packages
	Funcs []*ssa.Function
	byKey map[string]*ssa.Function

	globalNN map[*ssa.Global]bool

	// parameter names at the time the rule tables were written: function key -> names by position
	Names    map[string][]string
	Locals   map[string][][2]string // named in-memory locals (name, type) in order of appearance
	localMap map[string]map[string]string

	// thorough tier: VTA call graph over the whole program (dynamic call sites resolved by value flow)
	Dyn map[ssa.CallInstruction][]*ssa.Function
}

// LoadProg loads dir's ./... with default build tags (exactly what `go build ./...` compiles).
func LoadProg(dir, mod string, full bool) (*Prog, error) {
	mode := packages.LoadSyntax
	if full {
		mode = packages.LoadAllSyntax
	}
	env := append(os.Environ(), "GOWORK=off", "GOFLAGS=-mod=mod", "GOPROXY=off", "GOSUMDB=off")
	cfg := &packages.Config{Mode: mode, Dir: dir, Env: env}
	pkgs, err := packages.Load(cfg, "./...")
	if err != nil {
		return nil, err
	}
	if len(pkgs) == 0 {
		return nil, fmt.Errorf("no packages loaded from %s", dir)
	}
	var errs []string
	for _, p := range pkgs {
		for _, e := range p.Errors {
			errs = append(errs, e.Error())
		}
	}
	if len(errs) > 0 {
		return nil, fmt.Errorf("load errors: %s", strings.Join(errs, "; "))
	}
	prog, spkgs := ssautil.AllPackages(pkgs, ssa.InstantiateGenerics)
	if !full {
		prog, spkgs = ssautil.Packages(pkgs, ssa.InstantiateGenerics)
	}
	prog.Build()
	p := &Prog{Root: dir, Mod: mod, Fset: pkgs[0].Fset, Pkgs: pkgs, SSA: prog,
		SPkgs: map[string]*ssa.Package{}, PPkgs: map[string]*packages.Package{}, byKey: map[string]*ssa.Function{}}
	for i, sp := range spkgs {
		if sp == nil {
			return nil, fmt.Errorf("no ssa for %s", pkgs[i].PkgPath)
		}
		p.SPkgs[pkgs[i].PkgPath] = sp
		p.PPkgs[pkgs[i].PkgPath] = pkgs[i]
	}
	p.collectFuncs()
	if full {
		p.buildDyn()
	}
	return p, nil
}

// buildDyn resolves the dynamic call sites (interface invokes, calls of function values) of the
// tree's functions with a VTA call graph seeded by CHA.
func (p *Prog) buildDyn() {
	all := ssautil.AllFunctions(p.SSA)
	g := vta.CallGraph(all, cha.CallGraph(p.SSA))
	p.Dyn = map[ssa.CallInstruction][]*ssa.Function{}
	inTree := map[*ssa.Function]bool{}
	for _, f := range p.Funcs {
		inTree[f] = true
	}
	for fn, node := range g.Nodes {
		if fn == nil || !inTree[fn] {
			continue
		}
		for _, e := range node.Out {
			if e.Site == nil || e.Callee == nil || e.Callee.Func == nil {
				continue
			}
			cc := e.Site.Common()
			if !cc.IsInvoke() {
				if _, static := cc.Value.(*ssa.Function); static {
					continue
				}
				if _, isClosure := cc.Value.(*ssa.MakeClosure); isClosure {
					continue
				}
				if _, isBuiltin := cc.Value.(*ssa.Builtin); isBuiltin {
					continue
				}
			}
			p.Dyn[e.Site] = append(p.Dyn[e.Site], e.Callee.Func)
		}
	}
}

func (p *Prog) inTree(pkg *types.Package) bool {
	return pkg != nil && (pkg.Path() == p.Mod || strings.HasPrefix(pkg.Path(), p.Mod+"/"))
}

func (p *Prog) collectFuncs() {
	seen := map[*ssa.Function]bool{}
	var add func(f *ssa.Function)
	add = func(f *ssa.Function) {
		if f == nil || seen[f] {
			return
		}
		seen[f] = true
		if f.Blocks == nil {
			return
		}
		p.Funcs = append(p.Funcs, f)
		for _, a := range f.AnonFuncs {
			add(a)
		}
	}
	for f := range ssautil.AllFunctions(p.SSA) {
		if f.Pkg == nil && f.Origin() == nil {
			continue
		}
		var pkg *types.Package
		if f.Pkg != nil {
			pkg = f.Pkg.Pkg
		} else if o := f.Origin(); o != nil && o.Pkg != nil {
			pkg = o.Pkg.Pkg
		}
		if !p.inTree(pkg) {
			continue
		}
		if f.Synthetic != "" {
			continue // wrappers, thunks, bound methods, generic instances (the generic origin body is analysed)
		}
		add(f)
	}
	// methods of generic named types are not in any runtime method set: add their generic bodies
	for _, sp := range p.SPkgs {
		for _, m := range sp.Members {
			t, ok := m.(*ssa.Type)
			if !ok {
				continue
			}
			n, ok := t.Type().(*types.Named)
			if !ok || n.TypeParams() == nil || n.TypeParams().Len() == 0 {
				continue
			}
			for i := 0; i < n.NumMethods(); i++ {
				add(p.SSA.FuncValue(n.Method(i)))
			}
		}
	}
	sort.Slice(p.Funcs, func(i, j int) bool { return p.FuncKey(p.Funcs[i]) < p.FuncKey(p.Funcs[j]) })
	for _, f := range p.Funcs {
		k := p.FuncKey(f)
		if _, dup := p.byKey[k]; !dup {
			p.byKey[k] = f
		}
	}
}

// shortPkg turns the module-qualified package path into a repo-relative one ("isaac/states").
func (p *Prog) shortPkg(path string) string {
	if path == p.Mod {
		return "."
	}
	return strings.TrimPrefix(path, p.Mod+"/")
}

// FuncKey is the stable, position-free name of a function:
//
//	isaac.(*ProposalProcessors).save      a method
//	isaac/block.ImportBlocks              a function
//	isaac/block.ImportBlocks$1            first anonymous function inside it
func (p *Prog) FuncKey(f *ssa.Function) string {
	if f.Parent() != nil {
		return p.FuncKey(f.Parent()) + "$" + strings.TrimPrefix(f.Name()[strings.LastIndex(f.Name(), "$"):], "$")
	}
	pkgpath := ""
	if f.Pkg != nil {
		pkgpath = f.Pkg.Pkg.Path()
	} else if o := f.Origin(); o != nil && o.Pkg != nil {
		pkgpath = o.Pkg.Pkg.Path()
	}
	name := f.Name()
	if recv := f.Signature.Recv(); recv != nil {
		rt := recv.Type()
		ptr := ""
		if pt, ok := rt.(*types.Pointer); ok {
			rt = pt.Elem()
			ptr = "*"
		}
		tn := rt.String()
		if n, ok := rt.(*types.Named); ok {
			tn = n.Obj().Name()
			if ta := n.TypeArgs(); ta != nil && ta.Len() > 0 {
				var as []string
				for i := 0; i < ta.Len(); i++ {
					as = append(as, types.TypeString(ta.At(i), func(q *types.Package) string { return q.Name() }))
				}
				tn += "[" + strings.Join(as, ",") + "]"
			}
		}
		return fmt.Sprintf("%s.(%s%s).%s", p.shortPkg(pkgpath), ptr, tn, name)
	}
	return p.shortPkg(pkgpath) + "." + name
}

// Func resolves a function by key; nil if absent.
func (p *Prog) Func(key string) *ssa.Function { return p.byKey[key] }

// FuncsMatching returns all source functions whose key has the given prefix (used for generic
// instantiations and for "function and its closures").
func (p *Prog) FuncsWithPrefix(prefix string) []*ssa.Function {
	var out []*ssa.Function
	for _, f := range p.Funcs {
		if strings.HasPrefix(p.FuncKey(f), prefix) {
			out = append(out, f)
		}
	}
	return out
}

// WithClosures returns f and all functions nested in it.
func WithClosures(f *ssa.Function) []*ssa.Function {
	out := []*ssa.Function{f}
	for _, a := range f.AnonFuncs {
		out = append(out, WithClosures(a)...)
	}
	return out
}

// Pos renders a position relative to the tree root.
func (p *Prog) Pos(pos token.Pos) string {
	if !pos.IsValid() {
		return "-"
	}
	ps := p.Fset.Position(pos)
	rel, err := filepath.Rel(p.Root, ps.Filename)
	if err != nil {
		rel = ps.Filename
	}
	return fmt.Sprintf("%s:%d", rel, ps.Line)
}

// InstrPos finds the best position for an instruction (falls back to operands / neighbours).
func (p *Prog) InstrPos(in ssa.Instruction) token.Pos {
	if in.Pos().IsValid() {
		return in.Pos()
	}
	if v, ok := in.(ssa.Value); ok {
		_ = v
	}
	var ops []*ssa.Value
	for _, o := range in.Operands(ops) {
		if *o != nil && (*o).Pos().IsValid() {
			return (*o).Pos()
		}
	}
	b := in.Block()
	if b != nil {
		idx := -1
		for i, x := range b.Instrs {
			if x == in {
				idx = i
			}
		}
		for i := idx - 1; i >= 0; i-- {
			if b.Instrs[i].Pos().IsValid() {
				return b.Instrs[i].Pos()
			}
		}
		for i := idx + 1; i < len(b.Instrs); i++ {
			if b.Instrs[i].Pos().IsValid() {
				return b.Instrs[i].Pos()
			}
		}
	}
	if f := in.Parent(); f != nil {
		return f.Pos()
	}
	return token.NoPos
}

// NamedType looks up a package-level named type.
func (p *Prog) NamedType(pkgShort, name string) *types.Named {
	path := p.Mod
	if pkgShort != "." && pkgShort != "" {
		path = p.Mod + "/" + pkgShort
	}
	pp := p.PPkgs[path]
	if pp == nil {
		return nil
	}
	o := pp.Types.Scope().Lookup(name)
	if o == nil {
		return nil
	}
	n, _ := o.Type().(*types.Named)
	return n
}
