package main

import (
	"encoding/json"
	"flag"
	"fmt"
	"go/token"
	"os"
	"path/filepath"
	"runtime/debug"
	"sort"
	"strconv"
	"strings"
	"time"

	"golang.org/x/tools/go/ssa"
)

// Ob is one obligation: a rule instance evaluated at one construct.
type Ob struct {
	Rule      string `json:"rule"`
	Engine    string `json:"engine"`
	Construct string `json:"construct"` // position-free key: <func key>#<rule>#<detail>
	Site      string `json:"site"`
	Status    string `json:"status"` // discharged | violated | unresolved | known-finding
	Witness   string `json:"witness,omitempty"`
}

// Property is one registered check.
type Property struct {
	ID         string
	Decides    string // clauses decided (evidence explanation)
	NotDecided string
	NeedFull   bool // needs whole-program load in thorough tier
	Technique  string
	Run        func(c *Ctx)
	Assume     []string
}

var registry = map[string]*Property{}

func Register(p *Property) { registry[p.ID] = p }

// Ctx is the per-run context handed to a property's rules.
type Ctx struct {
	*Prog
	Prop     *Property
	Tier     string
	Obs      []Ob
	funcsHit map[string]bool
	floors   map[string][2]int
	curRule  string
	curEng   string
}

func (c *Ctx) Rule(id, engine string) { c.curRule, c.curEng = id, engine }

func (c *Ctx) touch(fn *ssa.Function) {
	if fn != nil {
		c.funcsHit[c.FuncKey(fn)] = true
	}
}

// Need resolves a function by key; an absent anchor is an unresolved obligation.
func (c *Ctx) Need(key string) *ssa.Function {
	f := c.Func(key)
	if f == nil {
		c.add(key+"#"+c.curRule+"#anchor", token.NoPos, "unresolved", "anchor function "+key+" not found in the tree")
		return nil
	}
	c.touch(f)
	return f
}

func (c *Ctx) add(construct string, pos token.Pos, status, witness string) {
	c.Obs = append(c.Obs, Ob{Rule: c.curRule, Engine: c.curEng, Construct: construct, Site: c.Pos(pos), Status: status, Witness: witness})
}

// Report adds an obligation for function fn with detail.
func (c *Ctx) Report(fn *ssa.Function, detail string, pos token.Pos, ok bool, witness string) {
	key := "?"
	if fn != nil {
		key = c.FuncKey(fn)
		c.touch(fn)
		if !pos.IsValid() {
			pos = fn.Pos()
		}
	}
	st := "discharged"
	if !ok {
		st = "violated"
	}
	c.add(key+"#"+c.curRule+"#"+detail, pos, st, witness)
}

// Unresolved records that a rule lost its anchor (counts as failure).
func (c *Ctx) Unresolved(fn *ssa.Function, detail, why string) {
	key := "?"
	pos := token.NoPos
	if fn != nil {
		key = c.FuncKey(fn)
		pos = fn.Pos()
	}
	c.add(key+"#"+c.curRule+"#"+detail, pos, "unresolved", why)
}

// Floor checks the hand-confirmed instance count of a rule.
func (c *Ctx) Floor(fn *ssa.Function, what string, found, expected int) bool {
	c.floors[c.curRule+" "+what] = [2]int{expected, found}
	if found < expected {
		c.Unresolved(fn, "floor "+what, fmt.Sprintf("expected at least %d %s, found %d", expected, what, found))
		return false
	}
	return true
}

// MP is the workhorse: MustPass for a list of targets in fn, one obligation per target.
// detail names the targets; the k-th target gets detail "/k" appended when there are several.
func (c *Ctx) MP(fn *ssa.Function, detail string, targets []ssa.Instruction, floor int, gates ...Gate) {
	c.MPFrom(fn, nil, detail, targets, floor, gates...)
}

func (c *Ctx) MPFrom(fn *ssa.Function, from ssa.Instruction, detail string, targets []ssa.Instruction, floor int, gates ...Gate) {
	if fn == nil {
		return
	}
	c.touch(fn)
	if !c.Floor(fn, detail+" targets", len(targets), floor) {
		return
	}
	var names []string
	for _, g := range gates {
		names = append(names, g.Name)
	}
	res := c.MustPass(fn, from, targets, gates...)
	for i, r := range res {
		d := detail
		if len(res) > 1 {
			d = fmt.Sprintf("%s/%d", detail, i)
		}
		w := r.Witness + "; gate: " + strings.Join(names, " OR ")
		if r.NGates == 0 {
			w = "gate not found in function: " + strings.Join(names, " OR ") + "; " + r.Witness
		}
		c.Report(fn, d, c.InstrPos(r.Target), r.OK, w)
	}
}

// Edge is a control-flow edge.
type Edge struct{ From, To *ssa.BasicBlock }

// MPEdge: every path from entry that takes the given control-flow edge passes one of the gates
// (used for "the value flowing into a phi along this edge").
func (c *Ctx) MPEdge(fn *ssa.Function, detail string, edges []Edge, floor int, gates ...Gate) {
	if fn == nil || !c.Floor(fn, detail+" edges", len(edges), floor) {
		return
	}
	var names []string
	for _, g := range gates {
		names = append(names, g.Name)
	}
	cut, n := c.buildCut(fn, gates)
	res := reach(fn, nil, cut)
	for i, e := range edges {
		term := e.From.Instrs[len(e.From.Instrs)-1]
		taken := res.reached[term]
		if taken {
			if _, isIf := term.(*ssa.If); isIf {
				del := cut.Edges[e.From]
				for si, s := range e.From.Succs {
					if s == e.To && si < 2 && del[si] {
						taken = false
					}
				}
				// both successors may be e.To; then any undeleted one counts
				for si, s := range e.From.Succs {
					if s == e.To && si < 2 && !del[si] && res.reached[term] {
						taken = true
					}
				}
			}
		}
		d := detail
		if len(edges) > 1 {
			d = fmt.Sprintf("%s/%d", detail, i)
		}
		w := fmt.Sprintf("%d gate occurrence(s); gate: %s", n, strings.Join(names, " OR "))
		if taken {
			w = "edge can be taken without a passing edge: " + c.path(res, term) + "; " + w
		}
		c.Report(fn, d, c.InstrPos(term), !taken, w)
	}
}

// ---------------------------------------------------------------------------------------------

type knownFinding struct {
	Property   string `json:"property"`
	Construct  string `json:"construct"`
	Status     string `json:"status"` // known | fixed
	Commit     string `json:"commit,omitempty"`
	What       string `json:"what"`
	Reproducer string `json:"reproducer,omitempty"`
}

func loadKnown(path string) ([]knownFinding, error) {
	b, err := os.ReadFile(path)
	if err != nil {
		if os.IsNotExist(err) {
			return nil, nil
		}
		return nil, err
	}
	var kf []knownFinding
	if err := json.Unmarshal(b, &kf); err != nil {
		return nil, err
	}
	return kf, nil
}

func main() {
	var (
		prop     = flag.String("property", "", "property id (C02 …)")
		tier     = flag.String("tier", "quick", "quick|thorough")
		repo     = flag.String("repo", "/repo", "tree to analyse")
		verif    = flag.String("verif", "/verif", "verification directory")
		evidence = flag.String("evidence", "", "evidence file (default <verif>/evidence/<id>.json)")
		list     = flag.Bool("list", false, "list registered properties")
		all      = flag.Bool("all", false, "run all registered properties (one load)")
		dump     = flag.String("dump", "", "debug: dump descriptors of the function with this key")
		noself   = flag.Bool("noselftest", false, "skip engine self-tests (debug only)")
		manifest = flag.Bool("manifest", false, "write <verif>/MANIFEST.json from the registry")
		names    = flag.Bool("names", false, "write checker/baseline_names.json (parameter names by position) from the current tree")
		describe = flag.Bool("describe", false, "print what each registered property decides / does not decide (JSON)")
	)
	flag.Parse()
	if *manifest {
		writeManifest(*verif)
		return
	}
	if *describe {
		var ids []string
		for id := range registry {
			ids = append(ids, id)
		}
		sort.Strings(ids)
		var out []map[string]string
		for _, id := range ids {
			out = append(out, map[string]string{"id": id, "decides": registry[id].Decides, "not_decided": registry[id].NotDecided})
		}
		b, _ := json.MarshalIndent(out, "", " ")
		fmt.Println(string(b))
		return
	}
	if *list {
		var ids []string
		for id := range registry {
			ids = append(ids, id)
		}
		sort.Strings(ids)
		fmt.Println(strings.Join(ids, "\n"))
		return
	}
	if t := os.Getenv("VERIF_TIER"); t == "quick" || t == "thorough" {
		if !isFlagSet("tier") {
			*tier = t
		}
	}
	seed := 0
	if s := os.Getenv("VERIF_SEED"); s != "" {
		if n, err := strconv.Atoi(s); err == nil {
			seed = n
		}
	}
	start := time.Now()
	var ids []string
	if *all {
		for id := range registry {
			ids = append(ids, id)
		}
		sort.Strings(ids)
	} else if *prop != "" {
		if registry[*prop] == nil {
			fmt.Fprintf(os.Stderr, "unknown property %s\n", *prop)
			os.Exit(2)
		}
		ids = []string{*prop}
	} else if *dump == "" && !*names {
		fmt.Fprintln(os.Stderr, "need -property, -all or -dump")
		os.Exit(2)
	}
	full := false
	if *tier == "thorough" {
		full = true // whole-program load and VTA resolution of dynamic call sites for the who-may-call rules
	}
	prog, err := LoadProg(*repo, modPath, full)
	if err != nil {
		fmt.Fprintf(os.Stderr, "LOAD FAILURE: %v\n", err)
		os.Exit(2)
	}
	namesFile := filepath.Join(*verif, "checker", "baseline_names.json")
	if *names {
		params := map[string][]string{}
		locals := map[string][][2]string{}
		for _, fn := range prog.Funcs {
			var ns []string
			for _, prm := range fn.Params {
				ns = append(ns, prm.Name())
			}
			if len(ns) > 0 {
				params[prog.FuncKey(fn)] = ns
			}
			if ls := namedLocals(fn); len(ls) > 0 {
				locals[prog.FuncKey(fn)] = ls
			}
		}
		b, _ := json.MarshalIndent(map[string]any{"params": params, "locals": locals}, "", " ")
		if err := os.WriteFile(namesFile, append(b, '\n'), 0o644); err != nil {
			fmt.Fprintln(os.Stderr, err)
			os.Exit(2)
		}
		fmt.Printf("%d functions with parameters, %d with named locals\n", len(params), len(locals))
		return
	}
	if b, err := os.ReadFile(namesFile); err == nil {
		var nf struct {
			Params map[string][]string    `json:"params"`
			Locals map[string][][2]string `json:"locals"`
		}
		if json.Unmarshal(b, &nf) == nil {
			prog.Names, prog.Locals = nf.Params, nf.Locals
		}
	}
	if *dump != "" {
		dumpFunc(prog, *dump)
		return
	}
	self := map[string]any{}
	selfOK := true
	if !*noself {
		self, selfOK = runSelfTests(filepath.Join(*verif, "checker", "testdata", "fix"))
	}
	known, err := loadKnown(filepath.Join(*verif, "known_findings.json"))
	if err != nil {
		fmt.Fprintf(os.Stderr, "known_findings.json: %v\n", err)
		os.Exit(2)
	}
	exit := 0
	for _, id := range ids {
		ev := *evidence
		if ev == "" || *all {
			ev = filepath.Join(*verif, "evidence", id+".json")
		}
		code := runProperty(prog, registry[id], *tier, seed, ev, *verif, known, self, selfOK, start, full)
		if code > exit {
			exit = code
		}
		start = time.Now()
	}
	os.Exit(exit)
}

func marshal(v any) []byte {
	var sb strings.Builder
	enc := json.NewEncoder(&sb)
	enc.SetEscapeHTML(false)
	enc.SetIndent("", " ")
	_ = enc.Encode(v)
	return []byte(sb.String())
}

func isFlagSet(name string) bool {
	set := false
	flag.Visit(func(f *flag.Flag) {
		if f.Name == name {
			set = true
		}
	})
	return set
}

func runProperty(prog *Prog, pr *Property, tier string, seed int, evPath, verif string, known []knownFinding,
	self map[string]any, selfOK bool, start time.Time, full bool) (code int) {
	c := &Ctx{Prog: prog, Prop: pr, Tier: tier, funcsHit: map[string]bool{}, floors: map[string][2]int{}}
	func() {
		defer func() {
			if r := recover(); r != nil {
				c.curRule, c.curEng = "internal", "panic"
				c.add("checker#panic", token.NoPos, "unresolved", fmt.Sprintf("analyzer panic: %v\n%s", r, debug.Stack()))
			}
		}()
		pr.Run(c)
	}()
	if !selfOK {
		c.curRule, c.curEng = "selftest", "fixtures"
		c.add("checker#selftest", token.NoPos, "unresolved", "engine self-test failed: "+fmt.Sprint(self["failures"]))
	}
	// classify against known findings
	knownByKey := map[string]knownFinding{}
	for _, k := range known {
		if k.Property == pr.ID && k.Status == "known" {
			knownByKey[k.Construct] = k
		}
	}
	var matchedKnown []string
	nviol := 0
	replayDir := filepath.Join(verif, "evidence", "replay")
	var lines []string
	seenKeys := map[string]int{}
	for i := range c.Obs {
		o := &c.Obs[i]
		// make construct keys unique
		seenKeys[o.Construct]++
		if n := seenKeys[o.Construct]; n > 1 {
			o.Construct = fmt.Sprintf("%s~%d", o.Construct, n)
		}
		if o.Status == "violated" || o.Status == "unresolved" {
			if k, ok := knownByKey[o.Construct]; ok && o.Status == "violated" {
				o.Status = "known-finding"
				matchedKnown = append(matchedKnown, o.Construct)
				lines = append(lines, fmt.Sprintf("KNOWN-FINDING: property=%s %s [%s at %s]", pr.ID, k.What, o.Construct, o.Site))
				continue
			}
			nviol++
			_ = os.MkdirAll(replayDir, 0o755)
			rp := filepath.Join(replayDir, fmt.Sprintf("%s-%04d.json", pr.ID, nviol))
			b, _ := json.MarshalIndent(map[string]any{"property": pr.ID, "obligation": o, "tier": tier,
				"replay": fmt.Sprintf("%s/bin/mitumvet -property %s -tier %s  # re-evaluates all obligations of the property on the current tree; look for construct %q", verif, pr.ID, tier, o.Construct)}, "", " ")
			_ = os.WriteFile(rp, b, 0o644)
			lines = append(lines, fmt.Sprintf("%s rule=%s construct=%s site=%s :: %s", strings.ToUpper(o.Status), o.Rule, o.Construct, o.Site, o.Witness))
			lines = append(lines, fmt.Sprintf("VIOLATION property=%s replay=%s", pr.ID, rp))
		}
	}
	// evidence
	distinct := map[string]bool{}
	discharged := 0
	for _, o := range c.Obs {
		if o.Status == "discharged" {
			discharged++
		}
		if o.Status != "unresolved" {
			distinct[o.Construct] = true
		}
	}
	samples := c.Obs
	if len(samples) > 60 {
		// keep all non-discharged plus a prefix
		var keep []Ob
		for _, o := range samples {
			if o.Status != "discharged" {
				keep = append(keep, o)
			}
		}
		for _, o := range samples {
			if len(keep) >= 60 {
				break
			}
			if o.Status == "discharged" {
				keep = append(keep, o)
			}
		}
		samples = keep
	}
	var fhit []string
	for k := range c.funcsHit {
		fhit = append(fhit, k)
	}
	sort.Strings(fhit)
	floors := map[string]map[string]int{}
	for k, v := range c.floors {
		floors[k] = map[string]int{"expected": v[0], "found": v[1]}
	}
	cg := "static callees + repository method sets (packages.LoadSyntax, go/ssa)"
	if full {
		cg = fmt.Sprintf("whole program (packages.LoadAllSyntax, go/ssa) + VTA over CHA: %d dynamic call sites of the tree resolved and fed to the who-may-call rules", len(prog.Dyn))
	}
	ev := map[string]any{
		"property_id": pr.ID,
		"tier":        tier,
		"seed":        seed,
		"level":       "other",
		"coverage": map[string]any{
			"explanation": "Static analysis of /repo's current working tree (no mitum code is executed). DECIDES: " + pr.Decides +
				" DOES NOT DECIDE: " + pr.NotDecided,
			"obligations":         len(c.Obs),
			"discharged":          discharged,
			"evaluations":         len(c.Obs),
			"distinct_nontrivial": len(distinct),
			"rule": "one obligation per (rule instance, construct); a construct is a function plus the targeted call/store/return/field, keyed " +
				"position-free; non-trivial = the anchor resolved and the engine inspected at least one branch edge, def-use chain or access site; distinct = distinct construct keys",
			"samples":            samples,
			"functions_analysed": fhit,
			"functions_in_tree":  len(prog.Funcs),
			"packages":           len(prog.Pkgs),
			"callgraph":          cg,
			"selftest":           self,
			"known_findings":     matchedKnown,
			"floors":             floors,
			"exhaustive":         false,
		},
		"assumptions": append([]string{
			"default build tags: exactly the files `go build ./...` compiles (helpers behind -tags test are not production code)",
			"nil-preserving error wrappers (read and tabled): pkg/errors.{Wrap,Wrapf,WithMessage,WithMessagef,WithStack}, util.(*baseError|*IDError).{Wrap,WithMessage}",
			"the Go type checker and x/tools go/ssa v0.29.0 are trusted",
		}, pr.Assume...),
		"wall_s":     time.Since(start).Seconds(),
		"violations": nviol,
	}
	_ = os.MkdirAll(filepath.Dir(evPath), 0o755)
	b := marshal(ev)
	if err := os.WriteFile(evPath, b, 0o644); err != nil {
		fmt.Fprintf(os.Stderr, "cannot write evidence: %v\n", err)
		return 2
	}
	fmt.Printf("property=%s tier=%s obligations=%d discharged=%d known=%d violations=%d functions=%d wall=%.1fs\n",
		pr.ID, tier, len(c.Obs), discharged, len(matchedKnown), nviol, len(fhit), time.Since(start).Seconds())
	for _, l := range lines {
		fmt.Println(l)
	}
	if nviol > 0 {
		return 1
	}
	return 0
}

func dumpFunc(p *Prog, key string) {
	for _, f := range p.Funcs {
		k := p.FuncKey(f)
		if k != key && !strings.HasPrefix(k, key+"$") {
			continue
		}
		fmt.Printf("== %s (%s)\n", k, p.Pos(f.Pos()))
		for _, b := range f.Blocks {
			fmt.Printf(" block %d (%s) succs=%v\n", b.Index, b.Comment, succIdx(b))
			for _, in := range b.Instrs {
				switch x := in.(type) {
				case *ssa.If:
					fmt.Printf("   IF %s   [%s]\n", p.D(x.Cond), p.Pos(p.InstrPos(in)))
				case *ssa.Return:
					var rs []string
					for i := range x.Results {
						rs = append(rs, p.D(RetVal(x, i)))
					}
					fmt.Printf("   RETURN %s   [%s]\n", strings.Join(rs, ", "), p.Pos(p.InstrPos(in)))
				case *ssa.Store:
					fmt.Printf("   STORE %s <- %s   [%s]\n", p.D(x.Addr), p.D(x.Val), p.Pos(p.InstrPos(in)))
				case *ssa.Call:
					fmt.Printf("   CALL %s   {%s}  [%s]\n", p.D(x), CalleeFullName(&x.Call), p.Pos(p.InstrPos(in)))
				case *ssa.Go:
					fmt.Printf("   GO %s   [%s]\n", p.dCall(&x.Call, 0, map[ssa.Value]bool{}), p.Pos(p.InstrPos(in)))
				case *ssa.Defer:
					fmt.Printf("   DEFER %s   [%s]\n", p.dCall(&x.Call, 0, map[ssa.Value]bool{}), p.Pos(p.InstrPos(in)))
				case *ssa.Send:
					fmt.Printf("   SEND %s <- %s\n", p.D(x.Chan), p.D(x.X))
				case *ssa.MapUpdate:
					fmt.Printf("   MAPUPDATE %s[%s] = %s\n", p.D(x.Map), p.D(x.Key), p.D(x.Value))
				}
			}
		}
	}
}

func succIdx(b *ssa.BasicBlock) []int {
	var o []int
	for _, s := range b.Succs {
		o = append(o, s.Index)
	}
	return o
}
