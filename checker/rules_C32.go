package main

import (
	"go/token"
	"fmt"
	"sort"
	"strings"

	"golang.org/x/tools/go/ssa"
)

func init() {
	Register(&Property{
		ID: "C32",
		Decides: "the lock discipline that linearizability of these types rests on, not linearizability itself: " +
			"(R32.1) in every method of Locked, SingleLockedMap and ShardedMap the guarded state (value/isempty, m, sharded) is read with the type's RWMutex held at least shared and written (stored, map-updated, deleted from, cleared, slot-assigned) with it held exclusively; user callbacks run with the lock held; ShardedMap.length is touched only through sync/atomic; " +
			"(R32.2) the length bookkeeping follows the shard's own answer: +1 only where the shard reported added/created, -1 only where it reported removed, never on an error; " +
			"(R32.3) value and emptiness / presence change together: Locked stores value and isempty at the same places and only on the callback's success; a locked map writes an entry only on the callback's success and deletes only a found key; (R32.4) ShardedMap.Len() is the sum of its shards' counts taken with the map lock held — or, if a key counter is kept, no update of it can be overtaken by the reset in Empty/Close (updates happen with the map lock held). A shard slot is tested and filled in one exclusive critical section; a locked map deletes a key only if the callback succeeded; Close/Empty reach every shard with the map lock held exclusively.",
		NotDecided: "linearizability of histories; fairness.",
		Run:        runC32,
	})
}

type guardedAccess struct {
	in    ssa.Instruction
	write bool
	what  string
}

// guardedAccesses classifies every use of field (by name) of the receiver type in fn.
func guardedAccesses(c *Ctx, fn *ssa.Function, typeName, field string) []guardedAccess {
	var out []guardedAccess
	for _, in := range allInstrs(fn) {
		fa, ok := in.(*ssa.FieldAddr)
		if !ok || !fieldIs(fa.X.Type(), fa.Field, typeName, field) || fa.Referrers() == nil {
			continue
		}
		for _, r := range *fa.Referrers() {
			switch x := r.(type) {
			case *ssa.Store:
				if x.Addr == ssa.Value(fa) {
					out = append(out, guardedAccess{r, true, "store"})
				}
			case *ssa.UnOp:
				// a load: what happens to the loaded map/slice decides
				wrote := false
				if x.Referrers() != nil {
					for _, rr := range *x.Referrers() {
						switch y := rr.(type) {
						case *ssa.MapUpdate:
							if y.Map == ssa.Value(x) {
								out = append(out, guardedAccess{rr, true, "map update"})
								wrote = true
							}
						case *ssa.IndexAddr:
							if y.X == ssa.Value(x) && y.Referrers() != nil {
								for _, rrr := range *y.Referrers() {
									if st, ok := rrr.(*ssa.Store); ok && st.Addr == ssa.Value(y) {
										out = append(out, guardedAccess{rrr, true, "slot store"})
										wrote = true
									}
								}
							}
						default:
							if cc := callCommon(rr); cc != nil {
								if b, ok := cc.Value.(*ssa.Builtin); ok && (b.Name() == "delete" || b.Name() == "clear") && len(cc.Args) > 0 && cc.Args[0] == ssa.Value(x) {
									out = append(out, guardedAccess{rr, true, b.Name()})
									wrote = true
								}
							}
						}
					}
				}
				_ = wrote
				out = append(out, guardedAccess{r, false, "load"})
			default:
				out = append(out, guardedAccess{r, false, "use"})
			}
		}
	}
	return out
}

func runC32(c *Ctx) {
	// R32.4: the key counter of a ShardedMap is reset by Empty/Close with the map lock held exclusively;
	// an increment/decrement that follows a shard operation outside that lock can land after the reset
	// although its key was removed by it: Len() then differs from the number of keys for good.
	c.Rule("R32.4", "LockHeld")
	var outside []string
	nAdd := 0
	for _, fn := range c.FuncsWithPrefix("util.(*ShardedMap[K,V]).") {
		if fn.Parent() != nil {
			continue
		}
		adds := c.CallsD(fn, "atomic.AddInt64(&l.*, *)")
		if len(adds) == 0 {
			continue
		}
		nAdd += len(adds)
		res := c.heldOK(fn, adds, "&l.l", LR)
		if !res {
			outside = append(outside, strings.TrimPrefix(c.FuncKey(fn), "util.(*ShardedMap[K,V])."))
		}
	}
	sort.Strings(outside)
	c.floors["R32.4 counter updates of ShardedMap (0: Len() counts the shards)"] = [2]int{0, nAdd}
	if nAdd == 0 {
		// no counter: Len() is the sum of the shards' own (locked) counts, taken with the map lock held so
		// that the shard list does not change under it
		if fn := c.Need("util.(*ShardedMap[K,V]).Len"); fn != nil {
			lens := c.CallsD(fn, "l.sharded[ι].Len()")
			c.Held(fn, nil, "Len counts the shards with the map lock held", lens, 1, "&l.l", LR)
			c.ForEach(fn, "Len counts every shard (a missing shard holds nothing)", "(ι < len(l.sharded))", 1, GCalled("l.sharded[ι].Len()"), GNil("l.sharded[ι]"))
			for _, r := range Returns(fn) {
				d := c.D(RetVal(r, 0))
				c.Report(fn, "Len answers the sum over the shards", c.InstrPos(r), strings.Contains(d, "↺ + l.sharded[ι].Len()") && strings.Contains(d, "|0|"), d)
			}
		}
	} else {
		// the counter is bookkeeping for Len() only: no operation decides anything by reading it (it lags
		// behind the shards while an insert is in flight)
		nLoad := 0
		for _, fn := range c.FuncsWithPrefix("util.(*ShardedMap[K,V]).") {
			for _, in := range c.CallsD(fn, "atomic.LoadInt64(&l.*)") {
				nLoad++
				c.Report(fn, "the key counter is read only by Len()", in.Pos(), c.FuncKey(fn) == "util.(*ShardedMap[K,V]).Len", "")
			}
		}
		c.Floor(nil, "reads of the key counter", nLoad, 1)
		if anchor := c.Need("util.(*ShardedMap[K,V]).Empty"); anchor != nil {
			resets := c.CallsD(anchor, "atomic.StoreInt64(&l.*, 0)")
			c.Held(anchor, nil, "Empty resets the key counter with the map lock held exclusively", resets, 1, "&l.l", LW)
			detail := "no counter update can be overtaken by the reset of Empty/Close"
			if len(outside) > 0 {
				detail += "; updated outside the map lock in: " + strings.Join(outside, ", ")
			}
			c.Report(anchor, detail, anchor.Pos(), len(outside) == 0, "a counter update made after the shard operation without the map lock can follow the reset of a concurrent Empty()/Close()")
		}
	}
	// R32.1 --------------------------------------------------------------------------------------
	c.Rule("R32.1", "LockHeld")
	total := 0
	for _, t := range []struct {
		typ, prefix, mutex string
		fields           []string
	}{
		{"Locked", "util.(*Locked[T]).", "&l.l", []string{"value", "isempty"}},
		{"SingleLockedMap", "util.(*SingleLockedMap[K,V]).", "&l.l", []string{"m"}},
		{"ShardedMap", "util.(*ShardedMap[K,V]).", "&l.l", []string{"sharded"}},
	} {
		methods := c.FuncsWithPrefix(t.prefix)
		c.Floor(nil, "methods of "+t.typ, len(methods), 8)
		for _, fn := range methods {
			if fn.Parent() != nil {
				continue // closures are covered below (they run under the caller's lock)
			}
			st := c.LockStates(fn, nil)
			for _, f := range t.fields {
				for i, a := range guardedAccesses(c, fn, t.typ, f) {
					total++
					need, mode := "shared", LR
					if a.write {
						need, mode = "exclusively", LW
					}
					held := 0
					for k, v := range st[a.in] {
						if k == t.mutex && v > held {
							held = v
						}
					}
					c.Report(fn, fmt.Sprintf("%s.%s %s #%d with the lock held %s", t.typ, f, a.what, i, need), c.InstrPos(a.in), held >= mode,
						"held on every path: "+stateStr(st[a.in]))
				}
			}
			// user callbacks are invoked with the lock held
			for i, in := range allInstrs(fn) {
				cc := callCommon(in)
				if cc == nil || cc.IsInvoke() {
					continue
				}
				if _, isParam := cc.Value.(*ssa.Parameter); !isParam {
					continue
				}
				if t.typ == "ShardedMap" {
					continue // callbacks are handed to the shard, which runs them under its own lock
				}
				held := 0
				for k, v := range st[in] {
					if k == t.mutex && v > held {
						held = v
					}
				}
				c.Report(fn, fmt.Sprintf("callback %s is run with the lock held (#%d)", c.D(cc.Value), i), c.InstrPos(in), held >= LR, "held on every path: "+stateStr(st[in]))
			}
		}
	}
	c.Floor(nil, "accesses of guarded fields", total, 60)
	// length only through sync/atomic
	nLen := 0
	for _, fn := range c.Funcs {
		for _, in := range allInstrs(fn) {
			fa, ok := in.(*ssa.FieldAddr)
			if !ok || !fieldIs(fa.X.Type(), fa.Field, "ShardedMap", "length") || fa.Referrers() == nil {
				continue
			}
			for _, r := range *fa.Referrers() {
				nLen++
				cc := callCommon(r)
				ok := cc != nil && strings.HasPrefix(CalleeFullName(cc), "sync/atomic.")
				c.Report(fn, "ShardedMap.length is touched only through sync/atomic", c.InstrPos(r), ok, "")
			}
		}
	}
	if nAdd > 0 {
		c.Floor(nil, "uses of ShardedMap.length", nLen, 8)
	}
	// R32.2 --------------------------------------------------------------------------------------
	c.Rule("R32.2", "MustPass")
	counterRules := nAdd > 0 // the rules on the key counter apply only while ShardedMap keeps one (R32.4)
	for _, t := range []struct {
		m      string
		delta  string
		gates  []Gate
		nosucc bool
	}{
		{"SetValue", "1", []Gate{GTrue("l.newItem(k)#0.SetValue(k, v)")}, false},
		{"RemoveValue", "-1", []Gate{GTrue("l.loadItem(k)#0.RemoveValue(k)")}, false},
		{"GetOrCreate", "1", []Gate{GTrue("var:created"), GTrue("c")}, false},
		{"Set", "1", []Gate{GTrue("l.newItem(k)#0.Set(k, f)#1")}, false},
		{"Remove", "-1", []Gate{GTrue("l.loadItem(k)#0.Remove(k, f)#0")}, false},
	} {
		fn := c.Need("util.(*ShardedMap[K,V])." + t.m)
		if fn == nil || !counterRules {
			continue
		}
		adds := c.CallsD(fn, "atomic.AddInt64(&l.length, "+t.delta+")")
		c.MP(fn, t.m+": the counter moves by "+t.delta+" only where the shard reported the change", adds, 1, t.gates...)
		all := c.CallsD(fn, "atomic.AddInt64(&l.length, *)")
		c.Report(fn, t.m+": the counter moves only by "+t.delta, fn.Pos(), len(all) == len(adds), fmt.Sprintf("%d counter updates, %d by %s", len(all), len(adds), t.delta))
	}
	for _, t := range [][2]string{
		{"GetOrCreate", "l.newItem(k)#0.GetOrCreate(*)"}, {"Set", "l.newItem(k)#0.Set(k, f)#2"},
		{"Remove", "l.loadItem(k)#0.Remove(k, f)#1"}, {"SetOrRemove", "l.newItem(k)#0.SetOrRemove(k, f)#3"},
	} {
		fn := c.Need("util.(*ShardedMap[K,V])." + t[0])
		if fn == nil || !counterRules {
			continue
		}
		c.MP(fn, t[0]+": the counter moves only if the shard operation did not fail", c.CallsD(fn, "atomic.AddInt64(&l.length, *)"), 1, GNil(t[1]))
	}
	if fn := c.Need("util.(*ShardedMap[K,V]).SetOrRemove"); fn != nil && counterRules {
		c.MP(fn, "SetOrRemove: +1 only where the shard reported created", c.CallsD(fn, "atomic.AddInt64(&l.length, 1)"), 1, GTrue("l.newItem(k)#0.SetOrRemove(k, f)#1"))
		c.MP(fn, "SetOrRemove: -1 only where the shard reported removed", c.CallsD(fn, "atomic.AddInt64(&l.length, -1)"), 1, GTrue("l.newItem(k)#0.SetOrRemove(k, f)#2"))
	}
	if fn := c.Need("util.(*ShardedMap[K,V]).GetOrCreate"); fn != nil && counterRules {
		if cl := c.ClosureWithStore(fn, "&var:created"); cl != nil {
			c.StoredIs(cl, "GetOrCreate: `created` is what the shard told the callback", c.StoresD(cl, "&var:created"), 1, "c")
		} else {
			c.Unresolved(fn, "GetOrCreate: closure recording `created`", "not found")
		}
	}
	for _, m := range []string{"Close", "Empty"} {
		if fn := c.Need("util.(*ShardedMap[K,V])." + m); fn != nil && counterRules {
			c.Held(fn, nil, m+": the counter is reset while the shards are locked out", c.CallsD(fn, "atomic.StoreInt64(&l.length, 0)"), 1, "&l.l", LW)
		}
	}
	// Close/Empty of a sharded map reach every shard while the map lock is held exclusively: an operation
	// that fetched its shard before Close() must find that shard closed (and fail) afterwards — a shard
	// that is only dropped from the list still accepts the in-flight write, which then succeeds on a map
	// nobody can read (no sequential history explains a successful set after Close)
	for _, m := range []string{"Close", "Empty"} {
		if fn := c.Need("util.(*ShardedMap[K,V])." + m); fn != nil {
			calls := c.CallsD(fn, "l.sharded[ι]."+m+"()")
			c.Held(fn, nil, m+": every shard is "+strings.ToLower(m)+"d with the map lock held exclusively", calls, 1, "&l.l", LW)
			c.ForEach(fn, m+": reaches every shard (a missing shard holds nothing)", "(ι < len(l.sharded))", 1, GCalled("l.sharded[ι]."+m+"()"), GNil("l.sharded[ι]"))
		}
	}
	// R32.3 --------------------------------------------------------------------------------------
	c.Rule("R32.3", "MustPass")
	for _, m := range []string{"SetValue", "EmptyValue", "GetOrCreate", "Set", "Empty"} {
		fn := c.Need("util.(*Locked[T])." + m)
		if fn == nil {
			continue
		}
		vs, es := c.StoresD(fn, "&l.value"), c.StoresD(fn, "&l.isempty")
		c.Report(fn, "Locked."+m+": value and emptiness are stored at the same places", fn.Pos(), len(vs) == len(es) && len(vs) >= 1, fmt.Sprintf("%d value stores, %d emptiness stores", len(vs), len(es)))
		for i, v := range vs {
			same := false
			for _, e := range es {
				if e.Block() == v.Block() {
					same = true
				}
			}
			c.Report(fn, fmt.Sprintf("Locked.%s: value store %d is paired with an emptiness store", m, i), c.InstrPos(v), same, "")
		}
	}
	if fn := c.Need("util.(*Locked[T]).Set"); fn != nil {
		c.MP(fn, "Locked.Set: stored only if the callback succeeded", c.StoresD(fn, "&l.value"), 1, GNil("call(f)(l.value, l.isempty)#1"))
		c.StoredIs(fn, "Locked.Set: the stored value is the callback's", c.StoresD(fn, "&l.value"), 1, "call(f)(l.value, l.isempty)#0")
		c.StoredIs(fn, "Locked.Set: a stored value makes it non-empty", c.StoresD(fn, "&l.isempty"), 1, "false")
	}
	if fn := c.Need("util.(*Locked[T]).Empty"); fn != nil {
		c.MP(fn, "Locked.Empty: emptied only if the callback succeeded", c.StoresD(fn, "&l.isempty"), 1, GNil("call(f)(l.value, l.isempty)"))
		c.StoredIs(fn, "Locked.Empty: emptied means empty", c.StoresD(fn, "&l.isempty"), 1, "true")
	}
	if fn := c.Need("util.(*Locked[T]).GetOrCreate"); fn != nil {
		c.MP(fn, "Locked.GetOrCreate: created only while empty", c.CallsD(fn, "call(create)()"), 1, GTrue("l.isempty"))
		c.MP(fn, "Locked.GetOrCreate: stored only if create succeeded", c.StoresD(fn, "&l.value"), 1, GNil("call(create)()#1"))
	}
	if fn := c.Need("util.(*Locked[T]).Value"); fn != nil {
		c.MP(fn, "Locked.Value: a value is handed out only if not empty", c.ReturnsD(fn, 1, "false"), 1, GFalse("l.isempty"))
	}
	const SM = "util.(*SingleLockedMap[K,V])."
	if fn := c.Need(SM + "Set"); fn != nil {
		mu := c.MapUpdatesD(fn, "l.m")
		c.MP(fn, "map Set: an entry is written only if the callback succeeded", mu, 1, GNil("call(f)(l.m[k]#0, l.m[k]#1)#1"))
		c.MP(fn, "map Set: nothing is written into a closed map", mu, 1, GNonNil("l.m"))
	}
	if fn := c.Need(SM + "GetOrCreate"); fn != nil {
		mu := c.MapUpdatesD(fn, "l.m")
		c.MP(fn, "map GetOrCreate: created only if the key is absent", mu, 1, GFalse("l.m[k]#1"))
		c.MP(fn, "map GetOrCreate: an entry is written only if create succeeded", mu, 1, GNil("call(create)()#1"))
	}
	for _, m := range []string{"Remove", "RemoveValue", "SetOrRemove"} {
		if fn := c.Need(SM + m); fn != nil {
			var dels []ssa.Instruction
			for _, in := range allInstrs(fn) {
				if cc := callCommon(in); cc != nil {
					if b, ok := cc.Value.(*ssa.Builtin); ok && b.Name() == "delete" {
						dels = append(dels, in)
					}
				}
			}
			c.MP(fn, "map "+m+": only a found key is deleted", dels, 1, GTrue("l.m[k]#1"))
			// a callback that failed changes nothing: the delete lies behind the callback's nil error (the
			// ignore sentinel is an error too; RemoveValue has no callback)
			for _, cb := range c.CallsD(fn, "call(f)(*)") {
				d := c.D(cb.(ssa.Value))
				sig := callCommon(cb).Signature().Results()
				errIdx := sig.Len() - 1
				g := GNil(fmt.Sprintf("%s#%d", globEscape(d), errIdx))
				if sig.Len() == 1 {
					g = GNil(globEscape(d))
				}
				c.MPFrom(fn, cb, "map "+m+": a key is deleted only if the callback succeeded", dels, 0, g)
			}
		}
	}
	if fn := c.Need(SM + "SetOrRemove"); fn != nil {
		c.MP(fn, "map SetOrRemove: written only if the callback did not ask for removal", c.MapUpdatesD(fn, "l.m"), 1, GFalse("call(f)(l.m[k]#0, l.m[k]#1)#1"))
		c.MP(fn, "map SetOrRemove: written only if the callback succeeded", c.MapUpdatesD(fn, "l.m"), 1, GNil("call(f)(l.m[k]#0, l.m[k]#1)#2"))
	}
	// shards are created and looked up under the sharded map's lock, and the key's shard is the hashed one
	const SH = "util.(*ShardedMap[K,V])."
	if fn := c.Need(SH + "newItem"); fn != nil {
		c.Held(fn, nil, "newItem: a shard is created under the exclusive lock", c.CallsD(fn, "call(l.newMap)()"), 1, "&l.l", LW)
		c.MP(fn, "newItem: a shard is created only for an empty slot", c.CallsD(fn, "call(l.newMap)()"), 1, GNil("l.sharded[call(l.hashf)(k)#0]"))
		c.MP(fn, "newItem: no shard is created in a closed map", c.CallsD(fn, "call(l.newMap)()"), 1, GCmp("len(l.sharded)", ">=", "1"))
		// test and creation are one exclusive critical section: the slot whose emptiness decides the
		// creation is read with the lock held exclusively, and the lock is not released in between (two
		// callers that both saw the empty slot under a read lock would each create a shard; one is lost)
		st := c.LockStates(fn, nil)
		for _, mk := range c.CallsD(fn, "call(l.newMap)()") {
			for _, in := range allInstrs(fn) {
				u, ok := in.(*ssa.UnOp)
				if !ok || u.Op != token.MUL {
					continue
				}
				ia, isIA := u.X.(*ssa.IndexAddr)
				if !isIA || c.D(ia.X) != "l.sharded" {
					continue
				}
				if !reach(fn, in, nil).reached[mk] {
					continue
				}
				held := st[in]["&l.l"] >= LW
				// no unlock between the read and the creation
				cut := NewCut()
				for _, x := range allInstrs(fn) {
					if cc := callCommon(x); cc != nil && strings.HasSuffix(CalleeFullName(cc), "nlock") && len(cc.Args) > 0 && c.D(cc.Args[0]) == "&l.l" {
						if _, isDefer := x.(*ssa.Defer); !isDefer {
							cut.Barriers[x] = true
						}
					}
				}
				same := reach(fn, in, cut).reached[mk]
				c.Report(fn, "newItem: the slot is tested and filled in one exclusive critical section", c.InstrPos(in), held && same,
					fmt.Sprintf("slot read with the lock held exclusively: %v; no unlock between the read and the creation: %v", held, same))
			}
		}
	}
	if fn := c.Need(SH + "loadItem"); fn != nil {
		c.MP(fn, "loadItem: a closed map has no shards", nonMatchingReturns(c, fn, 0, "nil"), 1, GCmp("len(l.sharded)", ">=", "1"))
	}
}
