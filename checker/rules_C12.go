package main

import (
	"strings"

	"golang.org/x/tools/go/ssa"
)

func init() {
	Register(&Property{
		ID: "C12",
		Decides: "(R12.1) Tree.IsValid succeeds only after traversing every node; its per-node callback continues only after the node's own validity check succeeded and the node's hash was compared equal to nodeHash(node, its two children), and it never stops early without an error; Traverse visits every index in order; " +
			"(R12.2) nodeHash's digest input is key || left.Hash || right.Hash of its arguments (all three, in that order) and rejects an empty key; generateNodeHash stores exactly nodeHash of the node and its children; " +
			"(R12.3) Proof.Prove returns success only if, at every level, a parent's hash was compared equal to nodeHash(parent, the two children of that level) — at the first level the parent being the node that carries the proved key — and never for an empty node list; Proof.IsValid rejects duplicated keys/hashes and nil nodes beyond the first pair; " +
			"(R12.4) Writer.Add/Tree.Set store only inside the node slice.",
		NotDecided: "collision resistance of SHA-256; completeness of proofs for all tree shapes (the index arithmetic children/parent/indexHeight over runtime values); float log2 exactness beyond 2^47 indices.",
		Run:        runC12,
	})
}

func runC12(c *Ctx) {
	// R12.1 -------------------------------------------------------------------------------------
	c.Rule("R12.1", "MustPass")
	if fn := c.Need("util/fixedtree.(Tree).IsValid"); fn != nil {
		succ := c.SuccessReturns(fn)
		c.MP(fn, "valid only after the traversal succeeded (or the tree is empty)", succ, 1,
			GOkTo("(util/fixedtree.Tree).Traverse"), GCmp("t.Len()", "<", "1"))
		if cl := c.ClosureWithCall(fn, "fixedtree.nodeHash(*)"); cl != nil {
			cont := c.ReturnsD(cl, 0, "true")
			nh := "fixedtree.nodeHash(n, var:children[0], var:children[1])"
			c.MP(cl, "continue only after the node's own validity check", cont, 1, GOk("n.IsValid(b)"))
			c.MP(cl, "continue only after the node hash was recomputed", cont, 1, GOk(nh))
			c.MP(cl, "continue only for a key not seen at an earlier node (a duplicated key has no sound proof)", cont, 1, GFalse("*[n.Key()]#1"))
			c.MP(cl, "continue only after the stored hash equals the recomputed one", cont, 1, GTrue("n.Hash().Equal("+nh+"#0)"), GTrue(nh+"#0.Equal(n.Hash())"))
			c.MP(cl, "continue only with the children resolved (or the node is a leaf)", cont, 1,
				GOk("fixedtree.childrenNodes(t.nodes, index)"), GTrue("errors.Is(fixedtree.childrenNodes(t.nodes, index)#1, fixedtree.errNoChildren)"))
			// no stop-without-error
			stops := c.ReturnsD(cl, 0, "false")
			errs := c.ErrorReturns(cl)
			isErr := map[ssa.Instruction]bool{}
			for _, e := range errs {
				isErr[e] = true
			}
			for _, s := range stops {
				c.Report(cl, "stopping the traversal always carries an error", c.InstrPos(s), isErr[s], c.D(RetVal(s.(*ssa.Return), 1)))
			}
			c.Exists(cl, "error exits present", stops, 3)
			c.StoredIs(cl, "children are those of the visited index in this tree", c.StoresD(cl, "&var:children"), 1, "fixedtree.childrenNodes(t.nodes, index)#0")
		}
	}
	if fn := c.Need("util/fixedtree.(Tree).Traverse"); fn != nil {
		loop := "(ι < len(t.nodes))"
		c.ForEach(fn, "every index is handed to the callback", loop, 1, GCalled("call(f)(ι, t.nodes[ι])"))
		// a nil success without the loop finishing only on keep == false
		c.MP(fn, "traversal ends successfully only at the end or when the callback said stop", c.SuccessReturns(fn), 1,
			GLoopDone(loop), GFalse("call(f)(ι, t.nodes[ι])#0"))
	}
	fixedtreeProofRules(c, "R12.2", "R12.3")
	// R12.4 -------------------------------------------------------------------------------------
	c.Rule("R12.4", "BoundsGuard")
	if fn := c.Need("util/fixedtree.(*Writer).Add"); fn != nil {
		c.MP(fn, "node stored only inside the slice", c.StoresD(fn, "&g.nodes[index]"), 1, GCmp("index", "<", "len(g.nodes)"))
		c.StoredIs(fn, "stored node has its hash cleared (regenerated later)", c.StoresD(fn, "&g.nodes[index]"), 1, "n.SetHash(nil)")
	}
	if fn := c.Need("util/fixedtree.(*Tree).Set"); fn != nil {
		c.MP(fn, "node stored only inside the slice", c.StoresD(fn, "&t.nodes[index]"), 1, GCmp("index", "<", "len(t.nodes)"))
	}
	if fn := c.Need("util/fixedtree.(*Writer).shrinkNodes"); fn != nil {
		// dropping the last slot is only sound after the tail was shifted over the empty slot
		trunc := c.StoresD(fn, "&g.nodes")
		idx := "φ((↺ + 1)|0|↺)"
		c.MP(fn, "last slot dropped only after the tail was shifted down (or the empty slot is the last one)", trunc, 1,
			GCalled("copy(g.nodes["+idx+":], g.nodes[("+idx+" + 1):])"), GCmp(idx, ">=", "(len(g.nodes) - 1)"))
		c.MP(fn, "a slot is dropped only if it is empty", trunc, 1, GNil("g.nodes["+idx+"]"))
		c.Held(fn, nil, "shrinking under the writer lock", trunc, 1, "&g.l", LW)
	}
	if fn := c.Need("util/fixedtree.childrenNodes"); fn != nil {
		var loads []ssa.Instruction
		for _, in := range allInstrs(fn) {
			if ia, ok := in.(*ssa.IndexAddr); ok && c.D(ia.X) == "nodes" {
				loads = append(loads, in)
			}
		}
		if c.Exists(fn, "child lookups", loads, 2) {
			for _, in := range loads {
				idx := c.D(in.(*ssa.IndexAddr).Index)
				c.MP(fn, "child looked up only inside the slice", []ssaInstr{in}, 1, GCmp(idx, "<", "len(nodes)"))
			}
		}
	}
}

// fixedtreeProofRules (shared by C12 and C13): the node hash binds key and both children, and
// Proof.Prove/IsValid accept only a chain of recomputed hashes from the proved key to the root.
func fixedtreeProofRules(c *Ctx, r2, r3 string) {
	if fn := c.Need("util/fixedtree.nodeHash"); fn != nil {
		c.Rule(r2, "NilGuard")
		for _, side := range []string{"left", "right"} {
			c.MP(fn, "the "+side+" child's hash is used only after a nil test", c.CallsD(fn, side+".Hash().Bytes()"), 1, GNonNil(side+".Hash()"))
		}
	}
	// what a proof cannot bind (known findings): the keys of the nodes off the proved path, and the
	// boundary between key and child hashes inside the hashed bytes
	c.Rule(r3+"k", "Dependence")
	if fn := c.Need("util/fixedtree.(Proof).Prove"); fn != nil {
		// every node of the proof has a key; only the proved node's and its ancestors' keys enter a
		// recomputed hash (nodeHash(parent, children...) hashes the parent's key and the children's hashes)
		keyed := 0
		if nh := c.Need("util/fixedtree.nodeHash"); nh != nil {
			keyed = len(c.CallsD(nh, "left.Key()")) + len(c.CallsD(nh, "right.Key()"))
		}
		c.Report(fn, "the keys of all proof nodes are bound by a recomputed hash (children's keys enter the parent's hash)", fn.Pos(), keyed > 0,
			"nodeHash hashes self.Key() and the children's hashes only: keys of siblings and of the proved node's children can be changed without effect")
	}
	if fn := c.Need("util/fixedtree.nodeHash"); fn != nil {
		// framed: some part of the digest input is derived from a length (or there is no plain
		// concatenation of the three parts at all)
		framed := len(c.CallsD(fn, "util.ConcatBytesSlice(*)")) == 0
		for _, st := range c.StoresD(fn, "&var:varargs[*]") {
			d := c.D(st.(*ssa.Store).Val)
			if strings.Contains(d, "len(") || strings.Contains(d, "Uint64ToBytes") || strings.Contains(d, "Int64ToBytes") {
				framed = true
			}
		}
		c.Report(fn, "the hashed bytes keep key and child hashes apart (length framing or fixed widths)", fn.Pos(), framed,
			"plain concatenation key||left||right: bytes can move between the key and a child hash, and a leaf key can absorb two child hashes")
	}
	// R12.2 -------------------------------------------------------------------------------------
	c.Rule(r2, "Dependence")
	if fn := c.Need("util/fixedtree.nodeHash"); fn != nil {
		calls := c.CallsTo(fn, "util/valuehash.NewSHA256")
		if c.Exists(fn, "digest computed", calls, 1) {
			arg := CallArg(calls[0], 0)
			for _, src := range []string{"self.Key()", "left.Hash().Bytes()", "right.Hash().Bytes()"} {
				c.Report(fn, "digest input depends on "+src, c.InstrPos(calls[0]), c.DependsOnD(arg, src), c.D(arg))
			}
			c.Report(fn, "digest input is the concatenation", c.InstrPos(calls[0]), strings.HasPrefix(c.D(arg), "util.ConcatBytesSlice("), c.D(arg))
		}
		c.StoredIs(fn, "first part is the key", c.StoresD(fn, "&var:varargs[0]"), 1, "self.Key()")
		c.StoredIs(fn, "second part is the left child's hash", c.StoresD(fn, "&var:varargs[1]"), 1, "φ(left.Hash().Bytes()|nil)")
		c.StoredIs(fn, "third part is the right child's hash", c.StoresD(fn, "&var:varargs[2]"), 1, "φ(nil|right.Hash().Bytes())")
		c.MP(fn, "digest only for a non-empty key", calls, 1, GCmp("len(self.Key())", ">=", "1"))
		succ := c.SuccessReturns(fn)
		for _, r := range succ {
			c.Report(fn, "result is the digest", c.InstrPos(r), strings.HasPrefix(c.D(RetVal(r.(*ssa.Return), 0)), "valuehash.NewSHA256("), c.D(RetVal(r.(*ssa.Return), 0)))
		}
	}
	if fn := c.Need("util/fixedtree.generateNodeHash"); fn != nil {
		nh := c.CallsTo(fn, "util/fixedtree.nodeHash")
		c.ArgIs(fn, "hash generated for the node at index", nh, 1, 0, "nodes[index]")
		c.ArgIs(fn, "hash generated over the left child", nh, 1, 1, "fixedtree.childrenNodes(nodes, index)#0[0]", "var:children[0]")
		c.ArgIs(fn, "hash generated over the right child", nh, 1, 2, "fixedtree.childrenNodes(nodes, index)#0[1]", "var:children[1]")
		sh := c.CallsD(fn, "*.SetHash(*)")
		c.ArgIs(fn, "node takes the generated hash", sh, 1, 0, "fixedtree.nodeHash(*)#0")
		c.MP(fn, "hash set only if generation succeeded", sh, 1, GOkTo("util/fixedtree.nodeHash"))
	}
	if fn := c.Need("util/fixedtree.generateNodesHash"); fn != nil {
		// children before parents: indices descend from the last node
		calls := c.CallsTo(fn, "util/fixedtree.generateNodeHash")
		c.ArgIs(fn, "hashes generated from the last index down (children first)", calls, 1, 0, "((len(nodes) - 1) - ι)")
		c.MP(fn, "success only after every node was hashed", c.SuccessReturns(fn), 1, GLoopDone("(ι < len(nodes))"))
		c.ForEach(fn, "every node hashed", "(ι < len(nodes))", 1, GOkTo("util/fixedtree.generateNodeHash"))
	}
	// R12.3 -------------------------------------------------------------------------------------
	c.Rule(r3, "MustPass")
	if fn := c.Need("util/fixedtree.(Proof).Prove"); fn != nil {
		succ := c.SuccessReturns(fn)
		c.MP(fn, "proved only for a non-empty node path", succ, 1, GCmp("len(p.filterNodes(key))", ">=", "1"))
		levels := "(ι < ((len(p.filterNodes(key)) - 1) / 2))"
		c.MP(fn, "proved only after every level was checked", succ, 1, GLoopDone(levels))
		c.ForEach(fn, "each level: some parent matched", levels, 1, GTrue("φ(false|true)"))
		// the `passed` flag becomes true only under an Equal test of parent hash vs nodeHash(parent, the level's children)
		for _, b := range fn.Blocks {
			ifi, ok := b.Instrs[len(b.Instrs)-1].(*ssa.If)
			if !ok || c.D(ifi.Cond) != "φ(false|true)" {
				continue
			}
			edges := c.PhiLeafEdges(ifi.Cond, "true")
			c.MPEdge(fn, "a level passes only under parent.Hash().Equal(nodeHash(parent, left, right))", edges, 1,
				GTrue("*.Hash().Equal(fixedtree.nodeHash(*, p.filterNodes(key)[(ι * 2)], p.filterNodes(key)[((ι * 2) + 1)])#0)"))
			c.MPEdge(fn, "a level passes only if the hash computation succeeded", edges, 1, GOkTo("util/fixedtree.nodeHash"))
			c.MPEdge(fn, "the first level passes only through the node that carries the proved key", edges, 1,
				GCmp("ι", "!=", "0"), GCmp("*[ι′].Key()", "==", "key"))
		}
		nh := c.CallsTo(fn, "util/fixedtree.nodeHash")
		c.ArgIs(fn, "level hash over the level's first child", nh, 1, 1, "p.filterNodes(key)[(ι * 2)]")
		c.ArgIs(fn, "level hash over the level's second child", nh, 1, 2, "p.filterNodes(key)[((ι * 2) + 1)]")
		if len(nh) == 1 {
			parent := c.D(CallArg(nh[0], 0))
			c.Report(fn, "the compared parent is the one hashed", c.InstrPos(nh[0]),
				len(c.condsMatching(fn, parent+".Hash().Equal(fixedtree.nodeHash("+parent+", *)#0)")) == 1, parent)
			c.Report(fn, "parents are taken right after the level's children", c.InstrPos(nh[0]),
				strings.Contains(parent, "p.filterNodes(key)[((ι * 2) + 2):((ι * 2) + 3)]") && strings.Contains(parent, "p.filterNodes(key)[((ι * 2) + 2):((ι * 2) + 4)]"), parent)
		}
	}
	if fn := c.Need("util/fixedtree.(Proof).IsValid"); fn != nil {
		succ := c.SuccessReturns(fn)
		c.MP(fn, "valid proof: non-empty", succ, 1, GCmp("len(p.nodes)", ">=", "1"))
		c.MP(fn, "valid proof: odd number of nodes", succ, 1, GCmp("(len(p.nodes) % 2)", "==", "1"))
		dups := c.condsMatching(fn, "util.IsDuplicatedSlice(p.nodes, *)")
		c.Exists(fn, "duplicate key and duplicate hash tests", dups, 2)
		for _, d := range dups {
			ifi := d.(*ssa.If)
			c.MP(fn, "valid proof: no duplicates", succ, 1, GFalse(c.D(ifi.Cond)))
		}
		c.ForEach(fn, "each present node validated", "(ι < len(p.nodes))", 1, GOk("p.nodes[ι].IsValid(b)"), GNil("p.nodes[ι]"))
	}
}
