package main

import (
	"fmt"
	"sort"
	"strings"

	"golang.org/x/tools/go/ssa"
)

func init() {
	Register(&Property{
		ID: "C05",
		Decides: "(R05.1) every access of the ballotbox's record map builds its key as the stage point string with the same literal prefix set at writer, reader and remover sites (a remover using another prefix never releases suffrage-confirm records); " +
			"(R05.2) records are returned to the pool only by the cleanup cycle, only records of the previous cycle's removed list, every record put on the removed list is removed from the map in the same cycle, and the unfinished-record scan skips removed records; " +
			"(R05.3) every mutating/counting method of a record first tests that the record is not a recycled (zero stage point) one, and every field of a pooled record is re-initialised on the put side or the get side; " +
			"(R05.4) a record's vote maps are touched only through the method's own receiver, and the public per-point queries look the record up with their own point argument.; (R05.3r) a released vote record is never re-issued for another stage point (nothing is handed back to voterecordsPool; the re-initialisation rules R05.3p apply only if it is); (R05.2) vote() fetches or creates a record only after isNewBallot accepted the ballot (a late ballot does not re-create the record of a released stage point)",
		NotDecided: "the tally itself (C01/C04); races between cleanup and concurrent voters beyond the record lock.",
		Run:        runC05,
	})
}

func runC05(c *Ctx) {
	// a record comes into being only for a stage point the box has not passed: vote() asks isNewBallot
	// before it fetches-or-creates the record (a late ballot of a released stage point would re-create
	// an empty record under its key, which is then consulted and released a second time)
	c.Rule("R05.2", "MustPass")
	if fn := c.Need("isaac/states.(*Ballotbox).vote"); fn != nil {
		c.MP(fn, "vote: a record is fetched or created only for a ballot newer than the last point", c.CallsD(fn, "box.newVoterecords(*)"), 1, GTrue("box.isNewBallot(*)"))
	}
	// R05.1 key table ------------------------------------------------------------------------
	c.Rule("R05.1", "KeyTable")
	sites := c.CallsInFuncs("(*util.ShardedMap[*]).*", "isaac/states.(*Ballotbox).")
	var keyed []Site
	for _, s := range sites {
		cc := callCommon(s.In)
		if !P("box.vrs").Match(c.D(cc.Args[0])) && !P("*box.vrs").Match(c.D(cc.Args[0])) {
			continue
		}
		name := CalleeFullName(cc)
		name = name[strings.LastIndex(name, ".")+1:]
		switch name {
		case "Value", "Set", "RemoveValue", "Remove", "Exists", "SetValue", "GetOrCreate":
			keyed = append(keyed, s)
		}
	}
	if c.Floor(nil, "keyed accesses of Ballotbox.vrs", len(keyed), 3) {
		var ref []string
		var refSite string
		for i, s := range keyed {
			key := CallArg(s.In, 0)
			consts := c.StringConsts(key)
			kd := c.D(key)
			okShape := strings.Contains(kd, ".String()")
			c.Report(s.Fn, "vrs key derives from a stage point string", c.InstrPos(s.In), okShape, "key: "+kd)
			if i == 0 {
				ref, refSite = consts, c.FuncKey(s.Fn)
				continue
			}
			c.Report(s.Fn, "vrs key prefix literals agree with "+refSite, c.InstrPos(s.In), SetEq(consts, ref),
				fmt.Sprintf("literals here %q, at %s %q", consts, refSite, ref))
		}
	}
	// R05.2 release discipline -----------------------------------------------------------------
	c.Rule("R05.2", "WhoMayCall")
	put := c.FuncOfGlobal("isaac/states", "voterecordsPoolPut")
	if put == nil {
		c.Unresolved(nil, "voterecordsPoolPut", "function value of voterecordsPoolPut not found")
	}
	clean1 := c.Need("isaac/states.(*Ballotbox).clean$1")
	if clean1 != nil && put != nil {
		var putCalls []Site
		for _, fn := range c.Funcs {
			for _, in := range allInstrs(fn) {
				if cc := callCommon(in); cc != nil && P("call(isaacstates.voterecordsPoolPut)(*)").Match(c.dCall(cc, 0, map[ssa.Value]bool{})) {
					putCalls = append(putCalls, Site{fn, in})
				}
			}
		}
		c.OnlyIn("call voterecordsPoolPut", putCalls, 1, "isaac/states.(*Ballotbox).clean")
		for _, s := range putCalls {
			if s.Fn == clean1 {
				c.ArgIs(clean1, "pool put: an element of the previous removed list", []ssaInstr{s.In}, 1, 0, "var:removed[ι]", "removed[ι]")
				c.MP(clean1, "pool put: only when a previous list exists", []ssaInstr{s.In}, 1, GFalse("isempty"))
			}
		}
		// grace cycle: records are recycled before the list is refilled — no pool put is reachable
		// once the map traversal that collects this cycle's records has started
		trav := c.CallsD(clean1, "box.vrs.Traverse(*)")
		if c.Exists(clean1, "this cycle's records collected by traversing the map", trav, 1) {
			after := reach(clean1, trav[0], nil)
			late := 0
			for _, s := range putCalls {
				if s.Fn == clean1 && after.reached[s.In] {
					late++
					c.Report(clean1, "no pool put after this cycle's collection (records get a grace cycle)", c.InstrPos(s.In), false,
						"voterecordsPoolPut is reachable after box.vrs.Traverse: records detached in this cycle would be recycled at once")
				}
			}
			c.Report(clean1, "pool puts precede this cycle's collection", c.InstrPos(trav[0]), late == 0, "grace cycle")
			// and the refilled list starts empty: removed is reset before the traversal
			c.MP(clean1, "previous list dropped before refilling", trav, 1, GStored("&var:removed"), GTrue("isempty"))
		}
		c.Rule("R05.2b", "ForEach")
		c.ForEach(clean1, "each removed record is removed from the map", "(ι < len(var:removed))", 2, GCalled("box.vrs.RemoveValue(*)"),
			GCalled("call(isaacstates.voterecordsPoolPut)(*)"))
		rm := c.CallsD(clean1, "box.vrs.RemoveValue(*)")
		c.Exists(clean1, "map removal present in the cleanup cycle", rm, 1)
		// the removed list returned is the list whose elements were removed
		c.Exists(clean1, "cleanup returns the removed list for the next cycle", c.ReturnsD(clean1, 0, "var:removed"), 1)
		// the slot never keeps a list whose records were just pooled: every return replaces it (a non-nil
		// error makes Locked.Set keep the old value)
		for _, r := range Returns(clean1) {
			if len(r.Results) == 2 {
				e := c.D(RetVal(r, 1))
				c.Report(clean1, "cleanup replaces the removed-list slot on every return (nil error)", c.InstrPos(r), e == "nil", "error result "+e+": util.Locked.Set would keep the previous (already pooled) list")
			}
		}
		if cl := c.Need("isaac/states.(*Ballotbox).clean$1$1"); cl != nil {
			c.Rule("R05.2c", "MustPass")
			c.MP(cl, "append to removed: stage point below the last point", c.StoresD(cl, "&var:removed"), 1,
				GCmp("vr.stagepoint().Compare(var:last)", "<", "0"))
		}
	}
	if cl := c.Need("isaac/states.(*Ballotbox).unfinishedVoterecords$1$1"); cl != nil {
		c.Rule("R05.2d", "MustPass")
		st := c.StoresD(cl, "&var:vrs")
		c.MP(cl, "unfinished scan: removed records skipped", st, 1, GFalse("make(map[string]struct{})[vr.stagepoint().String()]#1"))
		c.MP(cl, "unfinished scan: finished records skipped", st, 1, GFalse("vr.isFinishedLocked()"))
	}
	if cl := c.Need("isaac/states.(*Ballotbox).unfinishedVoterecords$1"); cl != nil {
		mu := c.MapUpdatesD(cl, "make(map[string]struct{})")
		if c.Exists(cl, "removed set filled from the removed list", mu, 1) {
			k := c.D(mu[0].(*ssa.MapUpdate).Key)
			c.Report(cl, "removed set keyed by the record's stage point", c.InstrPos(mu[0]), k == "removed[ι].sp.String()", "key: "+k)
		}
	}
	// R05.3 recycled-record guard and pooled reset ------------------------------------------------
	c.Rule("R05.3", "MustPass")
	notRecycled := GFalse("vr.sp.IsZero()")
	if fn := c.Need("isaac/states.(*voterecords).vote"); fn != nil {
		var ts []ssa.Instruction
		for _, m := range []string{"vr.vps", "vr.expels", "vr.ballots", "vr.voted"} {
			ts = append(ts, c.MapUpdatesD(fn, m)...)
		}
		c.MP(fn, "record mutation: not a recycled record", ts, 4, notRecycled)
	}
	if fn := c.Need("isaac/states.(*voterecords).count"); fn != nil {
		ts := append(c.CallsD(fn, "vr.countFromVoted(*)"), c.CallsD(fn, "vr.voteproofFromBallot(*)")...)
		ts = append(ts, c.CallsD(fn, "vr.countFromBallots(*)")...)
		c.MP(fn, "counting: not a recycled record", ts, 3, notRecycled)
	}
	if fn := c.Need("isaac/states.(*voterecords).stuckVoteproof"); fn != nil {
		ts := append(c.CallsD(fn, "vr.copyVoted(*)"), c.CallsD(fn, "vr.newStuckVoteproof(*)")...)
		c.MP(fn, "stuck voteproof: not a recycled record", ts, 2, notRecycled)
	}
	c.Rule("R05.3r", "Ownership")
	// released records may still be held by MissingNodes, StuckVoteproof, vote() and its deferred
	// voteproof check; nothing tracks those holders, so a released record must never be re-issued
	var puts []ssa.Instruction
	for _, f := range c.FuncsWithPrefix("isaac/states.") {
		puts = append(puts, c.CallsD(f, "isaacstates.voterecordsPool.Put(*)")...)
	}
	recycles := len(puts) > 0
	if put != nil {
		c.Report(put, "released vote records are not re-issued while other goroutines may still hold them", put.Pos(), !recycles,
			fmt.Sprintf("%d hand-back(s) to voterecordsPool; holders of a released record are not tracked", len(puts)))
	}
	c.Rule("R05.3p", "FieldCoverage")
	nv := c.Need("isaac/states.newVoterecords")
	if nv != nil && !recycles {
		c.StoredIs(nv, "new record takes the requested stage point", c.StoresD(nv, "&isaacstates.voterecordsPool.Get().sp"), 1, "stagepoint")
		c.StoredIs(nv, "new record takes the suffrage-confirm flag", c.StoresD(nv, "&isaacstates.voterecordsPool.Get().isc"), 1, "isSuffrageConfirm")
		c.StoredIs(nv, "new record is unfinished", c.StoresD(nv, "&isaacstates.voterecordsPool.Get().vp"), 1, "nil")
	}
	if put != nil && nv != nil && recycles {
		stored := c.FieldsStoredIn("voterecords", put, nv)
		// maps cleared in place on the put side count as reset
		for _, in := range allInstrs(put) {
			if cc := callCommon(in); cc != nil && CalleeFullName(cc) == "clear" && len(cc.Args) == 1 {
				d := c.D(cc.Args[0])
				if strings.HasPrefix(d, "vr.") {
					stored[strings.TrimPrefix(d, "vr.")] = true
				}
			}
		}
		exempt := map[string]string{
			"RWMutex": "the record's own lock",
			"Logging": "embedded logger pointer, never assigned nor read for this type (vr.log is used)",
		}
		fields := c.StructFields("isaac/states", "voterecords")
		c.Floor(nv, "voterecords fields", len(fields), 10)
		sort.Strings(fields)
		for _, f := range fields {
			if why, ok := exempt[f]; ok {
				c.Report(nv, "pooled field "+f+" exempt", nv.Pos(), true, why)
				continue
			}
			c.Report(nv, "pooled field "+f+" re-initialised", nv.Pos(), stored[f], "assigned in voterecordsPoolPut ∪ newVoterecords")
			if stored[f] {
				c.Report(nv, "pooled field "+f+" re-initialised on every path", nv.Pos(), resetOnEveryPath(c, put, f) || resetOnEveryPath(c, nv, f),
					"every assignment/clear of the field in voterecordsPoolPut and in newVoterecords is conditional: a recycled record can keep the previous stage point's value")
			}
		}
		c.StoredIs(put, "pool put resets the stage point", c.StoresD(put, "&vr.sp"), 1, "base.ZeroStagePoint")
		c.StoredIs(nv, "new record takes the requested stage point", c.StoresD(nv, "&isaacstates.voterecordsPool.Get().sp"), 1, "stagepoint")
		c.StoredIs(nv, "new record takes the suffrage-confirm flag", c.StoresD(nv, "&isaacstates.voterecordsPool.Get().isc"), 1, "isSuffrageConfirm")
		c.StoredIs(nv, "new record is unfinished", c.StoresD(nv, "&isaacstates.voterecordsPool.Get().vp"), 1, "nil")
	}
	// R05.4 ownership ---------------------------------------------------------------------------
	c.Rule("R05.4", "Ownership")
	n := 0
	for _, f := range []string{"voted", "ballots", "expels", "vps", "vp"} {
		for _, s := range c.WhoTouches("voterecords", f) {
			n++
			key := c.FuncKey(s.Fn)
			root := key
			if i := strings.Index(root, "$"); i >= 0 {
				root = root[:i]
			}
			okFn := strings.HasPrefix(root, "isaac/states.(*voterecords).") || root == "isaac/states.newVoterecords" || (put != nil && s.Fn == put)
			base := fieldBaseD(c, s.In, "voterecords", f)
			okBase := base == "vr" || strings.HasPrefix(base, "isaacstates.voterecordsPool.Get()")
			c.Report(s.Fn, "voterecords."+f+" touched through the method's own receiver", c.InstrPos(s.In), okFn && okBase, "in "+key+", base "+base)
		}
	}
	c.Floor(nil, "accesses of voterecords vote maps", n, 30)
	for _, m := range []string{"Voted", "StuckVoteproof", "MissingNodes"} {
		if fn := c.Need("isaac/states.(*Ballotbox)." + m); fn != nil {
			calls := c.CallsD(fn, "box.voterecords(*)")
			c.ArgIs(fn, "record looked up with the query's own point", calls, 1, 0, "point")
		}
	}
}

// fieldBaseD: descriptor of the struct value whose field is accessed by instruction `in`.
func fieldBaseD(c *Ctx, in ssa.Instruction, typeName, field string) string {
	var ops []*ssa.Value
	check := func(v ssa.Value) (string, bool) {
		switch x := v.(type) {
		case *ssa.FieldAddr:
			if fieldIs(x.X.Type(), x.Field, typeName, field) {
				s := c.D(x.X)
				return strings.TrimPrefix(s, "&"), true
			}
		case *ssa.Field:
			if fieldIs(x.X.Type(), x.Field, typeName, field) {
				return c.D(x.X), true
			}
		}
		return "", false
	}
	if v, ok := in.(ssa.Value); ok {
		if s, ok := check(v); ok {
			return s
		}
	}
	for _, o := range in.Operands(ops) {
		if *o == nil {
			continue
		}
		if s, ok := check(*o); ok {
			return s
		}
	}
	return "?"
}

// resetOnEveryPath: fn stores to (or clears) field f of a voterecords on every path to its return.
func resetOnEveryPath(c *Ctx, fn *ssa.Function, f string) bool {
	set := map[ssa.Instruction]bool{}
	for _, in := range allInstrs(fn) {
		switch x := in.(type) {
		case *ssa.Store:
			if fa, ok := x.Addr.(*ssa.FieldAddr); ok && fieldIs(fa.X.Type(), fa.Field, "voterecords", f) {
				set[in] = true
			}
		default:
			if cc := callCommon(in); cc != nil && CalleeFullName(cc) == "clear" && len(cc.Args) == 1 {
				if u, ok := cc.Args[0].(*ssa.UnOp); ok {
					if fa, ok := u.X.(*ssa.FieldAddr); ok && fieldIs(fa.X.Type(), fa.Field, "voterecords", f) {
						set[in] = true
					}
				}
			}
		}
	}
	if len(set) == 0 {
		return false
	}
	res := c.MustPass(fn, nil, AllReturns(fn), Gate{Name: "reset of " + f, Barrier: func(p *Prog, in ssa.Instruction) bool { return set[in] }})
	for _, r := range res {
		if !r.OK {
			return false
		}
	}
	return len(res) > 0
}
