package main

import (
	"fmt"
	"go/token"
	"go/types"
	"regexp"
	"strings"

	"golang.org/x/tools/go/ssa"
)

// ---------------------------------------------------------------------------------------------
// patterns over descriptors

// Pat is a compiled descriptor pattern. Syntax: literal text where `*` matches any (possibly
// empty) sequence; a leading "re:" switches to a Go regexp. Always a full match.
type Pat struct {
	src   string
	re    *regexp.Regexp
	parts []string // glob: literal parts between stars
}

var patCache = map[string]*Pat{}

func P(s string) *Pat {
	if p, ok := patCache[s]; ok {
		return p
	}
	var re *regexp.Regexp
	if strings.HasPrefix(s, "re:") {
		re = regexp.MustCompile("^(?:" + s[3:] + ")$")
	}
	p := &Pat{src: s, re: re}
	if re == nil {
		p.parts = strings.Split(s, "*")
	}
	patCache[s] = p
	return p
}

// Match: for glob patterns every `*` matches a (possibly empty) substring that is balanced with
// respect to (), [] — so "box.voterecords(*)" matches exactly the calls of box.voterecords and not
// a longer expression that merely starts with one.
func (p *Pat) Match(s string) bool {
	if p.re != nil {
		return p.re.MatchString(s)
	}
	return globMatch(p.parts, s)
}

func globMatch(parts []string, s string) bool {
	if len(parts) == 1 {
		return s == parts[0]
	}
	if !strings.HasPrefix(s, parts[0]) {
		return false
	}
	s = s[len(parts[0]):]
	rest := parts[1:]
	// choose the extent of the star: every balanced prefix of s
	depth := 0
	for i := 0; i <= len(s); i++ {
		if depth == 0 {
			if len(rest) == 1 {
				if s[i:] == rest[0] {
					return true
				}
			} else if strings.HasPrefix(s[i:], rest[0]) && globMatch(rest, s[i:]) {
				return true
			}
		}
		if i == len(s) {
			break
		}
		switch s[i] {
		case '(', '[':
			depth++
		case ')', ']':
			depth--
			if depth < 0 {
				return false
			}
		}
	}
	return false
}
func (p *Pat) String() string { return p.src }

// ---------------------------------------------------------------------------------------------
// instruction-level reachability with deletable edges and barrier instructions

// Cut describes what is removed from the control-flow graph before asking for reachability.
type Cut struct {
	// for blocks ending in an If: which successor edges are deleted (0 = true edge, 1 = false edge)
	Edges map[*ssa.BasicBlock][2]bool
	// instructions after which the requirement is satisfied: propagation stops there
	Barriers map[ssa.Instruction]bool
}

func NewCut() *Cut {
	return &Cut{Edges: map[*ssa.BasicBlock][2]bool{}, Barriers: map[ssa.Instruction]bool{}}
}

type reachResult struct {
	reached map[ssa.Instruction]bool
	// predecessor block in the BFS tree, for witness paths
	parent map[*ssa.BasicBlock]*ssa.BasicBlock
	start  *ssa.BasicBlock
}

// reach computes the instructions reachable from `from` (exclusive; nil = function entry) in the
// graph with cut removed.
func reach(fn *ssa.Function, from ssa.Instruction, cut *Cut) *reachResult {
	res := &reachResult{reached: map[ssa.Instruction]bool{}, parent: map[*ssa.BasicBlock]*ssa.BasicBlock{}}
	if len(fn.Blocks) == 0 {
		return res
	}
	type item struct {
		b   *ssa.BasicBlock
		idx int
	}
	entered := map[*ssa.BasicBlock]bool{} // entered at index 0
	var queue []item
	if from == nil {
		queue = append(queue, item{fn.Blocks[0], 0})
		entered[fn.Blocks[0]] = true
		res.start = fn.Blocks[0]
	} else {
		b := from.Block()
		idx := 0
		for i, in := range b.Instrs {
			if in == from {
				idx = i + 1
			}
		}
		queue = append(queue, item{b, idx})
		res.start = b
	}
	for len(queue) > 0 {
		it := queue[0]
		queue = queue[1:]
		stopped := false
		for i := it.idx; i < len(it.b.Instrs); i++ {
			in := it.b.Instrs[i]
			res.reached[in] = true
			if cut != nil && cut.Barriers[in] {
				stopped = true
				break
			}
		}
		if stopped {
			continue
		}
		del := [2]bool{}
		if cut != nil {
			del = cut.Edges[it.b]
		}
		for si, s := range it.b.Succs {
			if si < 2 && del[si] {
				if _, isIf := it.b.Instrs[len(it.b.Instrs)-1].(*ssa.If); isIf {
					continue
				}
			}
			if !entered[s] {
				entered[s] = true
				res.parent[s] = it.b
				queue = append(queue, item{s, 0})
			}
		}
	}
	return res
}

// path renders a witness path (block by block) from the start to the target instruction.
func (p *Prog) path(res *reachResult, target ssa.Instruction) string {
	var blocks []*ssa.BasicBlock
	b := target.Block()
	guard := 0
	for b != nil && guard < 10000 {
		blocks = append(blocks, b)
		if b == res.start {
			break
		}
		b = res.parent[b]
		guard++
	}
	var parts []string
	last := ""
	for i := len(blocks) - 1; i >= 0; i-- {
		bb := blocks[i]
		pos := token.NoPos
		if i == 0 {
			pos = p.InstrPos(target)
		} else {
			// position of the block terminator (the decision taken)
			pos = p.InstrPos(bb.Instrs[len(bb.Instrs)-1])
		}
		s := p.Pos(pos)
		if idx := strings.LastIndex(s, "/"); idx >= 0 {
			s = s[idx+1:]
		}
		if s != last {
			parts = append(parts, s)
			last = s
		}
	}
	if len(parts) > 14 {
		parts = append(parts[:6], append([]string{"…"}, parts[len(parts)-6:]...)...)
	}
	return strings.Join(parts, " -> ")
}

// ---------------------------------------------------------------------------------------------
// gates

// Gate decides, for an If instruction, which of its two edges are "passing" edges.
type Gate struct {
	Name string
	// Edges reports passing edges of the If terminating block b.
	Edges func(p *Prog, ifi *ssa.If) (t, f bool)
	// Barrier reports whether executing instruction `in` satisfies the gate (ordering gates).
	Barrier func(p *Prog, in ssa.Instruction) bool
	// ErrOf (GOk gates): v is the error result of the gated call — a `return G(…)` tail delegation
	// passes the gate exactly when it returns nil.
	ErrOf func(p *Prog, v ssa.Value) bool
}

var negOp = map[token.Token]token.Token{token.EQL: token.NEQ, token.NEQ: token.EQL, token.LSS: token.GEQ,
	token.LEQ: token.GTR, token.GTR: token.LEQ, token.GEQ: token.LSS}
var flipOp = map[token.Token]token.Token{token.EQL: token.EQL, token.NEQ: token.NEQ, token.LSS: token.GTR,
	token.LEQ: token.GEQ, token.GTR: token.LSS, token.GEQ: token.LEQ}

// implies: relation r between (x,y) implies wanted relation w between (x,y)
func implies(r, w token.Token) bool {
	if r == w {
		return true
	}
	switch w {
	case token.NEQ:
		return r == token.LSS || r == token.GTR
	case token.LEQ:
		return r == token.LSS || r == token.EQL
	case token.GEQ:
		return r == token.GTR || r == token.EQL
	}
	return false
}

var opByName = map[string]token.Token{"==": token.EQL, "!=": token.NEQ, "<": token.LSS, "<=": token.LEQ,
	">": token.GTR, ">=": token.GEQ}

// stripNot peels !x (ssa keeps a UnOp NOT only when the negation is materialised as a value).
func stripNot(v ssa.Value) (ssa.Value, bool) {
	neg := false
	for {
		u, ok := v.(*ssa.UnOp)
		if !ok || u.Op != token.NOT {
			return v, neg
		}
		v = u.X
		neg = !neg
	}
}

// condRelations returns the relation asserted on each edge if the condition is a comparison of
// values matching x and y (in either operand order).
func condCmp(p *Prog, ifi *ssa.If, x, y func(ssa.Value) bool) (tRel, fRel token.Token, ok bool) {
	c, neg := stripNot(ifi.Cond)
	b, isBin := c.(*ssa.BinOp)
	if !isBin {
		return 0, 0, false
	}
	if _, isCmp := negOp[b.Op]; !isCmp {
		return 0, 0, false
	}
	var rel token.Token
	switch {
	case x(b.X) && y(b.Y):
		rel = b.Op
	case x(b.Y) && y(b.X):
		rel = flipOp[b.Op]
	default:
		return 0, 0, false
	}
	tRel, fRel = rel, negOp[rel]
	if neg {
		tRel, fRel = fRel, tRel
	}
	return tRel, fRel, true
}

func (p *Prog) matchD(pat *Pat) func(ssa.Value) bool {
	return func(v ssa.Value) bool { return pat.Match(p.D(v)) }
}

// GCmp: the edge asserts `X op Y` (or something that implies it), X and Y given as descriptor patterns.
func GCmp(x, op, y string) Gate {
	w, okop := opByName[op]
	if !okop {
		panic("bad op " + op)
	}
	px, py := P(x), P(y)
	return Gate{Name: fmt.Sprintf("%s %s %s", x, op, y), Edges: func(p *Prog, ifi *ssa.If) (bool, bool) {
		tr, fr, ok := condCmp(p, ifi, p.matchD(px), p.matchD(py))
		if !ok {
			if w == token.NEQ {
				// X == K' for a different constant K' implies X != K
				otherConst := func(v ssa.Value) bool {
					k, isK := v.(*ssa.Const)
					return isK && k.Value != nil && !py.Match(p.D(v))
				}
				if _, isLit := isLiteralPat(y); isLit {
					if tr, fr, ok := condCmp(p, ifi, p.matchD(px), otherConst); ok {
						return tr == token.EQL, fr == token.EQL
					}
				}
			}
			return false, false
		}
		return implies(tr, w), implies(fr, w)
	}}
}

// isLiteralPat: the pattern denotes one constant (a quoted string or a number).
func isLiteralPat(s string) (string, bool) {
	if s == "" || strings.ContainsAny(s, "*") {
		return "", false
	}
	if s[0] == '"' || (s[0] >= '0' && s[0] <= '9') || s[0] == '-' {
		return s, true
	}
	return "", false
}

// GTrue: the edge asserts that a boolean value matching pat is true.
func GTrue(pat string) Gate {
	pp := P(pat)
	return Gate{Name: pat + " is true", Edges: func(p *Prog, ifi *ssa.If) (bool, bool) {
		c, neg := stripNot(ifi.Cond)
		if bo, ok := c.(*ssa.BinOp); ok && (bo.Op == token.EQL || bo.Op == token.NEQ) {
			// x == true / x != false forms
			if k, ok := bo.Y.(*ssa.Const); ok && k.Value != nil && isBool(k.Type()) && pp.Match(p.D(bo.X)) {
				kv := k.Value.ExactString() == "true"
				t := (bo.Op == token.EQL) == kv
				if neg {
					t = !t
				}
				return t, !t
			}
		}
		if !pp.Match(p.D(c)) {
			return false, false
		}
		return !neg, neg
	}}
}

// GFalse: the edge asserts that a boolean value matching pat is false.
func GFalse(pat string) Gate {
	g := GTrue(pat)
	return Gate{Name: pat + " is false", Edges: func(p *Prog, ifi *ssa.If) (bool, bool) {
		t, f := g.Edges(p, ifi)
		return f, t
	}}
}

func isBool(t types.Type) bool {
	b, ok := t.Underlying().(*types.Basic)
	return ok && b.Info()&types.IsBoolean != 0
}

// GNil / GNonNil: the edge asserts X == nil / X != nil.
func GNil(x string) Gate    { return GCmp(x, "==", "nil") }
func GNonNil(x string) Gate { return GCmp(x, "!=", "nil") }

// GOk: the edge asserts that the error result of a call matching callPat is nil.
func GOk(callPat string) Gate {
	pc := P(callPat)
	return gOk(callPat+" succeeded", func(p *Prog, c *ssa.Call) bool { return pc.Match(p.D(c)) })
}

// GOkTo: like GOk, the call given by its resolved callee full name (pattern).
func GOkTo(calleePat string) Gate {
	pc := P(calleePat)
	return gOk("call of "+calleePat+" succeeded", func(p *Prog, c *ssa.Call) bool { return pc.Match(CalleeFullName(&c.Call)) })
}

func gOk(name string, isCall func(p *Prog, c *ssa.Call) bool) Gate {
	errOf := func(p *Prog, v ssa.Value) bool {
		if !isErrorType(v.Type()) {
			return false
		}
		return p.errOfCall(v, isCall, map[ssa.Value]bool{})
	}
	return Gate{Name: name, ErrOf: errOf, Edges: func(p *Prog, ifi *ssa.If) (bool, bool) {
		isErrOfCall := func(v ssa.Value) bool { return errOf(p, v) }
		isNil := func(v ssa.Value) bool { k, ok := v.(*ssa.Const); return ok && k.IsNil() }
		tr, fr, ok := condCmp(p, ifi, isErrOfCall, isNil)
		if !ok {
			return false, false
		}
		return tr == token.EQL, fr == token.EQL
	}}
}

// errOfCall: v is the error result of a call whose descriptor matches pc (possibly through
// nil-preserving wrappers and single-assignment variables).
func (p *Prog) errOfCall(v ssa.Value, pc func(p *Prog, c *ssa.Call) bool, seen map[ssa.Value]bool) bool {
	if seen[v] {
		return false
	}
	seen[v] = true
	switch x := v.(type) {
	case *ssa.Extract:
		if c, ok := x.Tuple.(*ssa.Call); ok {
			return pc(p, c)
		}
	case *ssa.Call:
		if pc(p, x) {
			return true
		}
		if a := nilPreservingArg(&x.Call); a != nil {
			return p.errOfCall(a, pc, seen)
		}
	case *ssa.UnOp:
		if x.Op == token.MUL {
			var al *ssa.Alloc
			switch a := x.X.(type) {
			case *ssa.Alloc:
				al = a
			case *ssa.FreeVar:
				al = p.freeVarAlloc(a)
			}
			if al != nil {
				sts := p.storesTo(al)
				if len(sts) == 0 {
					return false
				}
				for _, st := range sts {
					if !p.errOfCall(st.Val, pc, seen) {
						return false
					}
				}
				return true
			}
		}
	case *ssa.Phi:
		for _, e := range x.Edges {
			if k, ok := e.(*ssa.Const); ok && k.IsNil() {
				continue
			}
			if !p.errOfCall(e, pc, seen) {
				return false
			}
		}
		return true
	case *ssa.ChangeInterface:
		return p.errOfCall(x.X, pc, seen)
	case *ssa.MakeInterface:
		return p.errOfCall(x.X, pc, seen)
	}
	return false
}

var errorType = types.Universe.Lookup("error").Type()

func isErrorType(t types.Type) bool { return types.Identical(t, errorType) }

// nil-preserving wrappers (read and confirmed: each returns nil iff its error argument is nil)
var nilPreserving = map[string]int{ // full name -> index of the error argument in Args
	"github.com/pkg/errors.Wrap":         0,
	"github.com/pkg/errors.Wrapf":        0,
	"github.com/pkg/errors.WithMessage":  0,
	"github.com/pkg/errors.WithMessagef": 0,
	"github.com/pkg/errors.WithStack":    0,
	"(*util.baseError).Wrap":             1,
	"(*util.baseError).WithMessage":      1,
	"(*util.IDError).Wrap":               1,
	"(*util.IDError).WithMessage":        1,
	"mitumfix/util.Wrap":                 0,
}

func nilPreservingArg(c *ssa.CallCommon) ssa.Value {
	name := CalleeFullName(c)
	idx, ok := nilPreserving[name]
	if !ok || idx >= len(c.Args) {
		return nil
	}
	return c.Args[idx]
}

// GCalled: ordering gate — a call matching pat has been executed on the path (no success test).
func GCalled(pat string) Gate {
	pp := P(pat)
	return Gate{Name: "call " + pat + " executed", Barrier: func(p *Prog, in ssa.Instruction) bool {
		switch c := in.(type) {
		case *ssa.Call:
			return pp.Match(p.D(c))
		case *ssa.Defer:
			return false
		}
		return false
	}}
}

// GStored: ordering gate — a store to an address matching pat has been executed.
func GStored(addrPat string) Gate {
	pp := P(addrPat)
	return Gate{Name: "store to " + addrPat + " executed", Barrier: func(p *Prog, in ssa.Instruction) bool {
		st, ok := in.(*ssa.Store)
		return ok && pp.Match(p.D(st.Addr))
	}}
}

// GAny builds a disjunction: passing through any of the gates suffices.
func GAny(gs ...Gate) []Gate { return gs }

// buildCut deletes the passing edges / installs barriers of all gates (disjunction).
func (p *Prog) buildCut(fn *ssa.Function, gates []Gate) (cut *Cut, nEdges int) {
	cut = NewCut()
	for _, b := range fn.Blocks {
		for _, in := range b.Instrs {
			for _, g := range gates {
				if g.Barrier != nil && g.Barrier(p, in) {
					cut.Barriers[in] = true
					nEdges++
				}
			}
		}
		if len(b.Instrs) == 0 {
			continue
		}
		ifi, ok := b.Instrs[len(b.Instrs)-1].(*ssa.If)
		if !ok {
			continue
		}
		var del [2]bool
		tFacts, fFacts, tAlt, fAlt := condAtoms2(ifi)
		// an indefinite edge passes iff every alternative passes some gate of the disjunction
		allAlt := func(alts []condFact) bool {
			if len(alts) == 0 {
				return false
			}
			for _, fc := range alts {
				one := false
				for _, g := range gates {
					if g.Edges == nil {
						continue
					}
					fake := &ssa.If{Cond: fc.v}
					t, f := g.Edges(p, fake)
					if t && f {
						continue
					}
					if (fc.truth && t) || (!fc.truth && f) {
						one = true
					}
				}
				if !one {
					return false
				}
			}
			return true
		}
		if allAlt(tAlt) {
			del[0] = true
		}
		if allAlt(fAlt) {
			del[1] = true
		}
		for _, g := range gates {
			if g.Edges == nil {
				continue
			}
			holds := func(fc condFact) bool {
				fake := ifi
				if fc.v != ifi.Cond {
					fake = &ssa.If{Cond: fc.v}
				}
				t, f := g.Edges(p, fake)
				if t && f {
					return false
				}
				if fc.truth {
					return t
				}
				return f
			}
			for _, fc := range tFacts {
				if holds(fc) {
					del[0] = true
				}
			}
			for _, fc := range fFacts {
				if holds(fc) {
					del[1] = true
				}
			}
		}
		if del[0] || del[1] {
			cut.Edges[b] = del
			nEdges++
		}
	}
	return cut, nEdges
}

// condFact: a condition value known to have the given truth on an edge.
type condFact struct {
	v     ssa.Value
	truth bool
}

// condAtoms decomposes the condition of an If into the facts known on its true edge and on its
// false edge. go/ssa lowers `a && b` used as a value (e.g. a switch-case condition) to a phi
// [false, b] in a "binop.done" block and `a || b` to a phi [true, b]: on the true edge of an and-form
// every operand is true, on the false edge of an or-form every operand is false; the other edge of
// such a phi carries no definite fact.
func condAtoms(ifi *ssa.If) (tFacts, fFacts []condFact) {
	t, f, _, _ := condAtoms2(ifi)
	return t, f
}

// condAtoms2 additionally returns the *alternatives* of the indefinite edge: on the false edge of
// an and-form at least one operand is false (fAlt lists "operand false" facts), on the true edge
// of an or-form at least one operand is true (tAlt). Such an edge passes a gate iff every
// alternative individually passes it.
func condAtoms2(ifi *ssa.If) (tFacts, fFacts, tAlt, fAlt []condFact) {
	phi, ok := ifi.Cond.(*ssa.Phi)
	if !ok || phi.Block().Comment != "binop.done" {
		return []condFact{{ifi.Cond, true}}, []condFact{{ifi.Cond, false}}, nil, nil
	}
	and, or := true, true
	var facts []condFact
	var last ssa.Value
	for i, e := range phi.Edges {
		k, isK := e.(*ssa.Const)
		if !isK || k.Value == nil {
			last = e
			continue
		}
		if k.Value.ExactString() == "true" {
			and = false
		} else {
			or = false
		}
		// the short-circuit edge comes straight from the block that tested an earlier operand; on
		// the definite edge of the phi that test took its other edge (into the rhs block)
		pred := phi.Block().Preds[i]
		pif, ok := pred.Instrs[len(pred.Instrs)-1].(*ssa.If)
		if !ok {
			return []condFact{{ifi.Cond, true}}, []condFact{{ifi.Cond, false}}, nil, nil
		}
		pt, pf := condAtoms(pif)
		if pred.Succs[0] == phi.Block() {
			facts = append(facts, pf...) // rhs is the false successor
		} else {
			facts = append(facts, pt...)
		}
	}
	if last == nil || and == or {
		return []condFact{{ifi.Cond, true}}, []condFact{{ifi.Cond, false}}, nil, nil
	}
	lt, lf := condAtoms(&ssa.If{Cond: last})
	neg := func(fs []condFact) []condFact {
		var out []condFact
		for _, f := range fs {
			out = append(out, condFact{f.v, !f.truth})
		}
		return out
	}
	if and {
		all := append(facts, lt...)
		return all, nil, nil, neg(all)
	}
	all := append(facts, lf...)
	return nil, all, neg(all), nil
}

// MustPassResult is the outcome for one target.
type MustPassResult struct {
	Target  ssa.Instruction
	OK      bool
	Witness string
	NGates  int // number of gate occurrences (passing edges / barriers) found in the function
}

// MustPass: every path from `from` (nil = entry) to each target passes one of the gates.
func (p *Prog) MustPass(fn *ssa.Function, from ssa.Instruction, targets []ssa.Instruction, gates ...Gate) []MustPassResult {
	cut, n := p.buildCut(fn, gates)
	res := reach(fn, from, cut)
	var out []MustPassResult
	for _, t := range targets {
		r := MustPassResult{Target: t, NGates: n}
		if ret, ok := t.(*ssa.Return); ok && res.reached[t] {
			if idx := errResultIndex(fn); idx >= 0 && idx < len(ret.Results) {
				tail := false
				for _, g := range gates {
					if g.ErrOf != nil && g.ErrOf(p, RetVal(ret, idx)) {
						tail = true
					}
				}
				if tail {
					r.OK = true
					r.Witness = "tail delegation: the returned error is the gated call's error"
					out = append(out, r)
					continue
				}
			}
		}
		if res.reached[t] {
			r.OK = false
			r.Witness = "bypass path: " + p.path(res, t)
		} else {
			r.OK = true
			r.Witness = fmt.Sprintf("unreachable without a passing edge (%d gate occurrence(s) in function)", n)
		}
		out = append(out, r)
	}
	return out
}

// ---------------------------------------------------------------------------------------------
// targets

func allInstrs(fn *ssa.Function) []ssa.Instruction {
	var out []ssa.Instruction
	for _, b := range fn.Blocks {
		out = append(out, b.Instrs...)
	}
	return out
}

func callCommon(in ssa.Instruction) *ssa.CallCommon {
	switch c := in.(type) {
	case *ssa.Call:
		return &c.Call
	case *ssa.Go:
		return &c.Call
	case *ssa.Defer:
		return &c.Call
	}
	return nil
}

// CallsD returns call instructions (call/go/defer) in fn whose descriptor matches pat.
func (p *Prog) CallsD(fn *ssa.Function, pat string) []ssa.Instruction {
	pp := P(pat)
	var out []ssa.Instruction
	for _, in := range allInstrs(fn) {
		c := callCommon(in)
		if c == nil {
			continue
		}
		if pp.Match(p.dCall(c, 0, map[ssa.Value]bool{})) {
			out = append(out, in)
		}
	}
	return out
}

// CallsTo returns call instructions in fn whose resolved callee full name matches pat
// (e.g. "(*github.com/…/isaac.Ballotbox).newVoteproof", "(github.com/…/base.Suffrage).Exists").
func (p *Prog) CallsTo(fn *ssa.Function, pat string) []ssa.Instruction {
	pp := P(pat)
	var out []ssa.Instruction
	for _, in := range allInstrs(fn) {
		c := callCommon(in)
		if c == nil {
			continue
		}
		if pp.Match(CalleeFullName(c)) {
			out = append(out, in)
		}
	}
	return out
}

// StoresD returns stores whose address descriptor matches pat (e.g. "&pps.previousSaved").
func (p *Prog) StoresD(fn *ssa.Function, pat string) []ssa.Instruction {
	pp := P(pat)
	var out []ssa.Instruction
	for _, in := range allInstrs(fn) {
		if st, ok := in.(*ssa.Store); ok && pp.Match(p.D(st.Addr)) {
			out = append(out, in)
		}
	}
	return out
}

// RetVal resolves the i-th result of a return: in functions with defers go/ssa spills results into
// allocs ("defer-spilled returns"); the value stored in the same block just before the return is
// the returned value.
func RetVal(r *ssa.Return, i int) ssa.Value {
	v := r.Results[i]
	u, ok := v.(*ssa.UnOp)
	if !ok || u.Op != token.MUL {
		return v
	}
	al, ok := u.X.(*ssa.Alloc)
	if !ok {
		return v
	}
	instrs := r.Block().Instrs
	for k := len(instrs) - 1; k >= 0; k-- {
		if st, ok := instrs[k].(*ssa.Store); ok && st.Addr == al {
			return st.Val
		}
	}
	return v
}

// Returns lists all return instructions (the synthetic recover block is excluded).
func Returns(fn *ssa.Function) []*ssa.Return {
	var out []*ssa.Return
	for _, b := range fn.Blocks {
		if len(b.Instrs) == 0 || b == fn.Recover {
			continue
		}
		if r, ok := b.Instrs[len(b.Instrs)-1].(*ssa.Return); ok {
			out = append(out, r)
		}
	}
	return out
}

// errResultIndex: index of the last result if it is `error`, else -1.
func errResultIndex(fn *ssa.Function) int {
	rs := fn.Signature.Results()
	if rs.Len() == 0 {
		return -1
	}
	if isErrorType(rs.At(rs.Len() - 1).Type()) {
		return rs.Len() - 1
	}
	return -1
}

// SuccessReturns: returns whose error result may be nil (for functions without error result: all).
func (p *Prog) SuccessReturns(fn *ssa.Function) []ssa.Instruction {
	idx := errResultIndex(fn)
	var out []ssa.Instruction
	for _, r := range Returns(fn) {
		if idx < 0 || idx >= len(r.Results) {
			out = append(out, r)
			continue
		}
		if p.mayBeNil(fn, RetVal(r, idx), r, map[ssa.Value]bool{}) {
			out = append(out, r)
		}
	}
	return out
}

// ErrorReturns: returns whose error result is provably non-nil.
func (p *Prog) ErrorReturns(fn *ssa.Function) []ssa.Instruction {
	idx := errResultIndex(fn)
	var out []ssa.Instruction
	if idx < 0 {
		return nil
	}
	for _, r := range Returns(fn) {
		if idx < len(r.Results) && !p.mayBeNil(fn, RetVal(r, idx), r, map[ssa.Value]bool{}) {
			out = append(out, r)
		}
	}
	return out
}

// mayBeNil: can the (interface/pointer) value v be nil when control is at instruction `at`?
func (p *Prog) mayBeNil(fn *ssa.Function, v ssa.Value, at ssa.Instruction, seen map[ssa.Value]bool) bool {
	if seen[v] {
		return false
	}
	seen[v] = true
	switch x := v.(type) {
	case *ssa.Const:
		return x.IsNil()
	case *ssa.MakeInterface:
		return false
	case *ssa.Alloc, *ssa.MakeClosure, *ssa.MakeMap, *ssa.MakeSlice, *ssa.MakeChan, *ssa.FieldAddr, *ssa.IndexAddr, *ssa.Function:
		return false
	case *ssa.ChangeInterface:
		return p.mayBeNil(fn, x.X, at, seen)
	case *ssa.ChangeType:
		return p.mayBeNil(fn, x.X, at, seen)
	case *ssa.UnOp:
		if g, ok := x.X.(*ssa.Global); ok && x.Op == token.MUL && p.globalNonNil(g) {
			return false
		}
	case *ssa.Call:
		if a := nilPreservingArg(&x.Call); a != nil {
			if !p.mayBeNil(fn, a, x, seen) {
				return false
			}
		} else if isErrCtor(&x.Call) {
			return false
		}
	case *ssa.Phi:
		any := false
		for i, e := range x.Edges {
			pred := x.Block().Preds[i]
			if p.mayBeNil(fn, e, pred.Instrs[len(pred.Instrs)-1], seen) {
				any = true
			}
		}
		if !any {
			return false
		}
		// fall through to the dominating-test check on the phi itself
	}
	// a dominating test `v != nil`: at must be unreachable once the edges asserting it are deleted
	cut := NewCut()
	n := 0
	for _, b := range fn.Blocks {
		if len(b.Instrs) == 0 {
			continue
		}
		ifi, ok := b.Instrs[len(b.Instrs)-1].(*ssa.If)
		if !ok {
			continue
		}
		same := func(w ssa.Value) bool { return w == v || p.sameLoad(w, v) }
		isNil := func(w ssa.Value) bool { k, ok := w.(*ssa.Const); return ok && k.IsNil() }
		tr, fr, ok := condCmp(p, ifi, same, isNil)
		if !ok {
			continue
		}
		var del [2]bool
		del[0] = tr == token.NEQ
		del[1] = fr == token.NEQ
		if del[0] || del[1] {
			cut.Edges[b] = del
			n++
		}
	}
	if n == 0 {
		return true
	}
	res := reach(fn, nil, cut)
	return res.reached[at]
}

// sameLoad: two loads of the same non-lifted local variable (captured err variables).
func (p *Prog) sameLoad(a, b ssa.Value) bool {
	ua, ok1 := a.(*ssa.UnOp)
	ub, ok2 := b.(*ssa.UnOp)
	if !ok1 || !ok2 || ua.Op != token.MUL || ub.Op != token.MUL {
		return false
	}
	if ua.X != ub.X {
		return false
	}
	switch ua.X.(type) {
	case *ssa.Alloc, *ssa.FreeVar:
		// only sound if no store to the variable lies between the two loads; accept when both loads
		// are in the same block without an intervening store or call, or the later block is
		// dominated by the earlier without stores in between — approximated: same block or no
		// store at all after the first load in the function.
		return p.noStoreBetween(ua, ub)
	}
	return false
}

func (p *Prog) noStoreBetween(a, b *ssa.UnOp) bool {
	if a.Block() != b.Block() {
		// conservative: require that the variable has no store reachable from a (exclusive)
		fn := a.Parent()
		res := reach(fn, a, nil)
		for in := range res.reached {
			if st, ok := in.(*ssa.Store); ok && st.Addr == a.X {
				return false
			}
		}
		return true
	}
	started := false
	for _, in := range a.Block().Instrs {
		if in == ssa.Instruction(a) || in == ssa.Instruction(b) {
			if started {
				return true
			}
			started = true
			continue
		}
		if !started {
			continue
		}
		if st, ok := in.(*ssa.Store); ok && st.Addr == a.X {
			return false
		}
	}
	return true
}

var errCtors = map[string]bool{
	"github.com/pkg/errors.New":    true,
	"github.com/pkg/errors.Errorf": true,
	"errors.New":                   true,
	"fmt.Errorf":                   true,
}

func isErrCtor(c *ssa.CallCommon) bool { return errCtors[CalleeFullName(c)] }

// globalNonNil: a package-level error variable that is initialised once with a non-nil value and
// never reassigned (tree packages: verified from the stores; other packages: sentinel errors such
// as io.EOF / context.Canceled are assumed non-nil).
func (p *Prog) globalNonNil(g *ssa.Global) bool {
	if g.Pkg == nil || !p.inTree(g.Pkg.Pkg) {
		return true
	}
	if v, ok := p.globalNN[g]; ok {
		return v
	}
	if p.globalNN == nil {
		p.globalNN = map[*ssa.Global]bool{}
	}
	n, good := 0, true
	scan := func(fn *ssa.Function) {
		for _, in := range allInstrs(fn) {
			if st, ok := in.(*ssa.Store); ok && st.Addr == g {
				n++
				if fn.Name() != "init" || p.mayBeNil(fn, st.Val, st, map[ssa.Value]bool{}) {
					good = false
				}
			}
		}
	}
	for _, fn := range p.Funcs {
		scan(fn)
	}
	if init := g.Pkg.Func("init"); init != nil {
		scan(init)
	}
	res := good && n == 1
	p.globalNN[g] = res
	return res
}

// GCmpU: like GCmp, but the compared X operand must have an unsigned type at the comparison — a
// bound on a length announced by a peer is no bound after a conversion to a signed type (a huge
// value turns negative and passes `<=`).
func GCmpU(x, op, y string) Gate {
	w, okop := opByName[op]
	if !okop {
		panic("bad op " + op)
	}
	px, py := P(x), P(y)
	return Gate{Name: fmt.Sprintf("unsigned %s %s %s", x, op, y), Edges: func(p *Prog, ifi *ssa.If) (bool, bool) {
		unsignedX := func(v ssa.Value) bool { return px.Match(p.D(v)) && isUnsigned(v.Type()) }
		tr, fr, ok := condCmp(p, ifi, unsignedX, p.matchD(py))
		if !ok {
			return false, false
		}
		return implies(tr, w), implies(fr, w)
	}}
}
