package main

import (
	"fmt"
	"strings"

	"golang.org/x/tools/go/ssa"
)

func init() {
	Register(&Property{
		ID: "C34",
		Decides: "(R34.1) removal on behalf of a finished run is identity-conditional: the job that ran a timer removes through the routine that compares the registered timer with the one that ran, and that routine cancels/removes only on equality; removal by id is reachable only from the explicit stop calls; " +
			"(R34.2) a stopped timer is not started again: run() calls the callback only after its context reported no error, under the timer's exclusive lock; every removal that found a timer calls its whenRemoved, which cancels exactly that timer's context; " +
			"(R34.3) not before the interval: a timer is collected for a run only if isExpired() and prepare() hold; every value written to the expiry slot is now + a duration obtained from the timer's interval function, registration requires a positive first interval, and isExpired is `now after expiry`.",
		NotDecided: "wall-clock behaviour of the ticker (resolution), a timer replaced through NewTimer under the same id while it is collected for a run (it runs once more), callbacks that outlive their context.",
		Run:        runC34,
	})
}

func runC34(c *Ctx) {
	const TS = "util.(*SimpleTimers)."
	// R34.1 --------------------------------------------------------------------------------------
	c.Rule("R34.1", "IdentityRemoval")
	if parent := c.Need(TS + "iterate"); parent != nil {
		job := c.ClosureWithCall(parent, "*.run()")
		if job == nil {
			c.Unresolved(parent, "job running a collected timer", "closure not found")
		} else {
			ran := c.CallsD(job, "*.run()")
			c.Report(job, "the job runs one timer", job.Pos(), len(ran) == 1, "")
			byID := c.CallsTo(job, "(*util.SimpleTimers).removeTimer")
			c.Report(job, "a finished run never removes by id", job.Pos(), len(byID) == 0, fmt.Sprintf("%d removals by id", len(byID)))
			same := c.CallsTo(job, "(*util.SimpleTimers).removeSameTimer")
			if c.Exists(job, "a finished run removes through the identity-checking routine", same, 1) && len(ran) == 1 {
				who := c.D(callCommon(ran[0]).Args[0])
				c.ArgIs(job, "the removed timer is the one that ran", same, 1, 0, who)
				c.MP(job, "removed only if the run failed or asked to stop", same, 1, GNonNil(who+".run()#1"), GFalse(who+".run()#0"))
			}
			// no raw map removal in the job
			var raw []ssa.Instruction
			for _, in := range allInstrs(job) {
				if cc := callCommon(in); cc != nil && cc.IsInvoke() && (cc.Method.Name() == "Remove" || cc.Method.Name() == "RemoveValue") {
					raw = append(raw, in)
				}
			}
			c.Report(job, "a finished run does not touch the timer table directly", job.Pos(), len(raw) == 0, "")
		}
	}
	if parent := c.Need(TS + "removeSameTimer"); parent != nil {
		rm := c.CallsD(parent, "ts.timers.Remove(*)")
		c.ArgIs(parent, "identity removal looks up the ran timer's id", rm, 1, 0, "tr.id")
		if cl := c.ClosureWithCall(parent, "call(timer.whenRemoved)()"); cl != nil {
			wr := c.CallsD(cl, "call(timer.whenRemoved)()")
			c.MP(cl, "the registered timer is canceled only if it is the one that ran", wr, 1, GCmp("timer", "==", "tr"))
			c.MP(cl, "the registered timer is canceled only if one is registered", wr, 1, GTrue("found"))
			// returning nil lets the map delete the entry: only for the same timer (or nothing found)
			c.MP(cl, "the entry is deleted only if it holds the timer that ran", c.ReturnsD(cl, 0, "nil"), 1, GCmp("timer", "==", "tr"), GFalse("found"))
			c.MP(cl, "a different timer under the id is left alone", c.ReturnsD(cl, 0, "util.ErrLockedSetIgnore"), 1, GCmp("timer", "!=", "tr"))
			c.Exists(cl, "a different timer under the id is left alone (ignore result)", c.ReturnsD(cl, 0, "util.ErrLockedSetIgnore"), 1)
		} else {
			c.Unresolved(parent, "identity removal callback", "not found")
		}
	}
	c.OnlyIn("removal of a timer by id", c.WhoCalls("(*util.SimpleTimers).removeTimer"), 2, TS+"StopTimers", TS+"removeAllTimers")
	// R34.2 --------------------------------------------------------------------------------------
	c.Rule("R34.2", "MustPass")
	if fn := c.Need("util.(*SimpleTimer).run"); fn != nil {
		cb := c.CallsD(fn, "call(t.callback)(*)")
		c.MP(fn, "the callback starts only if the timer's context is not canceled", cb, 1, GNil("call(t.getCtx)().Err()"))
		c.Held(fn, nil, "the callback starts under the timer's exclusive lock", cb, 1, "&t.l", LW)
		c.ArgIs(fn, "the callback gets the timer's own context", cb, 1, 0, "call(t.getCtx)()")
		c.Report(fn, "the callback is called once per run", fn.Pos(), len(cb) == 1, "")
	}
	if parent := c.Need(TS + "removeTimer"); parent != nil {
		if cl := c.ClosureWithCall(parent, "call(timer.whenRemoved)()"); cl != nil {
			c.MP(cl, "removal by id cancels the timer it found", c.ReturnsD(cl, 0, "nil"), 1, GCalled("call(timer.whenRemoved)()"), GFalse("found"))
		} else {
			c.Unresolved(parent, "removal callback", "not found")
		}
	}
	if parent := c.Need("util.NewSimpleTimer"); parent != nil {
		n := 0
		for _, cl := range WithClosures(parent) {
			if cl == parent {
				continue
			}
			if len(c.CallsD(cl, "call(context.WithCancel(context.Background())#1)()")) == 1 {
				n++
			}
		}
		c.Report(parent, "both whenRemoved variants cancel the timer's own context", parent.Pos(), n == 2, fmt.Sprintf("%d closures cancel it", n))
		for _, cl := range WithClosures(parent) {
			if cl == parent {
				continue
			}
			for _, r := range Returns(cl) {
				if len(r.Results) == 1 && strings.HasSuffix(r.Results[0].Type().String(), "context.Context") {
					c.Report(cl, "getCtx answers the context that whenRemoved cancels", c.InstrPos(r), c.D(RetVal(r, 0)) == "context.WithCancel(context.Background())#0", c.D(RetVal(r, 0)))
				}
			}
		}
		wr := c.StoresD(parent, "&var:complit.whenRemoved")
		c.Exists(parent, "the timer keeps the canceling whenRemoved", wr, 1)
	}
	// timers leave the table only through the canceling removals: nothing empties or deletes from the
	// table directly (a timer dropped without whenRemoved keeps a live context and may still be started by
	// a tick that already collected it)
	var drops []Site
	for _, fn := range c.FuncsWithPrefix("util.(*SimpleTimers).") {
		for _, in := range allInstrs(fn) {
			cc := callCommon(in)
			if cc == nil || !cc.IsInvoke() || c.D(cc.Value) != "ts.timers" {
				continue
			}
			switch cc.Method.Name() {
			case "Remove", "RemoveValue", "Empty", "Close", "SetOrRemove":
				drops = append(drops, Site{fn, in})
			}
		}
	}
	c.OnlyIn("timers dropped from the table", drops, 3, TS+"removeTimer", TS+"removeSameTimer", TS+"Stop")
	if fn := c.Need(TS + "Stop"); fn != nil {
		c.MP(fn, "Stop closes the table only after every timer was removed (and canceled)", c.CallsD(fn, "ts.timers.Close()"), 1, GCalled("ts.removeAllTimers()"))
	}
	for _, m := range []string{"StopAllTimers", "StopTimers"} {
		if fn := c.Need(TS + m); fn != nil {
			var rm []ssa.Instruction
			rm = append(rm, c.CallsTo(fn, "(*util.SimpleTimers).removeAllTimers")...)
			rm = append(rm, c.CallsTo(fn, "(*util.SimpleTimers).removeTimer")...)
			c.Exists(fn, m+" removes through the canceling removal", rm, 1)
		}
	}
	if fn := c.Need(TS + "StopOthers"); fn != nil {
		c.Exists(fn, "StopOthers removes through StopTimers", c.CallsTo(fn, "(*util.SimpleTimers).StopTimers"), 1)
	}
	c.OnlyIn("store SimpleTimer.whenRemoved / getCtx", append(c.WhoStores("SimpleTimer", "whenRemoved"), c.WhoStores("SimpleTimer", "getCtx")...), 2, "util.NewSimpleTimer")
	// R34.3 --------------------------------------------------------------------------------------
	c.Rule("R34.3", "MustPass")
	if parent := c.Need(TS + "iterate"); parent != nil {
		if cl := c.ClosureWithCall(parent, "timer.isExpired()"); cl != nil {
			col := c.StoresD(cl, "&var:varargs[0]")
			c.MP(cl, "a timer is collected only if its expiry passed", col, 1, GTrue("timer.isExpired()"))
			c.MP(cl, "a timer is collected only if it could be prepared", col, 1, GTrue("timer.prepare()"))
			c.StoredIs(cl, "the collected timer is the inspected one", col, 1, "timer")
		} else {
			c.Unresolved(parent, "collector", "closure not found")
		}
		if job := c.ClosureWithCall(parent, "*.run()"); job != nil {
			for _, in := range c.CallsD(job, "*.run()") {
				c.Report(job, "the run timer is a collected one", c.InstrPos(in), c.D(callCommon(in).Args[0]) == "var:timers[ι]", c.D(callCommon(in).Args[0]))
			}
		}
	}
	if fn := c.Need("util.(*SimpleTimer).isExpired"); fn != nil {
		c.Exists(fn, "expired means: now is after the expiry", c.ReturnsD(fn, 0, "time.Now().After(t.expiredLocked.Value()#0)"), 1)
	}
	// every write of the expiry slot
	nSet := 0
	for _, fn := range c.Funcs {
		if fn.Pkg == nil || fn.Pkg.Pkg.Path() != modPath+"/util" || !inFile(c, fn, "/util/timers.go") {
			continue
		}
		for _, in := range allInstrs(fn) {
			cc := callCommon(in)
			if cc == nil || !strings.HasSuffix(CalleeFullName(cc), ".SetValue") || !strings.Contains(c.D(cc.Args[0]), "expiredLocked") {
				continue
			}
			nSet++
			v := c.D(cc.Args[1])
			ok := strings.HasPrefix(v, "time.Now().Add(") && strings.Contains(v, "intervalFunc)(")
			c.Report(fn, "the expiry is set to now + an interval of the timer", c.InstrPos(in), ok, v)
		}
	}
	c.Floor(nil, "writes of the expiry slot", nSet, 3)
	if parent := c.Need(TS + "NewTimer"); parent != nil {
		if cl := c.ClosureWithCall(parent, "call(timer.intervalFunc)(0)"); cl != nil {
			reg := nonMatchingReturns(c, cl, 0, "nil")
			c.MP(cl, "a timer is registered only with a positive first interval", reg, 1, GCmp("call(timer.intervalFunc)(0)", ">=", "1"))
			c.MP(cl, "a timer is registered only after its first expiry was set", reg, 1, GCalled("timer.expiredLocked.SetValue(*)"))
			for _, r := range reg {
				c.Report(cl, "the registered timer is the given one", c.InstrPos(r), c.D(RetVal(r.(*ssa.Return), 0)) == "timer", "")
			}
		}
	}
	if fn := c.Need("util.(*SimpleTimer).prepare"); fn != nil {
		c.MP(fn, "a timer with a non-positive interval is not prepared", c.ReturnsD(fn, 0, "true"), 1, GCmp("call(t.intervalFunc)(t.called)", ">=", "1"))
	}
	if parent := c.Need("util.(*SimpleTimer).run"); parent != nil {
		if cl := c.ClosureWithStore(parent, "&t.called"); cl != nil {
			c.StoredIs(cl, "the call count grows by one per run", c.StoresD(cl, "&t.called"), 1, "(t.called + 1)")
		}
	}
}
