package main

import (
	"go/types"
	"strings"

	"golang.org/x/tools/go/ssa"
)

func init() {
	Register(&Property{
		ID: "C06",
		Decides: "(R06.0) LastPoint.Before answers for a different height with exactly `point.Height() > last.Height()` and consults the same-height rules only when the heights are equal; IsNewVoteproofbyPoint's extra acceptance requires same point, not-lower stage, last not majority and the new one majority; " +
			"(R06.1) the ballotbox's last point is replaced only by SetLastPoint's closure and only after last.Before(point, isSuffrageConfirm) was true; isNewBallot never stores; " +
			"(R06.2) the last-voteproofs store is written only by Set/ForceSetLast/fillMissing under its write lock; Set overwrites only after IsNewVoteproof was true (or nothing was stored yet); fillMissing fills only empty slots; " +
			"(R06.3) ballots are recorded and records counted only for stage points ahead of the last point; (R06.4) the state machine hands a voteproof to the handler only if LastVoteproofsHandler.IsNew says so.; (R06.9) a move back to an earlier round or stage is decided with a memory of the positions already taken, not from the current position alone — violated today, known finding; (R06.8) the ballotbox's filter for suffrage-confirm vote records judges a voteproof new only through IsNewVoteproof or for a height not below the last point's; (R06.7) when LastVoteproofsHandler.Set takes an INIT voteproof, a stored ACCEPT voteproof of the same or a later point is dropped, so that the judged position is the one taken",
		NotDecided: "that the same-height comparison tables (beforeSamePoint/beforeNotSamePoint) implement the stated order for every (round, stage, majority, suffrage-confirm) combination: pure comparison logic over runtime values.",
		Run:        runC06,
	})
}

func runC06(c *Ctx) {
	// R06.8: voteproofs for lower heights are always rejected — also by the ballotbox's own filter for
	// suffrage-confirm vote records
	c.Rule("R06.8", "MustPass")
	if fn := c.Need("isaac/states.isNewVoteproofWithSuffrageConfirmFunc$1"); fn != nil {
		c.MP(fn, "a voteproof is judged new only by IsNewVoteproof or if its height is not below the last point's", c.ReturnsD(fn, 0, "true"), 1,
			GTrue("isaac.IsNewVoteproof(last, vp)"), GCmp("vp.Point().Height()", ">=", "last.Height()"), GCmp("vp.Point().Height()", "==", "last.Height()"))
	}
	// R06.0 ------------------------------------------------------------------------------------
	c.Rule("R06.0", "MustPass")
	if fn := c.Need("isaac.(LastPoint).Before"); fn != nil {
		sameH := GCmp("point.Height()", "==", "l.Height()")
		var deleg, diff, other []ssa.Instruction
		for _, r := range Returns(fn) {
			d := c.D(RetVal(r, 0))
			switch {
			case strings.HasPrefix(d, "l.beforeSamePoint(") || strings.HasPrefix(d, "l.beforeNotSamePoint("):
				deleg = append(deleg, r)
			case d == "(point.Height() > l.Height())" || d == "(l.Height() < point.Height())":
				diff = append(diff, r)
			default:
				other = append(other, r)
			}
		}
		c.MP(fn, "same-height rules consulted only for equal heights", deleg, 2, sameH)
		c.MP(fn, "same-height rules consulted only for a non-zero last point", deleg, 2, GFalse("l.IsZero()"))
		c.Exists(fn, "different heights answered by point.Height() > last.Height()", diff, 1)
		c.MP(fn, "the height comparison answers exactly the different-height case", diff, 1, GCmp("point.Height()", "!=", "l.Height()"))
		for _, r := range other {
			d := c.D(RetVal(r.(*ssa.Return), 0))
			ok := d == "true"
			c.Report(fn, "remaining return is the zero-last-point acceptance", c.InstrPos(r), ok, "returns "+d)
			if ok {
				c.MP(fn, "unconditional acceptance only for a zero last point", []ssaInstr{r}, 1, GTrue("l.IsZero()"))
			}
		}
		same := c.CallsD(fn, "l.beforeSamePoint(*)")
		c.MP(fn, "same-point rule: points equal", same, 1, GTrue("point.Point.Equal(l)"))
		c.MP(fn, "same-point rule: stage not lower", same, 1, GCmp("point.Stage().Compare(l.Stage())", ">=", "0"))
		c.ArgIs(fn, "same-point rule sees the candidate", same, 1, 0, "point")
		c.ArgIs(fn, "not-same-point rule sees the candidate", c.CallsD(fn, "l.beforeNotSamePoint(*)"), 1, 0, "point")
	}
	// same-height tables: which clauses of the property are visible as gates
	c.Rule("R06.0b", "MustPass")
	if fn := c.Need("isaac.(LastPoint).beforeNotSamePoint"); fn != nil {
		trues := c.ReturnsD(fn, 0, "true")
		fwd := GCmp("point.Compare(l)", ">", "0")
		c.MP(fn, "earlier round/stage accepted only for a suffrage-confirm", trues, 2, fwd, GTrue("isSuffrageConfirm"))
		c.MP(fn, "earlier round/stage accepted only while the last point is not a majority", trues, 2, fwd, GFalse("l.isMajority"))
		c.MP(fn, "a lower stage is never accepted while the last point is a majority", trues, 2,
			GFalse("l.isMajority"), GCmp("point.Stage().Compare(l.Stage())", ">=", "0"))
		for _, r := range nonMatchingReturns(c, fn, 0, "true", "false") {
			c.Report(fn, "only constant results", c.InstrPos(r), false, c.D(RetVal(r.(*ssa.Return), 0)))
		}
		// R06.9: "the same position is never taken twice": a move back to an earlier round/stage (the
		// suffrage-confirm exception) is decided from the current position alone, which cannot know
		// whether that earlier position was already taken; it needs some further memory of the receiver.
		c.Rule("R06.9", "MustPass")
		var back []ssa.Instruction
		for _, r := range trues {
			if !allOK(c.MustPass(fn, nil, []ssa.Instruction{r}, fwd)) {
				back = append(back, r)
			}
		}
		if len(back) == 0 {
			c.floors["R06.9 backward moves (0 is fine: none allowed)"] = [2]int{0, 0}
		}
		for _, r := range back {
			ok := allOK(c.MustPass(fn, nil, []ssa.Instruction{r}, GReadsOtherField("l", "StagePoint", "isMajority", "isSuffrageConfirm")))
			c.Report(fn, "a move back to an earlier round or stage consults a memory of the positions already taken", c.InstrPos(r), ok,
				"the answer depends only on the current position (stage point, majority, suffrage-confirm): the same suffrage-confirm position is new again after every non-majority position of the height")
		}
		c.Rule("R06.0b", "MustPass")
	}
	if fn := c.Need("isaac.(LastPoint).beforeSamePoint"); fn != nil {
		trues := c.ReturnsD(fn, 0, "true")
		c.MP(fn, "same point, plain: only after a majority", trues, 1, GTrue("l.isMajority"))
		c.MP(fn, "same point, plain: never the same stage again", trues, 1, GCmp("point.Stage()", "!=", "l.Stage()"))
		c.MP(fn, "same point, plain: not a suffrage-confirm", trues, 1, GFalse("isSuffrageConfirm"))
		other := nonMatchingReturns(c, fn, 0, "true", "false")
		for _, r := range other {
			d := c.D(RetVal(r.(*ssa.Return), 0))
			c.Report(fn, "same point, suffrage-confirm: accepted iff the last point is not a suffrage-confirm", c.InstrPos(r), d == "!l.isSuffrageConfirm", d)
			c.MP(fn, "suffrage-confirm answer only for suffrage-confirm candidates", []ssaInstr{r}, 1, GTrue("isSuffrageConfirm"))
		}
		c.Exists(fn, "suffrage-confirm case present", other, 1)
	}
	if fn := c.Need("isaac.findLastVoteproofs"); fn != nil {
		// the newer of (INIT, ACCEPT) by full point (height and round), not by height alone
		ivps := c.ReturnsD(fn, 0, "ivp")
		avps := c.ReturnsD(fn, 0, "avp")
		c.MP(fn, "INIT voteproof is the last one only if the ACCEPT one is missing or of an earlier point", ivps, 2,
			GNil("avp"), GCmp("avp.Point().Point.Compare(ivp.Point())", "<", "0"), GCmp("ivp.Point().Point.Compare(avp.Point())", ">", "0"))
		c.MP(fn, "ACCEPT voteproof is the last one only if the INIT one is missing or not of a later point", avps, 2,
			GNil("ivp"), GCmp("avp.Point().Point.Compare(ivp.Point())", ">=", "0"), GCmp("ivp.Point().Point.Compare(avp.Point())", "<=", "0"))
	}
	if fn := c.Need("isaac.IsNewVoteproofbyPoint"); fn != nil {
		trues := c.ReturnsD(fn, 0, "true")
		c.MP(fn, "accept: Before, or (last not majority, new majority, same point, stage not lower) — last not majority", trues, 2,
			GTrue("last.Before(point, isSuffrageConfirm)"), GFalse("last.isMajority"))
		c.MP(fn, "accept: … new one is majority", trues, 2, GTrue("last.Before(point, isSuffrageConfirm)"), GTrue("isMajority"))
		c.MP(fn, "accept: … same point", trues, 2, GTrue("last.Before(point, isSuffrageConfirm)"), GTrue("point.Point.Equal(last)"))
		c.MP(fn, "accept: … stage not lower", trues, 2, GTrue("last.Before(point, isSuffrageConfirm)"), GCmp("point.Stage().Compare(last.Stage())", ">=", "0"))
		for _, r := range nonMatchingReturns(c, fn, 0, "true", "false") {
			c.Report(fn, "only constant results", c.InstrPos(r), false, c.D(RetVal(r.(*ssa.Return), 0)))
		}
	}
	if fn := c.Need("isaac.IsNewVoteproof"); fn != nil {
		calls := c.CallsTo(fn, "isaac.IsNewVoteproofbyPoint")
		c.ArgIs(fn, "judged against the given last point", calls, 1, 0, "last")
		c.ArgIs(fn, "judged by the voteproof's point", calls, 1, 1, "vp.Point()")
		c.ArgIs(fn, "majority flag from the voteproof's result", calls, 1, 2, "(vp.Result() == \"MAJORITY\")")
		c.ArgIs(fn, "suffrage-confirm flag from the voteproof's majority", calls, 1, 3, "isaac.IsSuffrageConfirmBallotFact(vp.Majority())")
	}
	if fn := c.Need("isaac.IsNewBallot"); fn != nil {
		c.Exists(fn, "IsNewBallot is last.Before(point, isSuffrageConfirm)", c.ReturnsD(fn, 0, "last.Before(point, isSuffrageConfirm)"), 1)
	}
	if fn := c.Need("isaac.NewLastPointFromVoteproof"); fn != nil {
		calls := c.CallsTo(fn, "isaac.NewLastPoint")
		c.ArgIs(fn, "last point takes the voteproof's point", calls, 1, 0, "vp.Point()")
		c.ArgIs(fn, "last point takes the voteproof's majority flag", calls, 1, 1, "(vp.Result() == \"MAJORITY\")")
	}
	// R06.1 ------------------------------------------------------------------------------------
	c.Rule("R06.1", "MustPass")
	var setters []Site
	for _, s := range c.WhoCalls("(*util.Locked[*]).Set*") {
		if P("box.lsp").Match(c.D(callCommon(s.In).Args[0])) {
			setters = append(setters, s)
		}
	}
	c.OnlyIn("writer of Ballotbox.lsp", setters, 2, "isaac/states.(*Ballotbox).SetLastPoint", "isaac/states.(*Ballotbox).isNewBallot")
	if cl := c.Need("isaac/states.(*Ballotbox).SetLastPoint$1"); cl != nil {
		succ := c.SuccessReturns(cl)
		c.MP(cl, "last point replaced only if last.Before(new) holds", succ, 1, GTrue("last.Before(point, point.IsSuffrageConfirm())"))
		for _, r := range succ {
			c.Report(cl, "replacement value is the requested point", c.InstrPos(r), c.D(RetVal(r.(*ssa.Return), 0)) == "point", c.D(RetVal(r.(*ssa.Return), 0)))
		}
	}
	if cl := c.Need("isaac/states.(*Ballotbox).isNewBallot$1"); cl != nil {
		c.Report(cl, "isNewBallot never stores a value (every return carries a non-nil error)", cl.Pos(), len(c.SuccessReturns(cl)) == 0, "success returns found")
		ign := c.ReturnsD(cl, 1, "util.ErrLockedSetIgnore")
		c.MP(cl, "ballot accepted only if IsNewBallot(last, point) or no last point", ign, 2,
			GTrue("isempty"), GTrue("isaac.IsNewBallot(last, point, isSuffrageConfirm)"))
	}
	if fn := c.Need("isaac/states.(*Ballotbox).isNewBallot"); fn != nil {
		c.Exists(fn, "isNewBallot reports acceptance iff the closure returned the ignore error", c.ReturnsD(fn, 0, "(box.lsp.Set(func:isaac/states.(*Ballotbox).isNewBallot$1)#1 == nil)"), 1)
	}
	// util.Locked.Set: ErrLockedSetIgnore is mapped to nil error without storing
	if fn := c.Need("util.(*Locked[T]).Set"); fn != nil {
		c.MP(fn, "Locked.Set stores only when the closure succeeded", c.StoresD(fn, "&l.value"), 1, GOk("call(f)(*)"))
	}
	// R06.2 ------------------------------------------------------------------------------------
	c.Rule("R06.2", "WhoMayWrite")
	allowed := []string{"isaac.(*LastVoteproofsHandler).Set", "isaac.(*LastVoteproofsHandler).ForceSetLast", "isaac.(*LastVoteproofsHandler).fillMissing"}
	for _, f := range []string{"ivp", "avp", "mvp"} {
		var sites []Site
		for _, s := range c.WhoStores("LastVoteproofs", f) {
			// only stores into the handler's `last` (l.last.*), not into local copies
			if st, ok := s.In.(*ssa.Store); ok && strings.HasPrefix(c.D(st.Addr), "&l.last.") {
				sites = append(sites, s)
			}
		}
		c.OnlyIn("store LastVoteproofsHandler.last."+f, sites, 2, allowed...)
	}
	c.OnlyIn("store LastVoteproofsHandler.last", c.WhoStores("LastVoteproofsHandler", "last"), 0, allowed...)
	c.OnlyIn("call fillMissing", c.WhoCalls("(*isaac.LastVoteproofsHandler).fillMissing"), 1, "isaac.(*LastVoteproofsHandler).Set")
	if fn := c.Need("isaac.(*LastVoteproofsHandler).Set"); fn != nil {
		// R06.7: after an INIT voteproof was taken the judged position (Cap) is that voteproof: an ACCEPT
		// voteproof of the same or a later point that is still stored (only possible when a suffrage
		// confirm of an earlier round was taken) is dropped
		c.Rule("R06.7", "MustPass")
		for _, st := range c.StoresD(fn, "&l.last.ivp") {
			var ends []ssa.Instruction
			for _, r := range Returns(fn) {
				if r.Block().Comment != "recover" {
					ends = append(ends, r)
				}
			}
			c.MPFrom(fn, st, "after an INIT voteproof was taken no ACCEPT voteproof of the same or a later point stays stored", ends, 1,
				GNil("l.last.avp"), GCmp("l.last.avp.Point().Point.Compare(vp.Point()*)", "<", "0"), GStoredVal("nil"))
		}
		c.Rule("R06.2", "MustPass")
		c.Rule("R06.2a", "MustPass")
		notNil := func(in []ssa.Instruction) []ssa.Instruction { // dropping a slot (nil) is not an overwrite with a voteproof
			var out []ssa.Instruction
			for _, i := range in {
				if c.D(i.(*ssa.Store).Val) != "nil" {
					out = append(out, i)
				}
			}
			return out
		}
		sts := notNil(c.StoresD(fn, "&l.last.*"))
		isNew := GTrue("isaac.IsNewVoteproof(isaac.NewLastPointFromVoteproof(l.last.Cap())#0, vp)")
		c.MP(fn, "overwrite only for a new voteproof (or empty store)", sts, 3, isNew, GNil("l.last.Cap()"))
		c.MP(fn, "overwrite only if the last point could be derived", sts, 3, GOk("isaac.NewLastPointFromVoteproof(l.last.Cap())"), GNil("l.last.Cap()"))
		c.StoredIs(fn, "stored value is the given voteproof", sts, 3, "vp")
		c.MP(fn, "INIT slot takes INIT voteproofs", c.StoresD(fn, "&l.last.ivp"), 1, GCmp("vp.Point().Stage()", "==", "\"INIT\""))
		c.MP(fn, "ACCEPT slot takes ACCEPT voteproofs", notNil(c.StoresD(fn, "&l.last.avp")), 1, GCmp("vp.Point().Stage()", "==", "\"ACCEPT\""))
		c.MP(fn, "majority slot takes majority voteproofs", c.StoresD(fn, "&l.last.mvp"), 1, GCmp("vp.Result()", "==", "\"MAJORITY\""))
		c.Rule("R06.2b", "LockHeld")
		c.Held(fn, nil, "stores under the write lock", c.StoresD(fn, "&l.last.*"), 3, "&l.l", LW)
		c.Held(fn, nil, "fillMissing under the write lock", c.CallsD(fn, "l.fillMissing(*)"), 1, "&l.l", LW)
	}
	if fn := c.Need("isaac.(*LastVoteproofsHandler).ForceSetLast"); fn != nil {
		c.Rule("R06.2b", "LockHeld")
		c.Held(fn, nil, "stores under the write lock", c.StoresD(fn, "&l.last.*"), 3, "&l.l", LW)
	}
	if fn := c.Need("isaac.(*LastVoteproofsHandler).fillMissing"); fn != nil {
		c.Rule("R06.2c", "MustPass")
		c.MP(fn, "fill INIT slot only when empty", c.StoresD(fn, "&l.last.ivp"), 1, GNil("l.last.ivp"))
		c.MP(fn, "fill ACCEPT slot only when empty", c.StoresD(fn, "&l.last.avp"), 1, GNil("l.last.avp"))
		c.MP(fn, "fill INIT slot: cached slot empty", c.StoresD(fn, "&l.last.ivp"), 1, GNil("var:cached.ivp"))
		c.MP(fn, "fill INIT slot: candidate is INIT", c.StoresD(fn, "&l.last.ivp"), 1, GCmp("vp.Point().Stage()", "==", "\"INIT\""))
		c.MP(fn, "fill INIT slot: same point as the last ACCEPT", c.StoresD(fn, "&l.last.ivp"), 1, GTrue("var:lp.Point.Equal(vp.Point())"))
		c.MP(fn, "fill ACCEPT slot: candidate is ACCEPT", c.StoresD(fn, "&l.last.avp"), 1, GCmp("vp.Point().Stage()", "==", "\"ACCEPT\""))
		c.MP(fn, "fill ACCEPT slot: previous height of the last INIT", c.StoresD(fn, "&l.last.avp"), 1, GCmp("lvp.Point().Height()", "==", "(vp.Point().Height() + 1)"))
	}
	for _, m := range []string{"Last", "IsNew"} {
		if fn := c.Need("isaac.(*LastVoteproofsHandler)." + m); fn != nil {
			c.Rule("R06.2b", "LockHeld")
			var reads []ssa.Instruction
			for _, s := range c.WhoTouches("LastVoteproofsHandler", "last") {
				if s.Fn == fn {
					reads = append(reads, s.In)
				}
			}
			c.Held(fn, nil, "read last under the lock", reads, 1, "&l.l", LR)
		}
	}
	// R06.3 ------------------------------------------------------------------------------------
	c.Rule("R06.3", "MustPass")
	if fn := c.Need("isaac/states.(*Ballotbox).vote"); fn != nil {
		c.MP(fn, "records created only for new ballots", c.CallsD(fn, "box.newVoterecords(*)"), 1,
			GTrue("box.isNewBallot(signfact.Fact().Point(), isaac.IsSuffrageConfirmBallotFact(signfact.Fact()))"))
	}
	if fn := c.Need("isaac/states.(*Ballotbox).countVoterecords"); fn != nil {
		c.MP(fn, "count only records ahead of the last point", c.CallsD(fn, "vr.count(*)"), 1, GTrue("box.isNewBallot(vr.stagepoint(), vr.isSuffrageConfirm())"))
		c.MP(fn, "last point advanced only from an emitted voteproof", c.CallsD(fn, "box.SetLastPointFromVoteproof(*)"), 1, GCmp("len(var:filtered)", ">", "0"))
		c.ArgIs(fn, "last point advanced to the last emitted voteproof", c.CallsD(fn, "box.SetLastPointFromVoteproof(*)"), 1, 0, "var:filtered[(len(var:filtered) - 1)]")
	}
	if fn := c.Need("isaac/states.(*Ballotbox).SetLastPointFromVoteproof"); fn != nil {
		c.MP(fn, "SetLastPoint from a derivable last point", c.CallsD(fn, "box.SetLastPoint(*)"), 1, GOk("isaac.NewLastPointFromVoteproof(vp)"))
		c.ArgIs(fn, "SetLastPoint with the voteproof's last point", c.CallsD(fn, "box.SetLastPoint(*)"), 1, 0, "isaac.NewLastPointFromVoteproof(vp)#0")
	}
	// R06.4 ------------------------------------------------------------------------------------
	c.Rule("R06.4", "MustPass")
	if fn := c.Need("isaac/states.(*States).newVoteproof"); fn != nil {
		calls := c.CallsD(fn, "st.voteproofToCurrent(*)")
		c.MP(fn, "handler sees only new voteproofs", calls, 1, GTrue("st.args.LastVoteproofsHandler.IsNew(vp)"))
		c.ArgIs(fn, "handler sees the tested voteproof", calls, 1, 0, "vp")
	}
	if fn := c.Need("isaac.(*LastVoteproofsHandler).IsNew"); fn != nil {
		for _, r := range nonMatchingReturns(c, fn, 0, "true", "false") {
			c.Report(fn, "IsNew judged against the stored last voteproof", c.InstrPos(r),
				c.D(RetVal(r.(*ssa.Return), 0)) == "isaac.IsNewVoteproof(isaac.NewLastPointFromVoteproof(l.last.Cap())#0, vp)", c.D(RetVal(r.(*ssa.Return), 0)))
		}
		c.MP(fn, "unconditional acceptance only when nothing is stored", c.ReturnsD(fn, 0, "true"), 1, GNil("l.last.Cap()"))
	}
}

// GReadsOtherField: the edge leaves a condition that depends on a field of the receiver recv other
// than the listed ones — "the decision also consulted some other memory of the receiver".
func GReadsOtherField(recv string, known ...string) Gate {
	kn := map[string]bool{}
	for _, k := range known {
		kn[k] = true
	}
	return Gate{Name: "a condition over a field of " + recv + " other than " + strings.Join(known, ", "), Edges: func(p *Prog, ifi *ssa.If) (bool, bool) {
		other := false
		for x := range p.BackSlice(ifi.Cond) {
			var base ssa.Value
			var st *types.Struct
			idx := -1
			switch f := x.(type) {
			case *ssa.Field:
				base, idx = f.X, f.Field
				st, _ = f.X.Type().Underlying().(*types.Struct)
			case *ssa.FieldAddr:
				base, idx = f.X, f.Field
				if pt, ok := f.X.Type().Underlying().(*types.Pointer); ok {
					st, _ = pt.Elem().Underlying().(*types.Struct)
				}
			}
			if st == nil || idx < 0 {
				continue
			}
			d := p.D(base)
			if d != recv && d != "&"+recv {
				continue
			}
			if !kn[st.Field(idx).Name()] {
				other = true
			}
		}
		return other, other
	}}
}
