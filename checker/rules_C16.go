package main

import (
	"fmt"
	"strings"
	"sort"

	"golang.org/x/tools/go/ssa"
)

func init() {
	Register(&Property{
		ID: "C16",
		Decides: "(R16.1) validator/importer agreement: every manifest-consistency validation the repository's block validator (IsValidBlockFromLocalFS) reaches is also reached by the block importer's WriteItem/Save; the importer validates every operation, state and voteproof it stores; " +
			"(R16.2) IsValidVoteproofsWithManifest succeeds only for voteproofs of the manifest's height and one point, with an ACCEPT MAJORITY whose new block equals the manifest hash; the tree-with-manifest validators compare the tree root with the manifest's root, the element count, duplicates and membership; the proposal validator compares height and fact hash; " +
			"(R16.3) an imported item is accepted only if its checksum equals the block map's, an item is marked finished only after it was imported, and Save requires all items finished; (R16.4) the block validator itself applies all of its checks before success.; (R16.5) a voteproofs item yields exactly one INIT and one ACCEPT voteproof: a slot is filled only while empty and under a lock; " +
			"(R16.6) every item type the validator decodes is decoded by the importer (not merely copied and checksummed); (R16.7) the importer's voteproof checks reach a recount of the sign facts (the declared result/majority alone is the sender's word)",
		NotDecided: "equality of what the importer stores with what the validator reads back for all inputs; the decoders (C27); signature cryptography.",
		Run:        runC16,
	})
}

func runC16(c *Ctx) {
	importerDecodesRules(c)
	voteproofRecountRules(c)
	// R16.5: what the importer and the validator look at is what the item holds: a voteproofs item yields one
	// INIT and one ACCEPT voteproof, a second one of a kind is refused (the lines are decoded by concurrent workers)
	c.Rule("R16.5", "MustPass")
	if parent := c.Need("isaac/block.(*ItemReader).decodeVoteproofs"); parent != nil {
		n := 0
		for _, f := range WithClosures(parent) {
			for k := 0; k < 2; k++ {
				slot := fmt.Sprintf("var:vps[%d]", k)
				sts := c.StoresD(f, "&"+slot)
				if len(sts) == 0 {
					continue
				}
				n += len(sts)
				c.MP(f, fmt.Sprintf("voteproof slot %d is filled only while it is empty", k), sts, 1, GNil(slot))
				c.Held(f, nil, fmt.Sprintf("voteproof slot %d is filled under a lock (concurrent line decoders)", k), sts, 1, "&*", LW)
			}
		}
		c.Floor(parent, "voteproof slot stores", n, 2)
	}
	// R16.1 -----------------------------------------------------------------------------------
	c.Rule("R16.1", "SiblingAgreement")
	validator := c.Need("isaac/block.IsValidBlockFromLocalFS")
	var imp []*ssa.Function
	for _, m := range []string{"WriteItem", "Save", "WriteMap"} {
		if f := c.Need("isaac/block.(*BlockImporter)." + m); f != nil {
			imp = append(imp, f)
		}
	}
	if validator != nil && len(imp) == 3 {
		V := c.ReachableCallees(4, validator)
		I := c.ReachableCallees(4, imp...)
		table := []string{
			"base.IsValidProposalWithManifest",
			"base.IsValidOperationsTreeWithManifest",
			"base.IsValidStatesTreeWithManifest",
			"base.IsValidVoteproofsWithManifest",
			"(util/fixedtree.Tree).IsValid",
		}
		sort.Strings(table)
		n := 0
		for _, t := range table {
			if !V[t] {
				c.Report(validator, "validator reaches "+t, validator.Pos(), false, "the block validator no longer applies this check")
				continue
			}
			n++
			c.Report(imp[0], "importer applies the validator's check "+t, imp[0].Pos(), I[t], "reachable from BlockImporter.WriteItem/Save/WriteMap (static calls, depth 4)")
		}
		c.Floor(validator, "validator checks found", n, 5)
	}
	// per-item validity in the importer
	c.Rule("R16.1i", "MustPass")
	if parent := c.Need("isaac/block.(*BlockImporter).importOperations"); parent != nil {
		if cl := c.ClosureWithStore(parent, "&var:ops[index]"); cl != nil {
			c.MP(cl, "operation stored only after it validated", c.StoresD(cl, "&var:ops[index]"), 1, GOk("call(var:validate)(*)"))
			c.MP(cl, "operation hash recorded only after it validated", c.StoresD(cl, "&var:ophs[index]"), 1, GOk("call(var:validate)(*)"))
		}
		sts := c.StoresD(parent, "&var:validate")
		c.Exists(parent, "validation function chosen (plain / genesis)", sts, 2)
		for _, cl := range parent.AnonFuncs {
			if len(c.CallsD(cl, "op.IsValid(im.networkID)")) > 0 {
				c.Exists(cl, "plain validation is op.IsValid(networkID)", c.ReturnsD(cl, 0, "op.IsValid(im.networkID)"), 1)
			}
			if len(c.CallsTo(cl, "base.IsValidGenesisOperation")) > 0 {
				c.Exists(cl, "genesis validation is IsValidGenesisOperation with the map's signer", c.ReturnsD(cl, 0, "base.IsValidGenesisOperation(op, im.networkID, im.m.Signer())"), 1)
			}
		}
	}
	if parent := c.Need("isaac/block.(*BlockImporter).importStates"); parent != nil {
		if cl := c.ClosureWithStore(parent, "&var:sts[index]"); cl != nil {
			c.MP(cl, "state stored only after it validated", c.StoresD(cl, "&var:sts[index]"), 1, GOk("*.IsValid(nil)"))
		}
		c.MP(parent, "states written to the database only after decoding succeeded", c.CallsD(parent, "im.bwdb.SetStates(*)"), 1, GOk("ir.DecodeItems(*)"))
	}
	if fn := c.Need("isaac/block.(*BlockImporter).importVoteproofs"); fn != nil {
		succ := c.SuccessReturns(fn)
		c.MP(fn, "voteproofs accepted only if they fit the manifest", succ, 1, GOk("base.IsValidVoteproofsWithManifest(*, im.m.Manifest())"))
		c.ForEach(fn, "each voteproof validated", "(ι < 2)", 1, GOk("*[ι].IsValid(im.networkID)"))
		c.MP(fn, "voteproofs accepted only after each was validated", succ, 1, GLoopDone("(ι < 2)"))
	}
	// R16.2 -----------------------------------------------------------------------------------
	c.Rule("R16.2", "MustPass")
	if fn := c.Need("base.IsValidVoteproofsWithManifest"); fn != nil {
		succ := c.SuccessReturns(fn)
		ivp, avp := "var:ivp", "var:avp"
		c.MP(fn, "both voteproofs present", succ, 1, GNonNil("vps[0]"))
		c.MP(fn, "both voteproofs present (accept)", succ, 1, GNonNil("vps[1]"))
		c.MP(fn, "INIT voteproof is of the manifest's height", succ, 1, GCmp(ivp+".Point().Height()", "==", "manifest.Height()"))
		c.MP(fn, "ACCEPT voteproof is of the manifest's height", succ, 1, GCmp(avp+".Point().Height()", "==", "manifest.Height()"))
		c.MP(fn, "both voteproofs are of one point", succ, 1, GTrue(ivp+".Point().Point.Equal("+avp+".Point())"), GTrue(avp+".Point().Point.Equal("+ivp+".Point())"))
		c.MP(fn, "ACCEPT voteproof is a MAJORITY", succ, 1, GCmp(avp+".Result()", "==", "\"MAJORITY\""))
		c.MP(fn, "ACCEPT majority is for the manifest's hash", succ, 1, GTrue(avp+".BallotMajority().NewBlock().Equal(manifest.Hash())"), GTrue("manifest.Hash().Equal("+avp+".BallotMajority().NewBlock())"))
	}
	for _, t := range []struct{ fn, root string }{
		{"base.IsValidStatesTreeWithManifest", "manifest.StatesTree()"},
		{"base.IsValidOperationsTreeWithManifest", "manifest.OperationsTree()"},
	} {
		fn := c.Need(t.fn)
		if fn == nil {
			continue
		}
		succ := c.SuccessReturns(fn)
		items := "sts"
		if t.fn == "base.IsValidOperationsTreeWithManifest" {
			items = "ops"
		}
		empty := GCmp("len("+items+")", "<", "1")
		c.MP(fn, "tree root equals the manifest's root (an empty tree: the manifest has no root)", succ, 1, GNil(t.root), GTrue("tr.Root().Equal("+t.root+")"), GTrue(t.root+".Equal(tr.Root())"))
		c.MP(fn, "the manifest-has-no-root exit is taken only for an empty tree", succ, 1, empty, GTrue("tr.Root().Equal("+t.root+")"), GTrue(t.root+".Equal(tr.Root())"))
		c.MP(fn, "tree size equals the number of elements", succ, 1, GCmp("tr.Len()", "==", "len("+items+")"))
		c.MP(fn, "no duplicated element (unless empty)", succ, 1, empty, GFalse("util.IsDuplicatedSliceWithMap(*)#1"))
		c.MP(fn, "every tree node is one of the elements (unless empty)", succ, 1, empty, GOkTo("(util/fixedtree.Tree).Traverse"))
		for _, cl := range fn.AnonFuncs {
			if len(Returns(cl)) > 0 && cl.Signature.Results().Len() == 2 && isErrorType(cl.Signature.Results().At(1).Type()) {
				cont := c.ReturnsD(cl, 0, "true")
				if len(cont) > 0 {
					c.MP(cl, "traversal continues only for a node found among the elements", cont, 1, GTrue("*[*]#1"))
					if items == "sts" {
						c.MP(cl, "traversal continues only for a state of the manifest's height", cont, 1, GCmp("*.Height()", "==", "manifest.Height()"))
					}
				}
			}
		}
	}
	if fn := c.Need("base.IsValidProposalWithManifest"); fn != nil {
		succ := c.SuccessReturns(fn)
		c.MP(fn, "proposal is of the manifest's height", succ, 1, GCmp("proposal.Point().Height()", "==", "manifest.Height()"))
		c.MP(fn, "proposal fact is the manifest's proposal", succ, 1, GTrue("proposal.Fact().Hash().Equal(manifest.Proposal())"), GTrue("manifest.Proposal().Equal(proposal.Fact().Hash())"))
	}
	// R16.3 -----------------------------------------------------------------------------------
	c.Rule("R16.3", "MustPass")
	if fn := c.Need("isaac/block.(*BlockImporter).importItem"); fn != nil {
		succ := c.SuccessReturns(fn)
		c.MP(fn, "item accepted only if its checksum equals the map's (or the map has no such item)", succ, 1,
			GFalse("im.m.Item(t)#1"), GCmp("*.Checksum()", "==", "im.m.Item(t)#0.Checksum()"))
		c.MP(fn, "item accepted only after its content was imported", succ, 1, GFalse("im.m.Item(t)#1"), GOk("call(isaac/block.(*BlockImporter).importItem$*)()"))
	}
	if fn := c.Need("isaac/block.(*BlockImporter).WriteItem"); fn != nil {
		c.MP(fn, "item marked finished only after it was imported", c.CallsD(fn, "im.finisheds.SetValue(t, true)"), 1, GOk("im.importItem(t, ir)"))
	}
	if fn := c.Need("isaac/block.(*BlockImporter).Save"); fn != nil {
		succ := c.SuccessReturns(fn)
		c.MP(fn, "saved only when every item of the map is finished", succ, 1, GTrue("im.isfinished()"))
		c.MP(fn, "saved only after the block database was written", succ, 1, GOk("im.bwdb.Write()"))
		c.MP(fn, "saved only after the files were saved", succ, 1, GOk("im.localfs.Save()"))
		c.MP(fn, "suffrage proof stored when the block changes the suffrage", succ, 1, GNil("im.sufst"), GOk("im.bwdb.SetSuffrageProof(*)"))
	}
	isfinishedRules(c)
	// R16.4 -----------------------------------------------------------------------------------
	c.Rule("R16.4", "MustPass")
	if validator != nil {
		succ := c.SuccessReturns(validator)
		c.MP(validator, "block map validated", succ, 1, GOk("*.IsValid(networkID)"))
		c.MP(validator, "block map found", succ, 1, GTrue("isaac.BlockItemReadersDecode(itemf, height, base.BlockItemMap, nil)#1"))
		c.MP(validator, "items loaded", succ, 1, GOkTo("isaac/block.loadBlockItemsFromReader"))
		c.MP(validator, "proposal fits the manifest", succ, 1, GOkTo("base.IsValidProposalWithManifest"))
		c.MP(validator, "operations and their tree validated", succ, 1, GOkTo("isaac/block.IsValidOperationsOfBlock"))
		c.MP(validator, "states and their tree validated", succ, 1, GOkTo("isaac/block.IsValidStatesOfBlock"))
		c.MP(validator, "voteproofs validated", succ, 1, GOkTo("isaac/block.isValidVoteproofsFromLocalFS"))
	}
	for _, t := range []struct{ fn, with string }{
		{"isaac/block.IsValidOperationsOfBlock", "base.IsValidOperationsTreeWithManifest"},
		{"isaac/block.IsValidStatesOfBlock", "base.IsValidStatesTreeWithManifest"},
	} {
		if fn := c.Need(t.fn); fn != nil {
			succ := c.SuccessReturns(fn)
			c.MP(fn, "tree itself valid", succ, 1, GOkTo("(util/fixedtree.Tree).IsValid"))
			c.MP(fn, "tree fits elements and manifest", succ, 1, GOkTo(t.with))
		}
	}
	if fn := c.Need("isaac/block.isValidVoteproofsFromLocalFS"); fn != nil {
		c.MP(fn, "voteproofs fit the manifest", c.SuccessReturns(fn), 1, GOk("base.IsValidVoteproofsWithManifest(vps, m)"))
	}
}

// isfinishedRules (shared by C15 and C16, under the current rule): BlockImporter.isfinished answers
// true only if every item of the block map is recorded as finished.
func isfinishedRules(c *Ctx) {
	fn := c.Need("isaac/block.(*BlockImporter).isfinished")
	if fn == nil {
		return
	}
	cl := c.ClosureWithCall(fn, "im.finisheds.Value(*)")
	if cl == nil {
		return
	}
	cont := c.ReturnsD(cl, 0, "true")
	c.MP(cl, "an item counts as finished only if recorded finished", cont, 1, GTrue("im.finisheds.Value(item.Type())#0"))
	c.MP(cl, "an item counts as finished only if recorded at all", cont, 1, GTrue("im.finisheds.Value(item.Type())#1"))
	// the answer is a captured flag (or its negation); the walk stops early (false) only after the flag
	// was put into its "unfinished" polarity, and the flag is never put back
	rs := Returns(fn)
	if !c.Floor(fn, "returns", len(rs), 1) {
		return
	}
	d := c.D(RetVal(rs[0], 0))
	flag, unfinished := "", ""
	switch {
	case strings.HasPrefix(d, "!var:"):
		flag, unfinished = d[1:], "true"
	case strings.HasPrefix(d, "var:"):
		flag, unfinished = d, "false"
	default:
		c.Report(fn, "finished is a flag set by the item walk (or its negation)", c.InstrPos(rs[0]), false, d)
		return
	}
	c.Report(fn, "no other answer", fn.Pos(), len(nonMatchingReturns(c, fn, 0, globEscape(d))) == 0, d)
	stop := c.ReturnsD(cl, 0, "false")
	c.MP(cl, "the item walk stops only after the flag was put to unfinished", stop, 1, GStored("&"+flag))
	c.StoredIs(cl, "inside the walk the flag is only ever put to unfinished", c.StoresD(cl, "&"+flag), 1, unfinished)
	other := nonMatchingReturns(c, cl, 0, "true", "false")
	c.Report(cl, "the item walk answers only true/false constants", cl.Pos(), len(other) == 0, "")
	c.Exists(fn, "every item of the block map is walked", c.CallsD(fn, "im.m.Items(func:"+c.FuncKey(cl)+")"), 1)
	c.MP(fn, "answered only after the walk", []ssa.Instruction{rs[0]}, 1, GCalled("im.m.Items(*)"))
	if unfinished == "false" {
		// positive polarity: the flag starts as true
		c.StoredIs(fn, "the flag starts as finished", c.StoresD(fn, "&"+flag), 1, "true")
	} else {
		c.Exists(fn, "the flag starts as its zero value (not unfinished)", c.StoresD(fn, "&"+flag), 0)
		c.Report(fn, "the flag is not written outside the walk", fn.Pos(), len(c.StoresD(fn, "&"+flag)) == 0, "")
	}
}

// itemDispatch reads a switch over a block item type: item type constant -> the calls of the case
// body; "" -> the calls of the default body. v is the switched value's descriptor.
func itemDispatch(c *Ctx, f *ssa.Function, v string) map[string][]ssa.Instruction {
	out := map[string][]ssa.Instruction{}
	bodyCalls := func(b *ssa.BasicBlock) []ssa.Instruction {
		var calls []ssa.Instruction
		for _, in := range b.Instrs {
			if callCommon(in) != nil {
				calls = append(calls, in)
			}
		}
		return calls
	}
	for _, b := range f.Blocks {
		if len(b.Instrs) == 0 {
			continue
		}
		iff, ok := b.Instrs[len(b.Instrs)-1].(*ssa.If)
		if !ok {
			continue
		}
		d := c.D(iff.Cond)
		pre := "(" + v + " == base.BlockItem"
		if !strings.HasPrefix(d, pre) {
			continue
		}
		k := strings.TrimSuffix(strings.TrimPrefix(d, "("+v+" == "), ")")
		out[k] = bodyCalls(b.Succs[0])
		// the false successor that is not another test of the switch is the default body
		if nb := b.Succs[1]; len(nb.Instrs) > 0 {
			if nif, isIf := nb.Instrs[len(nb.Instrs)-1].(*ssa.If); !isIf || !strings.HasPrefix(c.D(nif.Cond), pre) {
				out[""] = bodyCalls(nb)
			}
		}
	}
	return out
}

// importerDecodesRules (R16.6): the block validator decodes every item of a block before it
// validates it (a proposal that does not decode, or whose signature is not the proposer's for this
// network, is refused). The importer must decode each item type the validator decodes: an item that
// is only copied and checksummed is stored whatever it holds.
func importerDecodesRules(c *Ctx) {
	c.Rule("R16.6", "SiblingAgreement")
	vparent := c.Need("isaac/block.loadBlockItemsFromReader")
	iparent := c.Need("isaac/block.(*BlockImporter).importItem")
	if vparent == nil || iparent == nil {
		return
	}
	decodes := func(calls []ssa.Instruction, pats ...string) bool {
		for _, in := range calls {
			cc := callCommon(in)
			if matchAny(CalleeFullName(cc), pats) {
				return true
			}
			if cal := CalleeOf(cc); cal != nil {
				for n := range c.ReachableCallees(2, cal) {
					if matchAny(n, pats) {
						return true
					}
				}
			}
		}
		return false
	}
	var vtab, itab map[string][]ssa.Instruction
	var vf, ifn *ssa.Function
	for _, f := range WithClosures(vparent) {
		if t := itemDispatch(c, f, "item"); len(t) > len(vtab) {
			vtab, vf = t, f
		}
	}
	for _, f := range WithClosures(iparent) {
		if t := itemDispatch(c, f, "t"); len(t) > len(itab) {
			itab, ifn = t, f
		}
	}
	if vf == nil || ifn == nil {
		c.Unresolved(iparent, "item dispatch", "switch over the item type not found in the validator's loader or the importer")
		return
	}
	var keys []string
	for k := range vtab {
		if k != "" && decodes(vtab[k], "isaac/block.decodeBlockItemFromReader", "isaac/block.decodeBlockItemsFromReader") {
			keys = append(keys, k)
		}
	}
	sort.Strings(keys)
	c.Floor(vf, "item types the validator decodes", len(keys), 6)
	for _, k := range keys {
		calls, found := itab[k]
		how := "its own case"
		if !found {
			calls, how = itab[""], "the default case"
		}
		names := []string{}
		for _, in := range calls {
			names = append(names, CalleeFullName(callCommon(in)))
		}
		c.Report(ifn, "the importer decodes the item "+k+" the validator decodes", ifn.Pos(),
			decodes(calls, "(isaac.BlockItemReader).Decode", "(isaac.BlockItemReader).DecodeItems"),
			"handled by "+how+": "+strings.Join(names, ", ")+" (no Decode/DecodeItems of the item reader within depth 2)")
	}
}

// voteproofRecountRules (R16.7): "an ACCEPT majority for the manifest hash" is a statement about
// the sign facts of the voteproof. The result and majority a voteproof declares are its sender's
// words; only a recount of the sign facts (Threshold.VoteResult over CountBallotSignFacts, as
// base.IsValidVoteproofWithSuffrage does) makes them a majority. The importer's voteproof checks
// (its own calls plus the IsValid methods of the concrete voteproofs, which it calls through the
// interface) must reach such a recount.
func voteproofRecountRules(c *Ctx) {
	c.Rule("R16.7", "SiblingAgreement")
	fn := c.Need("isaac/block.(*BlockImporter).importVoteproofs")
	if fn == nil {
		return
	}
	roots := []*ssa.Function{fn}
	n := 0
	for _, k := range []string{"isaac.(INITVoteproof).IsValid", "isaac.(ACCEPTVoteproof).IsValid"} {
		if f := c.Need(k); f != nil {
			roots = append(roots, f)
			n++
		}
	}
	c.Floor(fn, "concrete voteproof validators reached through the interface", n, 2)
	R := c.ReachableCallees(5, roots...)
	recount := []string{"base.IsValidVoteproofWithSuffrage", "isaac.IsValidVoteproofWithSuffrage", "(base.Threshold).VoteResult", "base.FindVoteResult"}
	ok := false
	for _, r := range recount {
		if R[r] {
			ok = true
		}
	}
	c.Report(fn, "the declared result and majority of an imported voteproof are recounted from its sign facts", fn.Pos(), ok,
		"none of "+strings.Join(recount, ", ")+" is reachable from importVoteproofs, INITVoteproof.IsValid or ACCEPTVoteproof.IsValid (static calls, depth 5): Result() and BallotMajority() are the voteproof's own declaration")
	c.Report(fn, "the checks do reach the per-sign-fact validation (sanity of the reachability)", fn.Pos(), R["base.IsValidVoteproof"] || R["base.isValidVoteproofSignFacts"], "")
}
