package main

func init() {
	Register(&Property{
		ID: "C11",
		Decides: "(R11.1) the block writer's Save is reached only after the computed manifest's hash was compared equal to the ACCEPT majority's new-block hash; " +
			"(R11.2) the processor's Save is reached only for a height strictly above previousSaved and for the matching proposal fact, previousSaved is stored before Save and only there; " +
			"(R11.3) Save/Process are one-shot (issaved/isprocessed tested); (R11.4) saveBlock only for MAJORITY results.",
		NotDecided: "cancellation races inside the block writer; that the manifest was computed from the proposal's operations (C10).",
		Run:        runC11,
	})
}

func runC11(c *Ctx) {
	c.Rule("R11.2a", "MustPass")
	if fn := c.Need("isaac.(*ProposalProcessors).save"); fn != nil {
		saves := c.CallsD(fn, "pps.p.Save(*)")
		c.MP(fn, "call ProposalProcessor.Save: height > previousSaved", saves, 1,
			GCmp("avp.Point().Height()", ">", "pps.previousSaved"))
		c.Rule("R11.2b", "MustPass")
		c.MP(fn, "call ProposalProcessor.Save: fact hash equal", saves, 1,
			GTrue("pps.p.Proposal().Fact().Hash().Equal(facthash)"))
		c.Rule("R11.2c", "MustPass")
		c.MP(fn, "call ProposalProcessor.Save: processor not nil", saves, 1, GNonNil("pps.p"))
		c.Rule("R11.2d", "MustPass")
		c.MP(fn, "call ProposalProcessor.Save: previousSaved stored first", saves, 1, GStored("&pps.previousSaved"))
		c.Rule("R11.2e", "MustPass")
		c.MP(fn, "store previousSaved: height > previousSaved", c.StoresD(fn, "&pps.previousSaved"), 1,
			GCmp("avp.Point().Height()", ">", "pps.previousSaved"))
	}
}
