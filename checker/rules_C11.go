package main

func init() {
	Register(&Property{
		ID: "C11",
		Decides: "(R11.1) the block writer's Save is reached only after the computed manifest was tested non-nil and its hash compared equal to the ACCEPT majority's new-block hash; " +
			"(R11.2) the processor's Save is reached only for a height strictly above previousSaved — that height being the height of the block saved (violated today: known finding) — and for the matching proposal fact, previousSaved is stored (with that height) before Save, only there, under the processors' lock; " +
			"(R11.3) DefaultProposalProcessor.Save/Process are one-shot (issaved/isprocessed tested and set under processlock, issaved set before the inner save); " +
			"(R11.4) every saveBlock call is reached only for a MAJORITY result; (R11.5) who may call the block writer's Save / the processor's Save.",
		NotDecided: "cancellation races inside the block writer; that the manifest was computed from the proposal's operations (C10); behaviour of ProposalProcessor implementations other than DefaultProposalProcessor.",
		Run:        runC11,
	})
}

func runC11(c *Ctx) {
	// R11.1 --------------------------------------------------------------------------------
	c.Rule("R11.1", "MustPass")
	if fn := c.Need("isaac.(*DefaultProposalProcessor).save"); fn != nil {
		w := c.CallsD(fn, "p.writer.Save(*)")
		c.MP(fn, "writer.Save: manifest hash == majority new block", w, 1,
			GTrue("p.manifest.Hash().Equal(avp.BallotMajority().NewBlock())"),
			GTrue("avp.BallotMajority().NewBlock().Equal(p.manifest.Hash())"))
		c.MP(fn, "writer.Save: manifest not nil", w, 1, GNonNil("p.manifest"))
		c.MP(fn, "writer.Save: accept voteproof handed to writer", w, 1, GOk("p.writer.SetACCEPTVoteproof(ctx, avp)"))
		c.MP(fn, "writer.Save: init voteproof handed to writer", w, 1, GOk("p.writer.SetINITVoteproof(ctx, p.ivp)"))
		c.MP(fn, "success exit: writer.Save succeeded", c.SuccessReturns(fn), 1, GOk("p.writer.Save(*)"))
	}
	// R11.2 --------------------------------------------------------------------------------
	if fn := c.Need("isaac.(*ProposalProcessors).save"); fn != nil {
		saves := c.CallsD(fn, "pps.p.Save(*)")
		c.Rule("R11.2a", "MustPass")
		c.MP(fn, "call ProposalProcessor.Save: height > previousSaved", saves, 1,
			GCmp("avp.Point().Height()", ">", "pps.previousSaved"))
		c.Rule("R11.2b", "MustPass")
		c.MP(fn, "call ProposalProcessor.Save: fact hash equal", saves, 1,
			GTrue("pps.p.Proposal().Fact().Hash().Equal(facthash)"), GTrue("facthash.Equal(pps.p.Proposal().Fact().Hash())"))
		c.Rule("R11.2c", "MustPass")
		c.MP(fn, "call ProposalProcessor.Save: processor not nil", saves, 1, GNonNil("pps.p"))
		// the once-per-height guard reads the voteproof's height while the block saved has the proposal's:
		// the two must be tied (here, or in the processor's own save through the manifest's height)
		tied := allOK(c.MustPass(fn, nil, saves,
			GTrue("pps.p.Proposal().Point().Equal(avp.Point().Point)"), GTrue("avp.Point().Point.Equal(pps.p.Proposal().Point())"),
			GCmp("pps.p.Proposal().Point().Height()", "==", "avp.Point().Height()"), GCmp("pps.p.Proposal().Point().Height()", ">", "pps.previousSaved")))
		if !tied {
			if inner := c.Need("isaac.(*DefaultProposalProcessor).save"); inner != nil {
				tied = allOK(c.MustPass(inner, nil, c.CallsD(inner, "p.writer.Save(*)"),
					GCmp("p.manifest.Height()", "==", "avp.Point().Height()"), GTrue("p.proposal.Point().Equal(avp.Point().Point)"), GTrue("p.proposal.ProposalFact().Point().Equal(avp.Point().Point)")))
			}
		}
		c.Report(fn, "the height the once-per-height guard reads is the height of the block that gets saved", fn.Pos(), tied,
			"neither save() compares the ACCEPT voteproof's point with the proposal's point (or the manifest's height)")
		c.Rule("R11.2d", "MustPass")
		c.MP(fn, "call ProposalProcessor.Save: previousSaved stored first", saves, 1, GStored("&pps.previousSaved"))
		c.ArgIs(fn, "call ProposalProcessor.Save: the same voteproof", saves, 1, 1, "avp")
		st := c.StoresD(fn, "&pps.previousSaved")
		c.Rule("R11.2e", "MustPass")
		c.MP(fn, "store previousSaved: height > previousSaved", st, 1,
			GCmp("avp.Point().Height()", ">", "pps.previousSaved"))
		c.MP(fn, "store previousSaved: fact hash equal", st, 1,
			GTrue("pps.p.Proposal().Fact().Hash().Equal(facthash)"), GTrue("facthash.Equal(pps.p.Proposal().Fact().Hash())"))
		c.Rule("R11.2f", "Dependence")
		c.StoredIs(fn, "store previousSaved: value is the voteproof's height", st, 1, "avp.Point().Height()")
		c.Rule("R11.2g", "MustPass")
		c.MP(fn, "success exit: processor Save succeeded", c.SuccessReturns(fn), 1, GOk("pps.p.Save(*)"))
	}
	c.Rule("R11.2h", "WhoMayWrite")
	c.OnlyIn("store ProposalProcessors.previousSaved", c.WhoStores("ProposalProcessors", "previousSaved"), 1,
		"isaac.(*ProposalProcessors).save", "isaac.NewProposalProcessors")
	c.Rule("R11.2i", "LockHeld")
	if fn := c.Need("isaac.(*ProposalProcessors).Save"); fn != nil {
		c.Held(fn, nil, "call save under pps.l", c.CallsD(fn, "pps.save(*)"), 1, "&pps.l", LW)
		c.ArgIs(fn, "call save: same fact hash", c.CallsD(fn, "pps.save(*)"), 1, 1, "facthash")
		c.ArgIs(fn, "call save: same voteproof", c.CallsD(fn, "pps.save(*)"), 1, 2, "avp")
		c.Rule("R11.2j", "MustPass")
		c.MP(fn, "success exit: save succeeded", c.SuccessReturns(fn), 1, GOk("pps.save(*)"))
	}
	c.Rule("R11.2k", "WhoMayCall")
	c.OnlyIn("call ProposalProcessors.save", c.WhoCalls("(*isaac.ProposalProcessors).save"), 1,
		"isaac.(*ProposalProcessors).Save")
	// R11.3 --------------------------------------------------------------------------------
	if fn := c.Need("isaac.(*DefaultProposalProcessor).Save"); fn != nil {
		inner := c.CallsD(fn, "p.save(*)")
		c.Rule("R11.3a", "MustPass")
		c.MP(fn, "inner save: not yet saved", inner, 1, GFalse("p.issaved"))
		c.MP(fn, "inner save: not canceled", inner, 1, GFalse("p.isCanceled()"))
		c.MP(fn, "inner save: issaved set first", inner, 1, GStored("&p.issaved"))
		c.StoredIs(fn, "store issaved: true", c.StoresD(fn, "&p.issaved"), 1, "true")
		c.MP(fn, "success exit: inner save succeeded", c.SuccessReturns(fn), 1, GOk("p.save(*)"))
		c.ArgIs(fn, "inner save: the same voteproof", inner, 1, 1, "avp")
		c.Rule("R11.3b", "LockHeld")
		c.Held(fn, nil, "inner save under processlock", inner, 1, "&p.processlock", LW)
		c.Held(fn, nil, "store issaved under processlock", c.StoresD(fn, "&p.issaved"), 1, "&p.processlock", LW)
		c.Held(fn, nil, "issaved tested under processlock", c.condsMatching(fn, "p.issaved"), 1, "&p.processlock", LW)
	}
	if fn := c.Need("isaac.(*DefaultProposalProcessor).Process"); fn != nil {
		inner := c.CallsD(fn, "p.process(*)")
		c.Rule("R11.3c", "MustPass")
		c.MP(fn, "inner process: not yet processed", inner, 1, GFalse("p.isprocessed"))
		c.MP(fn, "inner process: not canceled", inner, 1, GFalse("p.isCanceled()"))
		c.MP(fn, "store manifest: process succeeded", c.StoresD(fn, "&p.manifest"), 1, GOk("p.process(*)"))
		c.StoredIs(fn, "store manifest: result of process", c.StoresD(fn, "&p.manifest"), 1, "p.process(*)#0")
		c.MP(fn, "store isprocessed: process succeeded", c.StoresD(fn, "&p.isprocessed"), 1, GOk("p.process(*)"))
		c.Rule("R11.3d", "LockHeld")
		c.Held(fn, nil, "inner process under processlock", inner, 1, "&p.processlock", LW)
		c.Held(fn, nil, "store manifest under processlock", c.StoresD(fn, "&p.manifest"), 1, "&p.processlock", LW)
		c.Held(fn, nil, "isprocessed tested under processlock", c.condsMatching(fn, "p.isprocessed"), 1, "&p.processlock", LW)
		c.Held(fn, nil, "store isprocessed under processlock", c.StoresD(fn, "&p.isprocessed"), 1, "&p.processlock", LW)
	}
	c.Rule("R11.3e", "WhoMayWrite")
	c.OnlyIn("store DefaultProposalProcessor.manifest", c.WhoStores("DefaultProposalProcessor", "manifest"), 1,
		"isaac.(*DefaultProposalProcessor).Process")
	c.OnlyIn("store DefaultProposalProcessor.issaved", c.WhoStores("DefaultProposalProcessor", "issaved"), 1,
		"isaac.(*DefaultProposalProcessor).Save")
	c.OnlyIn("call DefaultProposalProcessor.save", c.WhoCalls("(*isaac.DefaultProposalProcessor).save"), 1,
		"isaac.(*DefaultProposalProcessor).Save")
	// R11.4 --------------------------------------------------------------------------------
	c.Rule("R11.4", "MustPass")
	sb := c.WhoCalls("(*isaac/states.voteproofHandler).saveBlock")
	c.Floor(nil, "saveBlock call sites", len(sb), 2)
	for _, s := range sb {
		c.MP(s.Fn, "call saveBlock: result is MAJORITY", []ssaInstr{s.In}, 1,
			GCmp("avp.Result()", "==", "\"MAJORITY\""))
		c.ArgIs(s.Fn, "call saveBlock: the tested voteproof", []ssaInstr{s.In}, 1, 0, "avp")
	}
	if fn := c.Need("isaac/states.(*voteproofHandler).handleACCEPTVoteproofAfterProcessingProposal"); fn != nil {
		c.MP(fn, "call saveBlock: manifest hash == majority new block", c.CallsD(fn, "st.saveBlock(*)"), 1,
			GTrue("manifest.Hash().Equal(avp.BallotMajority().NewBlock())"))
	}
	if fn := c.Need("isaac/states.(*voteproofHandler).saveBlock"); fn != nil {
		sv := c.CallsTo(fn, "(*isaac.ProposalProcessors).Save")
		c.ArgIs(fn, "ProposalProcessors.Save: fact hash is the majority's proposal", sv, 1, 1, "avp.BallotMajority().Proposal()")
		c.ArgIs(fn, "ProposalProcessors.Save: the same voteproof", sv, 1, 2, "avp")
		c.MP(fn, "saved=true exit: Save succeeded", c.ReturnsD(fn, 0, "true"), 1, GOk("*.ProposalProcessors.Save(*)"))
	}
	// R11.5 --------------------------------------------------------------------------------
	c.Rule("R11.5", "WhoMayCall")
	c.OnlyIn("call BlockWriter.Save", c.WhoCalls("(isaac.BlockWriter).Save"), 1,
		"isaac.(*DefaultProposalProcessor).save")
	c.OnlyIn("call ProposalProcessor.Save", c.WhoCalls("(isaac.ProposalProcessor).Save"), 1,
		"isaac.(*ProposalProcessors).save")
	c.OnlyIn("call ProposalProcessors.Save", c.WhoCalls("(*isaac.ProposalProcessors).Save"), 1,
		"isaac/states.(*voteproofHandler).saveBlock")
}
