package main

import (
	"fmt"
	"strings"

	"golang.org/x/tools/go/ssa"
)

func init() {
	Register(&Property{
		ID: "C09",
		Decides: "(R09.1) the current-handler slot is written only by start (initial handler) and exitAndEnter, the latter under the state lock; (R09.2) exitAndEnter is called only from switchState after checkStateSwitchContext said proceed or redirect (not ignore, not error), with the checked or the redirected context; " +
			"(R09.3) in checkStateSwitchContext every non-ignoring exit with a current handler in STOPPED requires next ∈ {BOOTING, BROKEN} (exactly these constants), every proceed exit except the BROKEN shortcut requires from == current state and a registered next state, and the unchanged context leaves the function only if consensus is allowed, or the current state is HANDOVER, or next ∉ {CONSENSUS, JOINING}; in SYNCING the disallowed request is ignored, otherwise replaced by a syncing context; " +
			"(R09.4) the reported state is next() of the very context handed to exitAndEnter and is reported only after exitAndEnter succeeded; (R09.5) who may call switchState and who may send on the state channel.; (R09.7) no method of States calls, while holding stateLock, another method that acquires stateLock (RWMutex is not re-entrant: the machine would block before reaching Syncing); (R09.8) switchState reports an ignored request differently from a completed switch (its caller applies after-switch effects) and (R09.9) a request is validated against the state it is applied to (validation and switch in one critical section of stateLock, or re-validation under the switch lock) — both violated today, known findings In exitAndEnter the exit of the current handler, the entry of the next and the replacement of the slot lie in one exclusive section of stateLock (no unlock in between).",
		NotDecided: "races between SetAllowConsensus and an in-flight switch (the check is evaluated outside the state lock); handler-internal enter/exit behaviour; the handover broker protocol.",
		Run:        runC09,
	})
}

func runC09(c *Ctx) {
	// R09.8: "a request whose origin is not the current state has no effect": the caller of switchState
	// must be able to tell an ignored request from a completed switch, otherwise it applies the
	// after-switch effects (leaving handover, "states stopped") to a request that was dropped.
	c.Rule("R09.8", "MustPass")
	if fn := c.Need("isaac/states.(*States).switchState"); fn != nil {
		var same []string
		ign := []Gate{GTrue("errors.Is(st.checkStateSwitchContext(*), isaacstates.ErrIgnoreSwitchingState)"),
			GTrue("errors.Is(st.exitAndEnter(*)#2, isaacstates.ErrIgnoreSwitchingState)")}
		nIgn := 0
		for _, r := range Returns(fn) {
			if r.Block().Comment == "recover" || len(r.Results) != 1 {
				continue
			}
			if allOK(c.MustPass(fn, nil, []ssa.Instruction{r}, ign...)) {
				nIgn++
				if c.D(RetVal(r, 0)) == "nil" {
					same = append(same, c.Pos(r.Pos()))
				}
			}
		}
		c.Floor(fn, "ignored-request exits of switchState", nIgn, 1)
		c.Report(fn, "an ignored request is reported to the caller differently from a completed switch", fn.Pos(), len(same) == 0,
			"ignored requests return plain nil like a completed switch at "+strings.Join(same, ", ")+"; ensureSwitchState then runs checkOutOfHandoverX / answers 'states stopped' for them")
	}
	// R09.9: the request is validated against the state it is applied to: validation and switch share one
	// critical section of stateLock, or the switch re-validates under its own lock
	c.Rule("R09.9", "LockHeld")
	if fn := c.Need("isaac/states.(*States).switchState"); fn != nil {
		chk := c.CallsD(fn, "st.checkStateSwitchContext(*)")
		sw := c.CallsD(fn, "st.exitAndEnter(*)")
		one := len(chk) > 0 && len(sw) > 0 && c.heldOK(fn, append(append([]ssa.Instruction{}, chk...), sw...), "&st.stateLock", LR)
		re := false
		if ee := c.Need("isaac/states.(*States).exitAndEnter"); ee != nil {
			calls := c.CallsD(ee, "st.checkStateSwitchContext(*)")
			re = len(calls) > 0 && c.heldOK(ee, calls, "&st.stateLock", LR)
			if !re {
				// or it compares the handler it was given with the current one under the lock
				for _, in := range c.condsMatching(ee, "*st.cs*") {
					if c.heldOK(ee, []ssa.Instruction{in}, "&st.stateLock", LR) {
						re = true
					}
				}
			}
		}
		c.Report(fn, "a switch request is validated against the state it is applied to (one critical section, or re-validated under the switch lock)", fn.Pos(), one || re,
			fmt.Sprintf("validation and switch in one critical section: %v; exitAndEnter re-validates under its lock: %v", one, re))
	}
	// R09.7: the state lock is never asked for again by a method that already holds it (the switch loop
	// takes it exclusively in exitAndEnter: a re-entrant read lock behind that writer blocks the machine for good)
	c.Rule("R09.7", "LockOrder")
	c.ReentrantLocks("isaac/states.(*States).", "st", "stateLock", 1)
	// R09.1 ---------------------------------------------------------------------------------------
	c.Rule("R09.1", "WhoMayWrite")
	cs := c.WhoStores("States", "cs")
	c.OnlyIn("store States.cs", cs, 2, "isaac/states.(*States).start", "isaac/states.(*States).exitAndEnter", "isaac/states.NewStates")
	if fn := c.Need("isaac/states.(*States).exitAndEnter"); fn != nil {
		sts := c.StoresD(fn, "&st.cs")
		c.Held(fn, nil, "current handler replaced under the state lock", sts, 1, "&st.stateLock", LW)
		// the whole switch is one exclusive section: whoever reads the slot under the lock
		// (SetAllowConsensus notifying the current handler) sees either the handler before its exit or the
		// handler after its entry — not an exited handler that is still in the slot
		c.Held(fn, nil, "current handler exits with the state lock held exclusively", c.CallsD(fn, "current.exit(sctx)"), 1, "&st.stateLock", LW)
		c.Held(fn, nil, "next handler enters with the state lock held exclusively", c.CallsD(fn, "*.enter(current.state(), sctx)"), 1, "&st.stateLock", LW)
		for _, ex := range c.CallsD(fn, "current.exit(sctx)") {
			cut := NewCut()
			for _, x := range allInstrs(fn) {
				if cc := callCommon(x); cc != nil && strings.HasSuffix(CalleeFullName(cc), ").Unlock") && len(cc.Args) > 0 && c.D(cc.Args[0]) == "&st.stateLock" {
					if _, isDefer := x.(*ssa.Defer); !isDefer {
						cut.Barriers[x] = true
					}
				}
			}
			res := reach(fn, ex, cut)
			for _, stx := range sts {
				c.Report(fn, "the lock is not released between the exit of the current handler and the replacement of the slot", c.InstrPos(stx), res.reached[stx], "an Unlock of stateLock lies on every path from the exit to this store")
			}
		}
		c.StoredIs(fn, "current handler becomes the handler created for next()", sts, 1, "call(st.newHandlers[sctx.next()].new)()#0", "st.newHandlers[sctx.next()].new()#0")
		c.MP(fn, "handler replaced only after the new handler was created", sts, 1, GOk("call(st.newHandlers[sctx.next()].new)()"), GOk("st.newHandlers[sctx.next()].new()"))
		succ := c.SuccessReturns(fn)
		c.MP(fn, "success: new handler entered", succ, 1, GOk("*.enter(current.state(), sctx)"))
		c.MP(fn, "success: handler slot updated", succ, 1, GStored("&st.cs"))
		c.MP(fn, "success: current handler exited (or next is BROKEN, or none)", succ, 1, GOk("current.exit(sctx)"), GNil("current"), GCmp("sctx.next()", "==", "\"BROKEN\""))
	}
	if fn := c.Need("isaac/states.(*States).current"); fn != nil {
		var reads []ssa.Instruction
		for _, s := range c.WhoTouches("States", "cs") {
			if s.Fn == fn {
				reads = append(reads, s.In)
			}
		}
		c.Held(fn, nil, "current handler read under the state lock", reads, 1, "&st.stateLock", LR)
	}
	// R09.2 ---------------------------------------------------------------------------------------
	c.Rule("R09.2", "MustPass")
	c.OnlyIn("call exitAndEnter", c.WhoCalls("(*isaac/states.States).exitAndEnter"), 1, "isaac/states.(*States).switchState")
	if fn := c.Need("isaac/states.(*States).switchState"); fn != nil {
		chk := "st.checkStateSwitchContext(sctx, st.current())"
		ee := c.CallsD(fn, "st.exitAndEnter(*)")
		c.MP(fn, "exitAndEnter only if the check said proceed or redirect", ee, 1, GNil(chk), GTrue("errors.As("+chk+", &var:asctx)"))
		c.MP(fn, "exitAndEnter never for an ignored request", ee, 1, GNil(chk), GFalse("errors.Is("+chk+", isaacstates.ErrIgnoreSwitchingState)"))
		c.ArgIs(fn, "exitAndEnter gets the checked or the redirected context", ee, 1, 0, "φ(sctx|var:asctx)", "sctx")
		c.ArgIs(fn, "exitAndEnter gets the handler the check was made against", ee, 1, 1, "st.current()")
		// R09.4
		c.Rule("R09.4", "MustPass")
		rep := c.CallsD(fn, "call(st.args.WhenStateSwitchedFunc)(*)")
		c.MP(fn, "switch reported only after exitAndEnter succeeded", rep, 1, GOk("st.exitAndEnter(*)"))
		if len(ee) == 1 && len(rep) == 1 {
			a := c.D(CallArg(ee[0], 0))
			b := c.D(CallArg(rep[0], 0))
			c.Report(fn, "reported state is next() of the context handed to exitAndEnter", c.InstrPos(rep[0]), b == a+".next()", "reported "+b+", entered with "+a)
		}
	}
	// R09.3 ---------------------------------------------------------------------------------------
	c.Rule("R09.3", "MustPass")
	if fn := c.Need("isaac/states.(*States).checkStateSwitchContext"); fn != nil {
		var ignore, proceed []ssa.Instruction
		for _, r := range Returns(fn) {
			d := c.D(RetVal(r, 0))
			if strings.HasPrefix(d, "isaacstates.ErrIgnoreSwitchingState.") {
				ignore = append(ignore, r)
			} else {
				proceed = append(proceed, r)
			}
		}
		c.Floor(fn, "ignore returns", len(ignore), 4)
		// (a) STOPPED -> only BOOTING / BROKEN
		c.MP(fn, "non-ignoring exits from STOPPED require next ∈ {BOOTING, BROKEN}", proceed, 4,
			GNil("current"), GCmp("current.state()", "!=", "\"STOPPED\""),
			GCmp("sctx.next()", "==", "\"BOOTING\""), GCmp("sctx.next()", "==", "\"BROKEN\""))
		// (b) from == current
		var nonErr []ssa.Instruction
		for _, r := range proceed {
			d := c.D(RetVal(r.(*ssa.Return), 0))
			if strings.HasPrefix(d, "errors.Errorf(") {
				continue
			}
			nonErr = append(nonErr, r)
		}
		c.MP(fn, "proceed exits require from == current state (or no current handler)", nonErr, 3,
			GNil("current"), GCmp("sctx.from()", "==", "current.state()"))
		c.MP(fn, "proceed exits require a registered next state (or no current handler)", nonErr, 3,
			GNil("current"), GTrue("st.newHandlers[sctx.next()]#1"))
		c.MP(fn, "proceed exits require next != current state (or no current handler)", nonErr, 3,
			GNil("current"), GCmp("sctx.next()", "!=", "current.state()"))
		// (c) not allowed consensus
		var final *ssa.Return
		for _, r := range nonErr {
			if _, isPhi := stripIface(RetVal(r.(*ssa.Return), 0)).(*ssa.Phi); isPhi {
				final = r.(*ssa.Return)
			}
		}
		if final == nil {
			c.Unresolved(fn, "final return", "the merged (context or redirect) return was not found")
		} else {
			unchanged := c.PhiLeafEdges(stripIface(RetVal(final, 0)), "sctx")
			allowed := GTrue("st.AllowedConsensus()")
			handover := GCmp("current.state()", "==", "\"HANDOVER\"")
			c.MPEdge(fn, "unchanged context leaves only if allowed, in HANDOVER, or next != CONSENSUS", unchanged, 2,
				allowed, handover, GCmp("sctx.next()", "!=", "\"CONSENSUS\""))
			c.MPEdge(fn, "unchanged context leaves only if allowed, in HANDOVER, or next != JOINING", unchanged, 2,
				allowed, handover, GCmp("sctx.next()", "!=", "\"JOINING\""))
			redirect := append(c.PhiLeafEdges(stripIface(RetVal(final, 0)), "isaacstates.emptySyncingSwitchContext(current.state())"),
				c.PhiLeafEdges(stripIface(RetVal(final, 0)), "isaacstates.newSyncingSwitchContextWithVoteproof(current.state(), sctx.voteproof())")...)
			c.MPEdge(fn, "syncing redirect only when consensus is not allowed", redirect, 2, GFalse("st.AllowedConsensus()"))
			c.MPEdge(fn, "syncing redirect never from SYNCING (request ignored instead)", redirect, 2, GCmp("current.state()", "!=", "\"SYNCING\""))
			leaves := c.PhiLeafEdges(stripIface(RetVal(final, 0)), "*")
			c.Report(fn, "merged return carries only the context or a syncing redirect", c.InstrPos(final), len(leaves) == len(unchanged)+len(redirect),
				c.D(RetVal(final, 0)))
		}
		if final != nil {
			c.MP(fn, "merged return: handover check passed", []ssaInstr{final}, 1, GOk("st.checkHandoverStateSwitchContext(sctx, current.state())"))
		}
		// the keep-syncing ignore is controlled by SYNCING
		for _, r := range ignore {
			if strings.Contains(c.D(RetVal(r.(*ssa.Return), 0)), "keep syncing") {
				c.MP(fn, "keep-syncing ignore only in SYNCING when not allowed", []ssaInstr{r}, 1, GCmp("current.state()", "==", "\"SYNCING\""))
			}
		}
	}
	if fn := c.Need("isaac/states.(*States).checkHandoverStateSwitchContext"); fn != nil {
		succ := c.SuccessReturns(fn)
		c.MP(fn, "without a handover broker HANDOVER is never entered", succ, 1, GNonNil("st.HandoverYBroker()"), GCmp("sctx.next()", "!=", "\"HANDOVER\""))
		c.MP(fn, "under handover the consensus states are redirected unless already in HANDOVER", succ, 1,
			GNil("st.HandoverYBroker()"), GCmp("current", "==", "\"HANDOVER\""), GCmp("sctx.next()", "!=", "\"CONSENSUS\""))
		c.MP(fn, "under handover the consensus states are redirected unless already in HANDOVER (JOINING)", succ, 1,
			GNil("st.HandoverYBroker()"), GCmp("current", "==", "\"HANDOVER\""), GCmp("sctx.next()", "!=", "\"JOINING\""))
	}
	// R09.5 ---------------------------------------------------------------------------------------
	c.Rule("R09.5", "WhoMayCall")
	c.OnlyIn("call switchState", c.WhoCalls("(*isaac/states.States).switchState"), 1, "isaac/states.(*States).ensureSwitchState", "isaac/states.(*States).Hold", "isaac/states.(*States).start")
	var sends []Site
	for _, fn := range c.Funcs {
		for _, in := range allInstrs(fn) {
			if s, ok := in.(*ssa.Send); ok && c.D(s.Chan) == "st.statech" {
				sends = append(sends, Site{fn, in})
			}
		}
	}
	c.OnlyIn("send on States.statech", sends, 1, "isaac/states.(*States).AskMoveState")
	if fn := c.Need("isaac/states.(*States).AskMoveState"); fn != nil {
		chk := "st.checkStateSwitchContext(sctx, st.current())"
		var gos []ssa.Instruction
		for _, in := range allInstrs(fn) {
			if _, ok := in.(*ssa.Go); ok {
				gos = append(gos, in)
			}
		}
		c.MP(fn, "request queued only if the check said proceed or redirect", gos, 1, GNil(chk), GTrue("errors.As("+chk+", &var:nsctx)"))
		c.MP(fn, "ignored request is not queued", gos, 1, GNil(chk), GFalse("errors.Is("+chk+", isaacstates.ErrIgnoreSwitchingState)"))
	}
}

func stripIface(v ssa.Value) ssa.Value {
	for {
		switch x := v.(type) {
		case *ssa.ChangeInterface:
			v = x.X
		case *ssa.MakeInterface:
			v = x.X
		default:
			return v
		}
	}
}
