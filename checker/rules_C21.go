package main

import (
	"fmt"
	"strings"

	"golang.org/x/tools/go/ssa"
)

func init() {
	Register(&Property{
		ID: "C21",
		Decides: "(R21.1) commit marker last: the block writer merges its database only after all queued writes were flushed (save worker waited, database Write succeeded), the block map and the suffrage proof were set; the temp database's merged marker is written only by TempLeveldb.Merge and the center publishes the temp only after that write succeeded; " +
			"(R21.2) loader gate: at start-up a temp database is used only if it opened and carries the merged marker, all other prefixes of that height are removed, and temps are loaded strictly at last+1; " +
			"(R21.3) permanent merge ordering: the key that makes a block visible to the permanent loader (the block map) is written only after all other batches of that block were written.; (R21.3) jobs handed to a worker read only captured variables that the submitter does not assign again (no job works on a later batch/slot than the one it was created for); " +
			"(R21.4) Redis permanent merge: an index (sorted set) member is added only after the value it names was set, and the block map step runs in the merge itself only after the concurrent jobs of every other step succeeded (the block map is the commit record of the Redis back-end)",
		NotDecided: "enumeration of crash points; atomicity of a single leveldb batch; the local-fs part of a block.",
		Run:        runC21,
	})
}

func runC21(c *Ctx) {
	// R21.1 --------------------------------------------------------------------------------------
	c.Rule("R21.1", "MustPass")
	if fn := c.Need("isaac/block.(*Writer).Save"); fn != nil {
		mg := c.CallsD(fn, "call(w.mergeDatabase)(w.db)")
		c.MP(fn, "database merged only after the queued writes were flushed", mg, 1, GOk("w.waitSaveWorker(ctx)"))
		c.MP(fn, "database merged only after the block map was set", mg, 1, GOk("w.db.SetBlockMap(*)"))
		c.MP(fn, "database merged only after the files were saved", mg, 1, GOk("w.fswriter.Save(ctx)"))
		c.MP(fn, "database merged only after the suffrage proof was set (when the suffrage changed)", mg, 1, GNil("w.db.SuffrageState()"), GOk("w.db.SetSuffrageProof(*)"))
		c.MP(fn, "success only after the database merged", c.SuccessReturns(fn), 1, GOk("call(w.mergeDatabase)(w.db)"))
		c.ArgIs(fn, "block map set is the saved files' block map", c.CallsD(fn, "w.db.SetBlockMap(*)"), 1, 0, "w.fswriter.Save(ctx)#0")
	}
	if fn := c.Need("isaac/block.(*Writer).waitSaveWorker"); fn != nil {
		succ := c.SuccessReturns(fn)
		c.MP(fn, "flush: all save jobs waited for (when a worker exists)", succ, 1, GOk("*.Wait()"), GNil("call(w.saveWorker)(false)"))
		c.MP(fn, "flush: database batches written (when a worker exists)", succ, 1, GOk("w.db.Write()"), GNil("call(w.saveWorker)(false)"))
		c.MP(fn, "database batches written only after every save job finished", c.CallsD(fn, "w.db.Write()"), 1, GOk("*.Wait()"))
	}
	// the merged marker
	var markerWrites []Site
	for _, s := range c.WhoCalls("isaac/database.leveldbTempMergedKey") {
		// a write if the key flows into Put
		for _, in := range allInstrs(s.Fn) {
			cc := callCommon(in)
			if cc == nil || !strings.HasSuffix(CalleeFullName(cc), ".Put") || len(cc.Args) < 2 {
				continue
			}
			if v, ok := s.In.(ssa.Value); ok && cc.Args[1] == v {
				markerWrites = append(markerWrites, Site{s.Fn, in})
			}
		}
	}
	c.OnlyIn("write of the temp-merged marker", markerWrites, 1, "isaac/database.(*TempLeveldb).Merge")
	if fn := c.Need("isaac/database.(*TempLeveldb).Merge"); fn != nil {
		c.MP(fn, "merge succeeds only after the marker was written", c.SuccessReturns(fn), 1, GOk("*.Put(isaacdatabase.leveldbTempMergedKey(db.Height()), nil, nil)"))
	}
	if fn := c.Need("isaac/database.(*Center).MergeBlockWriteDatabase"); fn != nil {
		c.MP(fn, "temp published only after its merged marker was written", c.StoresD(fn, "&db.temps"), 2, GOk("w.TempDatabase()#0.Merge()"))
	}
	if fn := c.Need("isaac/database.(*LeveldbBlockWrite).TempDatabase"); fn != nil {
		_ = fn
	}
	if fn := c.Need("isaac/database.(*LeveldbBlockWrite).Write"); fn != nil {
		c.Exists(fn, "Write flushes the batched records", c.ReturnsD(fn, 0, "db.batchDone()"), 1)
	}
	loaderGateRules(c, "R21.2")
	// R21.3 --------------------------------------------------------------------------------------
	c.Rule("R21.3", "MustPass")
	c.AsyncCaptures(c.Need("isaac/database.(*LeveldbPermanent).mergeTempDatabaseFromLeveldb"), "*.NewJob", 2)
	c.AsyncCaptures(c.Need("isaac/database.(*LeveldbBlockWrite).SetStates"), "*.NewJob", 1)
	c.Rule("R21.3", "MustPass")
	permCommitBatchRule(c)
	// the final flush of the block writer's batch function: nothing that was queued may be dropped
	c.Rule("R21.1", "MustPass")
	batchSlotSaveRules(c)
	redisMergeOrderRules(c, "R21.4")
}

// batchSlotSaveRules: a batch leaves the rotating slot of Storage.BatchFunc only through the save
// function, and the final flush is skipped only for an empty batch.
func batchSlotSaveRules(c *Ctx) {
	for _, k := range []string{"batchAddFunc", "batchDoneFunc"} {
		parent := c.Need("storage/leveldb.(*Storage)." + k)
		if parent == nil {
			continue
		}
		var cl *ssa.Function
		for _, f := range WithClosures(parent) {
			if len(c.CallsD(f, "call(savef)(batch)")) > 0 {
				cl = f
			}
		}
		if cl == nil {
			c.Unresolved(parent, k+": slot callback", "closure calling savef(batch) not found")
			continue
		}
		var rotate, ignore []ssa.Instruction
		for _, r := range Returns(cl) {
			if len(r.Results) != 2 {
				continue
			}
			switch b, e := c.D(RetVal(r, 0)), c.D(RetVal(r, 1)); {
			case b != "nil":
				rotate = append(rotate, r)
				c.Report(cl, k+": a replaced batch is handed to the save function", c.InstrPos(r), e == "call(doBatch)(call(savef)(batch))", e)
			case e == "util.ErrLockedSetIgnore":
				ignore = append(ignore, r)
			}
		}
		c.Exists(cl, k+": the slot is rotated through a save", rotate, 1)
		if k == "batchDoneFunc" {
			c.MP(cl, "final flush is skipped only for an empty batch", ignore, 1, GTrue("isempty"), GCmp("batch.Len()", "<", "1"))
		}
	}
	if fn := c.Need("storage/leveldb.(*Storage).BatchFuncWithNewBatch"); fn != nil {
		var sv *ssa.Function
		for _, f := range WithClosures(fn) {
			if len(c.CallsD(f, "st.Batch(batch.LBatch(), wo)")) > 0 {
				sv = f
			}
		}
		c.Report(fn, "save function writes the batch it was given", fn.Pos(), sv != nil, "st.Batch(batch.LBatch(), wo)")
	}
}

// loaderGateRules (shared by C20 and C21): at start-up a temp database is used only if it opened
// and carries the merged marker.
func loaderGateRules(c *Ctx, rule string) {
	c.Rule(rule, "MustPass")
	if fn := c.Need("isaac/database.loadTemp"); fn != nil {
		tmp := "isaacdatabase.NewTempLeveldbFromPrefix(st, var:prefixes[ι], encs, enc)"
		var foundPhi *ssa.Phi
		for _, r := range Returns(fn) {
			if phi, ok := RetVal(r, 0).(*ssa.Phi); ok {
				foundPhi = phi
			}
		}
		if foundPhi == nil {
			c.Unresolved(fn, "selected temp", "the returned temp database is not a merged value")
		} else {
			edges := c.PhiLeafEdges(foundPhi, tmp+"#0")
			c.MPEdge(fn, "temp selected only if it carries the merged marker", edges, 1, GTrue(tmp+"#0.isMerged()#0"))
			c.MPEdge(fn, "temp selected only if the marker lookup succeeded", edges, 1, GOk(tmp+"#0.isMerged()"))
			c.MPEdge(fn, "temp selected only if it opened", edges, 1, GOk(tmp))
			all := c.PhiLeafEdges(foundPhi, "*")
			nils := c.PhiLeafEdges(foundPhi, "nil")
			c.Report(fn, "the loader returns a loaded temp or nothing", fn.Pos(), len(all) == len(edges)+len(nils), c.D(foundPhi))
		}
		rm := c.CallsTo(fn, "storage/leveldb.RemoveByPrefix")
		c.Exists(fn, "unusable prefixes of the height are removed", rm, 1)
		ul := "(ι < len(φ(append(↺, var:varargs[:])|nil|↺)))"
		c.ForEach(fn, "each unusable prefix removed", ul, 1, GOkTo("storage/leveldb.RemoveByPrefix"))
		c.MP(fn, "success only after the unusable prefixes were removed", c.SuccessReturns(fn), 1,
			GLoopDone(ul), GCmp("len(φ(append(↺, var:varargs[:])|nil|↺))", "<=", "0"), GCmp("len(var:prefixes)", "<", "1"))
	}
	if fn := c.Need("isaac/database.(*TempLeveldb).isMerged"); fn != nil {
		c.Exists(fn, "merged test is the existence of the marker of this height", c.ReturnsD(fn, 0, "*.Exists(isaacdatabase.leveldbTempMergedKey(db.Height()))#0"), 1)
	}
	if fn := c.Need("isaac/database.loadTemps"); fn != nil {
		lt := c.CallsTo(fn, "isaac/database.loadTemp")
		c.ArgIs(fn, "temps loaded strictly at the next height", lt, 1, 1, "(φ(*) + 1)")
		c.Exists(fn, "blocks above the last loadable temp are removed", c.CallsTo(fn, "isaac/database.removeHigherHeights"), 1)
	}
	mergedMarkerRules(c)
	if fn := c.Need("isaac/database.(*Center).load"); fn != nil {
		c.ArgIs(fn, "temps loaded above the permanent database's last height", c.CallsTo(fn, "isaac/database.loadTemps"), 1, 1, "φ(-1|db.perm.LastBlockMap()#0.Manifest().Height())", "φ(base.NilHeight|db.perm.LastBlockMap()#0.Manifest().Height())")
	}
}

// mergedMarkerRules (shared by C19, C20, C21 under the caller's current rule): the merged marker —
// which makes a temp database the one the loader picks for its height after a reopen — is written
// only for a temp that the center accepts: of the height following the newest one.
func mergedMarkerRules(c *Ctx) {
	fn := c.Need("isaac/database.(*Center).MergeBlockWriteDatabase")
	if fn == nil {
		return
	}
	mk := c.CallsD(fn, "w.TempDatabase()#0.Merge()")
	c.MP(fn, "merged marker written only for a temp of the next height", mk, 1,
		GCmp("w.TempDatabase()#0.Height()", "==", "(φ(*) + 1)"), GCmp("φ(*)", "<=", "base.NilHeight"))
	c.Held(fn, nil, "merged marker written under the center lock", mk, 1, "&db.l", LW)
	if m := c.Need("isaac/database.(*TempLeveldb).Merge"); m != nil {
		c.Exists(m, "Merge writes the marker of its own height", c.CallsD(m, "*.Put(isaacdatabase.leveldbTempMergedKey(db.Height()), *)"), 1)
	}
}

// redisMergeOrderRules: the Redis permanent database has no batches; a block becomes the last
// block of the permanent database when its block map is readable through the block map index.
//   - the step that adds a member to an index (sorted set) adds it only after the value of that
//     member was set: a member without its value hides every earlier member from loadLast;
//   - the step that writes the block map index runs in the merge itself (not as one of the
//     concurrent jobs) and only after the concurrent jobs of every other step succeeded.
func redisMergeOrderRules(c *Ctx, rule string) {
	const R = "isaac/database.(*RedisPermanent)."
	c.Rule(rule, "MustPass")
	parent := c.Need(R + "mergeTempDatabaseFromLeveldb")
	if parent == nil {
		return
	}
	var mapStep *ssa.Function
	nidx := 0
	var steps []*ssa.Function
	for _, step := range c.FuncsWithPrefix(R + "merge") {
		if step == parent || step.Parent() != nil {
			continue
		}
		steps = append(steps, step)
		for _, f := range WithClosures(step) {
			zs := c.CallsTo(f, "(*storage/redis.Storage).ZAddArgs")
			if len(zs) == 0 {
				continue
			}
			nidx += len(zs)
			c.MP(f, "index member added only after its value was set ("+step.Name()+")", zs, 1, GOkTo("(*storage/redis.Storage).Set"))
			for _, z := range zs {
				if c.D(CallArg(z, 1)) == "isaacdatabase.redisZKeyBlockMaps" {
					mapStep = step
				}
			}
		}
	}
	c.Floor(parent, "index writes of the Redis merge", nidx, 2)
	if mapStep == nil {
		c.Unresolved(parent, "block map step", "no merge step adds to isaacdatabase.redisZKeyBlockMaps")
		return
	}
	var mapCalls []ssa.Instruction
	inJob := 0
	for _, f := range WithClosures(parent) {
		for _, in := range allInstrs(f) {
			if cc := callCommon(in); cc != nil && CalleeOf(cc) == mapStep {
				if f == parent {
					mapCalls = append(mapCalls, in)
				} else {
					inJob++
				}
			}
		}
	}
	c.Report(parent, "the block map step is not one of the concurrent jobs", parent.Pos(), inJob == 0, fmt.Sprintf("%d calls inside job closures", inJob))
	if !c.Exists(parent, "the block map step is called by the merge itself", mapCalls, 1) {
		return
	}
	for _, step := range steps {
		if step == mapStep {
			continue
		}
		direct := false
		for _, in := range allInstrs(parent) {
			if cc := callCommon(in); cc != nil && CalleeOf(cc) == step {
				direct = true
			}
		}
		if direct {
			c.MP(parent, "block map written only after step "+step.Name()+" succeeded", mapCalls, 1, GOkTo("(*isaac/database.RedisPermanent)."+step.Name()))
		}
	}
	c.MP(parent, "block map written only after the concurrent jobs of the other steps succeeded", mapCalls, 1, GOkTo("util.RunJobWorkerByJobs"))
	// every job closure of the merge is handed to that one RunJobWorkerByJobs call
	runs := c.CallsTo(parent, "util.RunJobWorkerByJobs")
	c.Exists(parent, "one concurrent run of the data steps", runs, 1)
	c.MP(parent, "last-value caches updated only after the block map was written", c.CallsD(parent, "db.updateLast(*)"), 1, GOkTo("(*isaac/database.RedisPermanent)."+mapStep.Name()))
	c.MP(parent, "success only after the block map was written", c.SuccessReturns(parent), 1, GOkTo("(*isaac/database.RedisPermanent)."+mapStep.Name()))
}

// loadedVar: the local variable (possibly captured) a value was loaded from, nil otherwise.
func loadedVar(v ssa.Value) *ssa.Alloc {
	u, ok := stripConv(v).(*ssa.UnOp)
	if !ok {
		return nil
	}
	a, _ := rootAlloc(u.X)
	return a
}

// permCommitBatchRule (C21, C20, C19 under the caller's current rule): the LevelDB permanent merge
// writes the block map — what makes the block the last block after a reopen — in a batch of its own,
// after every other batch was written.
func permCommitBatchRule(c *Ctx) {
	if fn := c.Need("isaac/database.(*LeveldbPermanent).mergeTempDatabaseFromLeveldb"); fn != nil {
		// the write that makes the block visible to loadLastBlockMap must come after worker.Wait():
		// a batch committed by the merge itself after the Wait succeeded (the commit batch), and
		// every record put into any other batch is not a block map record.
		var commit []ssa.Instruction
		var commitVar *ssa.Alloc
		for _, in := range c.CallsTo(fn, "(*storage/leveldb.PrefixStorage).Batch") {
			if a := loadedVar(CallArg(in, 0)); a != nil {
				commit = append(commit, in)
				commitVar = a
			}
		}
		c.Report(fn, "the block map (what the loader keys on) is written after all other batches were waited for", fn.Pos(), len(commit) == 1,
			fmt.Sprintf("%d batches committed by the merge itself (outside the concurrent jobs); all keys of the temp database, including the block map, are copied in parallel batches", len(commit)))
		if len(commit) == 1 {
			c.MP(fn, "the commit batch is written only after every other batch was written", commit, 1, GOk("*.Wait()"))
			c.MP(fn, "last-value caches updated only after the commit batch was written", c.CallsD(fn, "db.updateLast(*)"), 1, GOkTo("(*storage/leveldb.PrefixStorage).Batch"))
			c.MP(fn, "success only after the commit batch was written", c.SuccessReturns(fn), 1, GOkTo("(*storage/leveldb.PrefixStorage).Batch"))
			isMap := "bytes.HasPrefix(k, isaacdatabase.leveldbKeyPrefixBlockMap[:])"
			nput, ncommit := 0, 0
			for _, f := range WithClosures(fn) {
				for _, put := range c.CallsTo(f, "(*storage/leveldb.PrefixStorageBatch).Put") {
					nput++
					if a := loadedVar(callCommon(put).Args[0]); a != nil && a == commitVar {
						ncommit++
						continue
					}
					c.MP(f, "a record copied by a concurrent batch is not a block map record", []ssa.Instruction{put}, 1, GFalse(isMap))
				}
			}
			c.Floor(fn, "records put into batches by the merge", nput, 2)
			c.Floor(fn, "puts into the commit batch (other records may be held back too)", ncommit, 1)
		}
		c.MP(fn, "last-value caches updated only after every batch was written", c.CallsD(fn, "db.updateLast(*)"), 1, GOk("*.Wait()"))
		c.MP(fn, "success only after every batch was written", c.SuccessReturns(fn), 1, GOk("*.Wait()"))
	}
}
