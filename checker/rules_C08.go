package main

import (
	"strings"

	"golang.org/x/tools/go/ssa"
)

func init() {
	Register(&Property{
		ID: "C08",
		Decides: "(R08.1) every site in isaacstates that signs a ballot sign fact with the local key is reached only through the not-found edge of a ballot-pool lookup for the same stage and suffrage-confirm flag, whose found edge hands out the stored ballot (consensus handlers directly; the mimic path through mimicBallotFunc -> mimicBallot -> signMimicBallot -> mimicBallot); " +
			"(R08.2) the broadcaster stores a local ballot before broadcasting, consults the pool's first-writer-wins answer, and on `already stored` broadcasts the ballot loaded from the pool for that same stage point; what is broadcast is exactly what set() returned; " +
			"(R08.4) ballot sign facts are signed with the local key only at the tabled sites; (R08.5) the ballot pool's cleanup depth is a positive constant, so the stored local ballot of the current height — what every lookup-before-sign relies on — is not purged.; (R08.6) the mimic path votes with the ballot the broadcaster settled on and (R08.7) the ballot cleaner's reference is not the highest stored ballot — both violated today, known findings; (R08.3) TempPool.SetBallot tests and writes the ballot's own (stage point, suffrage-confirm flag) key in one exclusive section of the set lock and writes only if the key does not exist",
		NotDecided: "atomicity of the pool's own exists-then-put (C24); that the pool lookup key and the ballot's stage point coincide for all inputs (C24 R24.2); ballots signed by launch/dev commands outside isaacstates.",
		Run:        runC08,
	})
}

func runC08(c *Ctx) {
	// the pool row of (stage point, suffrage-confirm flag) is what arbitrates: SetBallot tests and
	// writes the ballot's own key in one exclusive section (the same obligations as C24's R24.1/R24.2)
	c.Rule("R08.3", "KeyTable")
	if fn := c.Need("isaac/database.(*TempPool).SetBallot"); fn != nil {
		own := "isaacdatabase.leveldbBallotKey(bl.Point(), isaac.IsSuffrageConfirmBallotFact(bl.SignFact().Fact()))"
		ex := c.CallsTo(fn, "(*storage/leveldb.PrefixStorage).Exists")
		put := c.CallsTo(fn, "(*storage/leveldb.PrefixStorage).Put")
		c.ArgIs(fn, "pool: the existence of the ballot's own (stage point, flag) key is tested", ex, 1, 0, own)
		c.ArgIs(fn, "pool: the ballot is written under its own (stage point, flag) key", put, 1, 0, own)
		c.Held(fn, nil, "pool: test under the set lock", ex, 1, "&db.setlock", LW)
		c.Held(fn, nil, "pool: write under the set lock", put, 1, "&db.setlock", LW)
		if len(ex) == 1 {
			c.MP(fn, "pool: a ballot is written only if its key does not exist yet", put, 1, GFalse(globEscape(c.D(ex[0].(ssa.Value)))+"#0"))
		}
	}
	// R08.4 / R08.1: local sign sites ---------------------------------------------------------------
	c.Rule("R08.4", "WhoMayCall")
	var signs []Site
	for _, s := range c.WhoCalls("(*isaac.*BallotSignFact).NodeSign") {
		if strings.HasPrefix(c.FuncKey(s.Fn), "isaac/states.") {
			signs = append(signs, s)
		}
	}
	c.OnlyIn("local ballot NodeSign", signs, 6,
		"isaac/states.(*baseBallotHandler).makeINITBallot", "isaac/states.(*baseBallotHandler).makeACCEPTBallot",
		"isaac/states.(*baseBallotHandler).makeSuffrageConfirmBallot", "isaac/states.mimicBallot",
		"isaac/states.(*baseBallotHandler).defaultPrepareNextRoundBallot", "isaac/states.(*baseBallotHandler).makeNextRoundBallot",
		"isaac/states.(*baseBallotHandler).makeNextBlockBallot", "isaac/states.(*baseBallotHandler).prepareINITBallot")
	c.Rule("R08.1", "MustPass")
	nHandler := 0
	for _, s := range signs {
		key := c.FuncKey(s.Fn)
		if key == "isaac/states.mimicBallot" {
			continue
		}
		nHandler++
		cc := callCommon(s.In)
		c.Report(s.Fn, "signed with the local key", c.InstrPos(s.In), c.D(cc.Args[1]) == "st.local.Privatekey()", c.D(cc.Args[1]))
		// the signed fact decides which lookup must precede
		recvT := ""
		if c.DependsOn(cc.Args[0], func(v ssa.Value) bool {
			cl, ok := v.(*ssa.Call)
			return ok && CalleeFullName(&cl.Call) == "isaac.NewACCEPTBallotSignFact"
		}) {
			recvT = "ACCEPTBallotSignFact"
		}
		isSC := c.DependsOn(cc.Args[0], func(v ssa.Value) bool {
			cl, ok := v.(*ssa.Call)
			return ok && CalleeFullName(&cl.Call) == "isaac.NewSuffrageConfirmBallotFact"
		}) || sliceHasCall(c, s.Fn, "isaac.NewSuffrageConfirmBallotFact")
		var lookups []string
		switch {
		case strings.Contains(recvT, "ACCEPTBallotSignFact"):
			lookups = []string{`st.ballotBroadcaster.Ballot(*, "ACCEPT", false)`}
		case isSC:
			lookups = []string{`st.ballotBroadcaster.Ballot(*, "INIT", true)`}
		default:
			lookups = []string{`st.ballotBroadcaster.Ballot(*, "INIT", false)`}
		}
		var notFound, ok []Gate
		for _, l := range lookups {
			notFound = append(notFound, GFalse(l+"#1"))
			ok = append(ok, GOk(l))
		}
		c.MP(s.Fn, "local sign only after the pool lookup missed", []ssaInstr{s.In}, 1, notFound...)
		c.MP(s.Fn, "local sign only after the pool lookup succeeded", []ssaInstr{s.In}, 1, ok...)
		// found edge returns the stored ballot
		var stored []ssa.Instruction
		for _, l := range lookups {
			stored = append(stored, c.ReturnsD(s.Fn, 0, l+"#0")...)
		}
		c.Exists(s.Fn, "found edge hands out the stored ballot", stored, 1)
	}
	c.Floor(nil, "handler sign sites", nHandler, 3)
	// mimic path
	if fn := c.Need("isaac/states.mimicBallot"); fn != nil {
		c.OnlyIn("call mimicBallot", c.WhoCalls("isaac/states.mimicBallot"), 1, "isaac/states.(*States).signMimicBallot")
		c.OnlyIn("call signMimicBallot", c.WhoCalls("(*isaac/states.States).signMimicBallot"), 1, "isaac/states.(*States).mimicBallot")
		c.OnlyIn("call States.mimicBallot", c.WhoCalls("(*isaac/states.States).mimicBallot"), 1, "isaac/states.(*States).mimicBallotFunc")
		for _, in := range c.CallsTo(fn, "(*isaac.*BallotSignFact).NodeSign") {
			c.Report(fn, "mimic ballot signed with the given local node's key", c.InstrPos(in), c.D(callCommon(in).Args[1]) == "local.Privatekey()", c.D(callCommon(in).Args[1]))
		}
	}
	if parent := c.Need("isaac/states.(*States).mimicBallotFunc"); parent != nil {
		if cl := c.ClosureWithCall(parent, "call(st.mimicBallot())(bl)"); cl != nil {
			lookup := "st.args.BallotBroadcaster.Ballot(bl.Point(), bl.Point().Stage(), isaac.IsSuffrageConfirmBallotFact(bl.SignFact().Fact()))"
			calls := c.CallsD(cl, "call(st.mimicBallot())(bl)")
			c.MP(cl, "mimic sign only after the pool lookup missed", calls, 1, GFalse(lookup+"#1"))
			c.MP(cl, "mimic sign only after the pool lookup succeeded", calls, 1, GOk(lookup))
			c.MP(cl, "mimic only other nodes' ballots", calls, 1, GFalse("bl.SignFact().Node().Equal(st.local.Address())"))
			b := c.CallsD(cl, "st.args.BallotBroadcaster.Broadcast(*)")
			c.ArgIs(cl, "mimic path broadcasts the stored or the freshly mimicked ballot", b, 2, 0, lookup+"#0", "call(st.mimicBallot())(bl)#0")
		}
		// R08.6: what the local node votes with (its own ballotbox hands it on in voteproofs and answers
		// missing-ballot requests with it) is the ballot the broadcaster settled on, not the freshly signed
		// one: only the broadcaster arbitrates two racing mimics of one stage point
		c.Rule("R08.6", "Dependence")
		n := 0
		for _, f := range WithClosures(parent) {
			for _, v := range c.CallsD(f, "call(var:votef)(*)") {
				n++
				d := c.D(CallArg(v, 0))
				fresh := strings.Contains(d, "call(st.mimicBallot())(bl)#0")
				settled := allOK(c.MustPass(f, nil, []ssa.Instruction{v}, GCalled("st.args.BallotBroadcaster.Broadcast(*)")))
				c.Report(f, "the mimic path votes with the ballot the broadcaster settled on", c.InstrPos(v), !fresh || settled,
					"votes with "+d+" in its own goroutine, before and independently of Broadcast, which may substitute the pool's ballot")
			}
		}
		c.Floor(parent, "local votes of the mimic path", n, 1)
		c.Rule("R08.1", "MustPass")
	}
	if fn := c.Need("isaac/states.(*States).signMimicBallot"); fn != nil {
		calls := c.CallsTo(fn, "isaac/states.mimicBallot")
		c.ArgIs(fn, "mimic signs with the node's own identity", calls, 1, 1, "st.local")
		c.ArgIs(fn, "mimic copies the incoming ballot's fact", calls, 1, 2, "bl.SignFact().Fact()")
	}
	// R08.5: the pool does not purge the current height's local ballot (positive clean depth)
	poolCleanDepthRules(c, "R08.5")
	// R08.7: the pool row is the only memory of "already signed for this stage point": it must not be cleaned
	// while ballots of that point are still accepted — the cleaner's reference height must not be the
	// highest ballot stored (a mimicked ballot of a far height raises it)
	c.Rule("R08.7", "Dependence")
	if cl := c.Need("isaac/database.(*TempPool).cleanByHeight"); cl != nil {
		tableRelative := false
		for _, f := range WithClosures(cl) {
			for _, st := range c.StoresD(f, "&var:top") {
				if c.DependsOnD(st.(*ssa.Store).Val, "isaacdatabase.heightFromKey(*)#0") {
					tableRelative = true
				}
			}
		}
		if cb := c.Need("isaac/database.(*TempPool).cleanBallots"); cb != nil {
			c.Report(cb, "the ballot cleaner measures age from the node's own progress, not from the highest ballot stored", cb.Pos(), !tableRelative,
				"cleanByHeight takes its reference from the table's own top: one stored ballot of a far height lets the cleaner delete the local ballot of a stage point still voted on")
		}
	}
	// R08.2 ----------------------------------------------------------------------------------------
	c.Rule("R08.2", "MustPass")
	if fn := c.Need("isaac/states.(*DefaultBallotBroadcaster).Broadcast"); fn != nil {
		bc := c.CallsD(fn, "call(bb.broadcastFunc)(*)")
		c.MP(fn, "broadcast only after the ballot was stored", bc, 1, GOk("bb.set(bl)"))
		c.ArgIs(fn, "broadcast exactly what the pool decided", bc, 1, 0, "bb.set(bl)#0")
	}
	c.OnlyIn("call DefaultBallotBroadcaster.broadcastFunc", fieldCalls(c, "bb.broadcastFunc"), 1, "isaac/states.(*DefaultBallotBroadcaster).Broadcast")
	if fn := c.Need("isaac/states.(*DefaultBallotBroadcaster).set"); fn != nil {
		setb := "bb.pool.SetBallot(bl)"
		look := "bb.pool.Ballot(bl.Point(), bl.Point().Stage(), isaac.IsSuffrageConfirmBallotFact(bl.SignFact().Fact()))"
		succ := c.SuccessReturns(fn)
		local := GTrue("bl.SignFact().Node().Equal(bb.local)")
		_ = local
		// returning the given ballot is allowed only if: not local, or stored==true, or nothing found in pool
		given := c.ReturnsD(fn, 0, "bl")
		c.MP(fn, "the given local ballot is handed on only if it is the stored one", given, 1,
			GFalse("bl.SignFact().Node().Equal(bb.local)"), GTrue(setb+"#0"), GFalse(look+"#1"))
		c.MP(fn, "a local ballot is handed on only after SetBallot succeeded", succ, 1,
			GFalse("bl.SignFact().Node().Equal(bb.local)"), GOk(setb))
		other := nonMatchingReturns(c, fn, 0, "bl", "nil")
		c.Exists(fn, "already-stored case hands on the pool's ballot", other, 1)
		for _, r := range other {
			c.Report(fn, "handed-on ballot is the one stored for the same stage point", c.InstrPos(r), c.D(RetVal(r.(*ssa.Return), 0)) == look+"#0", c.D(RetVal(r.(*ssa.Return), 0)))
			c.MP(fn, "pool ballot handed on only when found", []ssaInstr{r}, 1, GTrue(look+"#1"))
		}
		c.Held(fn, nil, "store-and-decide under the broadcaster lock", c.CallsD(fn, setb), 1, "&bb.l", LW)
		// E9: the bool of SetBallot is consumed
		used := false
		for _, in := range c.CallsD(fn, setb) {
			if v, ok := in.(ssa.Value); ok && v.Referrers() != nil {
				for _, r := range *v.Referrers() {
					if ex, ok := r.(*ssa.Extract); ok && ex.Index == 0 && ex.Referrers() != nil && len(*ex.Referrers()) > 0 {
						used = true
					}
				}
			}
		}
		c.Report(fn, "first-writer-wins answer of SetBallot is consulted", fn.Pos(), used, "Extract #0 of SetBallot has a use")
	}
}

// fieldCalls: calls of a function-typed field, by descriptor of the callee value.
func fieldCalls(c *Ctx, calleeD string) []Site {
	var out []Site
	for _, fn := range c.Funcs {
		for _, in := range allInstrs(fn) {
			cc := callCommon(in)
			if cc == nil || cc.IsInvoke() {
				continue
			}
			if _, isF := cc.Value.(*ssa.Function); isF {
				continue
			}
			if c.D(cc.Value) == calleeD {
				out = append(out, Site{fn, in})
			}
		}
	}
	return out
}

func sliceHasCall(c *Ctx, fn *ssa.Function, callee string) bool {
	return len(c.CallsTo(fn, callee)) > 0
}
