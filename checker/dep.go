package main

import (
	"go/token"
	"go/types"

	"golang.org/x/tools/go/ssa"
)

// BackSlice returns the set of values v is data-dependent on within its function (closure over
// instruction operands; loads from non-lifted locals continue through all stores to that local;
// calls contribute all their arguments; control dependence is NOT included).
func (p *Prog) BackSlice(v ssa.Value) map[ssa.Value]bool {
	seen := map[ssa.Value]bool{}
	var walk func(x ssa.Value)
	walk = func(x ssa.Value) {
		if x == nil || seen[x] {
			return
		}
		seen[x] = true
		if u, ok := x.(*ssa.UnOp); ok && u.Op == token.MUL {
			var al *ssa.Alloc
			switch a := u.X.(type) {
			case *ssa.Alloc:
				al = a
			case *ssa.FreeVar:
				al = p.freeVarAlloc(a)
			}
			if al != nil {
				for _, st := range p.storesTo(al) {
					walk(st.Val)
				}
			}
		}
		if fv, ok := x.(*ssa.FreeVar); ok {
			if b := p.freeVarBinding(fv); b != nil {
				walk(b)
			}
		}
		in, ok := x.(ssa.Instruction)
		if !ok {
			return
		}
		var ops []*ssa.Value
		for _, o := range in.Operands(ops) {
			if *o != nil {
				walk(*o)
			}
		}
	}
	walk(v)
	return seen
}

// DependsOn: v is data-dependent on a value satisfying pred.
func (p *Prog) DependsOn(v ssa.Value, pred func(ssa.Value) bool) bool {
	for x := range p.BackSlice(v) {
		if pred(x) {
			return true
		}
	}
	return false
}

// DependsOnD: v is data-dependent on a value whose descriptor matches pat.
func (p *Prog) DependsOnD(v ssa.Value, pat string) bool {
	pp := P(pat)
	return p.DependsOn(v, func(x ssa.Value) bool { return pp.Match(p.D(x)) })
}

func isFloat(t types.Type) bool {
	b, ok := t.Underlying().(*types.Basic)
	return ok && b.Info()&types.IsFloat != 0
}

func isInteger(t types.Type) bool {
	b, ok := t.Underlying().(*types.Basic)
	return ok && b.Info()&types.IsInteger != 0
}

// ParamNamed finds a parameter (incl. receiver) by name.
func ParamNamed(fn *ssa.Function, name string) *ssa.Parameter {
	for _, p := range fn.Params {
		if p.Name() == name {
			return p
		}
	}
	return nil
}

// stripConv peels conversions.
func stripConv(v ssa.Value) ssa.Value {
	for {
		switch x := v.(type) {
		case *ssa.Convert:
			v = x.X
		case *ssa.ChangeType:
			v = x.X
		default:
			return v
		}
	}
}
