package main

import (
	"go/token"
	"go/types"

	"golang.org/x/tools/go/ssa"
)

// BackSlice returns the set of values v is data-dependent on within its function (closure over
// instruction operands; loads from non-lifted locals continue through all stores to that local;
// calls contribute all their arguments; control dependence is NOT included).
func (p *Prog) BackSlice(v ssa.Value) map[ssa.Value]bool {
	seen := map[ssa.Value]bool{}
	var walk func(x ssa.Value)
	walk = func(x ssa.Value) {
		if x == nil || seen[x] {
			return
		}
		seen[x] = true
		if u, ok := x.(*ssa.UnOp); ok && u.Op == token.MUL {
			var al *ssa.Alloc
			switch a := u.X.(type) {
			case *ssa.Alloc:
				al = a
			case *ssa.FreeVar:
				al = p.freeVarAlloc(a)
			}
			if al != nil {
				for _, st := range p.storesTo(al) {
					walk(st.Val)
				}
			}
		}
		if fv, ok := x.(*ssa.FreeVar); ok {
			if b := p.freeVarBinding(fv); b != nil {
				walk(b)
			}
		}
		if al, ok := x.(*ssa.Alloc); ok {
			// the address of a local: what was stored there flows to whoever uses the address
			for _, st := range p.storesTo(al) {
				walk(st.Val)
			}
			// element / field stores into a local aggregate (varargs arrays, struct literals)
			for _, in := range allInstrs(al.Parent()) {
				if st, ok := in.(*ssa.Store); ok && addrBase(st.Addr) == ssa.Value(al) && st.Addr != ssa.Value(al) {
					walk(st.Val)
				}
			}
		}
		in, ok := x.(ssa.Instruction)
		if !ok {
			return
		}
		var ops []*ssa.Value
		for _, o := range in.Operands(ops) {
			if *o != nil {
				walk(*o)
			}
		}
	}
	walk(v)
	return seen
}

// DependsOn: v is data-dependent on a value satisfying pred.
func (p *Prog) DependsOn(v ssa.Value, pred func(ssa.Value) bool) bool {
	for x := range p.BackSlice(v) {
		if pred(x) {
			return true
		}
	}
	return false
}

// DependsOnD: v is data-dependent on a value whose descriptor matches pat.
func (p *Prog) DependsOnD(v ssa.Value, pat string) bool {
	pp := P(pat)
	return p.DependsOn(v, func(x ssa.Value) bool { return pp.Match(p.D(x)) })
}

func isFloat(t types.Type) bool {
	b, ok := t.Underlying().(*types.Basic)
	return ok && b.Info()&types.IsFloat != 0
}

func isInteger(t types.Type) bool {
	b, ok := t.Underlying().(*types.Basic)
	return ok && b.Info()&types.IsInteger != 0
}

// ParamNamed finds a parameter (incl. receiver) by name.
func ParamNamed(fn *ssa.Function, name string) *ssa.Parameter {
	for _, p := range fn.Params {
		if p.Name() == name {
			return p
		}
	}
	return nil
}

// stripConv peels conversions.
func stripConv(v ssa.Value) ssa.Value {
	for {
		switch x := v.(type) {
		case *ssa.Convert:
			v = x.X
		case *ssa.ChangeType:
			v = x.X
		default:
			return v
		}
	}
}

// Roots traces a value back to where it comes from, across functions: conversions and phis are
// transparent, a parameter of a named function continues at every static call site in the tree,
// a load of a local continues at its stores, and a call for which `through` returns an argument
// continues at that argument (order-/identity-preserving helpers). Everything else is a root.
func (p *Prog) Roots(v ssa.Value, through func(c *ssa.Call) ssa.Value, depth int) []ssa.Value {
	seen := map[ssa.Value]bool{}
	var roots []ssa.Value
	var walk func(x ssa.Value, d int)
	walk = func(x ssa.Value, d int) {
		if x == nil || seen[x] {
			return
		}
		seen[x] = true
		switch y := x.(type) {
		case *ssa.Convert:
			walk(y.X, d)
			return
		case *ssa.ChangeType:
			walk(y.X, d)
			return
		case *ssa.ChangeInterface:
			walk(y.X, d)
			return
		case *ssa.MakeInterface:
			walk(y.X, d)
			return
		case *ssa.Phi:
			for _, e := range y.Edges {
				walk(e, d)
			}
			return
		case *ssa.UnOp:
			if y.Op == token.MUL {
				var al *ssa.Alloc
				switch a := y.X.(type) {
				case *ssa.Alloc:
					al = a
				case *ssa.FreeVar:
					al = p.freeVarAlloc(a)
				}
				if al != nil {
					sts := p.storesTo(al)
					if len(sts) > 0 {
						for _, st := range sts {
							walk(st.Val, d)
						}
						return
					}
				}
			}
		case *ssa.FreeVar:
			if b := p.freeVarBinding(y); b != nil {
				walk(b, d)
				return
			}
		case *ssa.Call:
			if through != nil {
				if a := through(y); a != nil {
					walk(a, d)
					return
				}
			}
		case *ssa.Parameter:
			fn := y.Parent()
			if d > 0 && fn.Parent() == nil {
				idx := -1
				for i, prm := range fn.Params {
					if prm == y {
						idx = i
					}
				}
				var sites []Site
				for _, caller := range p.Funcs {
					for _, in := range allInstrs(caller) {
						if cc := callCommon(in); cc != nil && CalleeOf(cc) == fn {
							sites = append(sites, Site{caller, in})
						}
					}
				}
				if idx >= 0 && len(sites) > 0 {
					for _, s := range sites {
						cc := callCommon(s.In)
						if idx < len(cc.Args) {
							walk(cc.Args[idx], d-1)
						}
					}
					return
				}
			}
		}
		roots = append(roots, x)
	}
	walk(v, depth)
	return roots
}

// addrBase follows IndexAddr/FieldAddr chains to the underlying pointer.
func addrBase(v ssa.Value) ssa.Value {
	for {
		switch x := v.(type) {
		case *ssa.IndexAddr:
			v = x.X
		case *ssa.FieldAddr:
			v = x.X
		default:
			return v
		}
	}
}
