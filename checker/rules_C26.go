package main

import (
	"fmt"
	"sort"
	"strings"

	"golang.org/x/tools/go/ssa"
)

func init() {
	Register(&Property{
		ID: "C26",
		Decides: "sibling agreement of the two permanent back-ends, not their behaviour: " +
			"(R26.1) both merges publish the same eight last-value components of the merged temp database only after all storage writes succeeded, merge the temp's caches and then drop the merged block's state keys from the state cache; " +
			"(R26.2) the Redis merge copies exactly the key families the block writer writes (every family has a merge step; every step copies the stored bytes unchanged under a Redis key built from the leveldb key or value); " +
			"(R26.3) every Redis key builder / sorted-set name used by a reader is used by the merge and vice versa; " +
			"(R26.4) each read method consults the same last-value shortcuts under the same height comparisons and decodes with the same frame reader in both back-ends; the by-block-height lookup of both takes the newest record at or below the height. A height inside a Redis key is rendered fixed-width (the indexes are ordered lexicographically).",
		NotDecided: "read equivalence over histories; Redis' own semantics (lexicographic ZRANGE, NX); that FixedString() orders like the height.",
		Run:        runC26,
	})
}

// semanticCallees: callees of fn (closures included, one level into same-receiver helpers) that matter
// for what a read answers: last-value shortcuts of basePermanent, frame readers, cache accessors.
func semanticCallees(c *Ctx, fn *ssa.Function) []string {
	set := map[string]bool{}
	var walk func(f *ssa.Function, d int)
	walk = func(f *ssa.Function, d int) {
		for _, g := range WithClosures(f) {
			for _, in := range allInstrs(g) {
				cc := callCommon(in)
				if cc == nil {
					continue
				}
				n := CalleeFullName(cc)
				switch {
				case strings.HasPrefix(n, "(*isaac/database.basePermanent)."),
					n == "isaac/database.compareWithLastSuffrageProof",
					n == "isaac/database.ReadDecodeFrame", n == "isaac/database.ReadOneHeaderFrame", n == "isaac/database.ReadFrame",
					n == "isaac/database.ReadDecodeOneHeaderFrame":
					set[n] = true
				case d > 0 && (strings.HasPrefix(n, "(*isaac/database.RedisPermanent).") || strings.HasPrefix(n, "(*isaac/database.LeveldbPermanent).") ||
					strings.HasPrefix(n, "(*isaac/database.baseLeveldb).exists")):
					if cal := CalleeOf(cc); cal != nil && cal.Blocks != nil {
						walk(cal, d-1)
					}
				}
				if cc.IsInvoke() && len(c.D(cc.Value)) > 0 && (c.D(cc.Value) == "db.instateoperationcache" || c.D(cc.Value) == "db.stcache") {
					set["cache:"+c.D(cc.Value)+"."+cc.Method.Name()] = true
				}
				// method values (db.LastSuffrageProof passed as a function)
				for _, a := range cc.Args {
					if mc, ok := a.(*ssa.MakeClosure); ok {
						if bf, ok := mc.Fn.(*ssa.Function); ok && strings.Contains(bf.Name(), "$bound") {
							set["bound:"+bf.Name()] = true
						}
					}
				}
			}
		}
	}
	walk(fn, 1)
	var out []string
	for k := range set {
		out = append(out, k)
	}
	sort.Strings(out)
	return out
}

// heightConds: the branch conditions of fn that compare the queried height with a last value.
func heightConds(c *Ctx, fn *ssa.Function, param string) []string {
	set := map[string]bool{}
	for _, g := range WithClosures(fn) {
		for _, b := range g.Blocks {
			if len(b.Instrs) == 0 {
				continue
			}
			ifi, ok := b.Instrs[len(b.Instrs)-1].(*ssa.If)
			if !ok {
				continue
			}
			d := canonCond(c, ifi.Cond, map[ssa.Value]bool{})
			if strings.Contains(d, param) && strings.Contains(d, "db.Last") {
				set[d] = true
			}
		}
	}
	var out []string
	for k := range set {
		out = append(out, k)
	}
	sort.Strings(out)
	return out
}

func runC26(c *Ctx) {
	// Redis keeps its indexes in lexicographic order: a height inside a Redis key is rendered fixed-width
	// (FixedString), never by the plain decimal String (bmp-9 would sort after bmp-10)
	c.Rule("R26.3", "KeyTable")
	nh := 0
	for _, fn := range c.FuncsWithPrefix("isaac/database.redis") {
		if fn.Parent() != nil {
			continue
		}
		for _, prm := range fn.Params {
			if !strings.HasSuffix(prm.Type().String(), "base.Height") {
				continue
			}
			nh++
			var plain, fixed int
			for _, in := range allInstrs(fn) {
				cc := callCommon(in)
				if cc == nil || len(cc.Args) == 0 || stripConv(cc.Args[0]) != ssa.Value(prm) {
					continue
				}
				switch {
				case strings.HasSuffix(CalleeFullName(cc), ".FixedString"):
					fixed++
				case strings.HasSuffix(CalleeFullName(cc), ".String"), strings.HasSuffix(CalleeFullName(cc), ".Int64"):
					plain++
				}
			}
			c.Report(fn, "a height in a Redis key is rendered fixed-width", fn.Pos(), fixed >= 1 && plain == 0, fmt.Sprintf("FixedString calls %d, plain renderings %d", fixed, plain))
		}
	}
	c.Floor(nil, "Redis key builders taking a height", nh, 3)
	const L, R = "isaac/database.(*LeveldbPermanent).", "isaac/database.(*RedisPermanent)."
	// R26.1 --------------------------------------------------------------------------------------
	c.Rule("R26.1", "SiblingAgreement")
	for _, t := range []struct{ key, written string }{
		{L + "mergeTempDatabaseFromLeveldb", "*.Wait()"},
		{R + "mergeTempDatabaseFromLeveldb", "util.RunJobWorkerByJobs(*)"},
	} {
		fn := c.Need(t.key)
		if fn == nil {
			continue
		}
		who := strings.TrimPrefix(strings.TrimPrefix(t.key, "isaac/database.(*"), "")
		who = who[:strings.Index(who, ")")]
		ul := c.CallsD(fn, "db.updateLast(*)")
		for i, want := range []string{"temp.enc.Hint().String()", "temp.mp", "temp.mpmeta", "temp.mpbody", "temp.proof", "temp.proofmeta", "temp.proofbody", "temp.policy"} {
			c.ArgIs(fn, fmt.Sprintf("%s: last values published from the merged temp: argument %d", who, i), ul, 1, i, want)
		}
		c.MP(fn, who+": last values published only after every storage write succeeded", ul, 1, GOk(t.written))
		succ := c.SuccessReturns(fn)
		c.MP(fn, who+": success only after every storage write succeeded", succ, 1, GOk(t.written))
		c.MP(fn, who+": success only after the last values were published", succ, 1, GCalled("db.updateLast(*)"))
		c.MP(fn, who+": success only after the temp's caches were merged", succ, 1, GCalled("db.mergeTempCaches(*)"))
		c.MP(fn, who+": success only after the state cache dropped the merged block's state keys", succ, 1, GOk("temp.iterStateKeys(*)"))
		purge := c.CallsD(fn, "temp.iterStateKeys(*)")
		c.MP(fn, who+": state keys dropped after the temp's cache was merged (a merged stale entry cannot survive)", purge, 1,
			GCalled("db.mergeTempCaches(*)"))
		if cl := c.ClosureWithCall(fn, "db.removeStateFromCache(stateKey)"); cl != nil {
			c.Report(cl, who+": every state key of the merged block is dropped", cl.Pos(), len(c.ReturnsD(cl, 0, "false")) == 0, "")
		} else {
			c.Unresolved(fn, who+": cache purge callback", "not found")
		}
	}
	// R26.2 --------------------------------------------------------------------------------------
	c.Rule("R26.2", "KeyTable")
	// key families the block writer writes: globals referenced by the key builders it calls
	written := map[string]string{} // prefix global -> builder
	for _, fn := range c.FuncsWithPrefix("isaac/database.(*LeveldbBlockWrite).") {
		for _, in := range allInstrs(fn) {
			cc := callCommon(in)
			if cc == nil {
				continue
			}
			name := CalleeFullName(cc)
			if !(strings.HasSuffix(name, ".batchAdd") || strings.HasSuffix(name, ".Put")) || len(cc.Args) < 2 {
				continue
			}
			kc, ok := cc.Args[1].(*ssa.Call)
			if !ok {
				continue
			}
			b := CalleeOf(&kc.Call)
			if b == nil || !strings.HasPrefix(b.Name(), "leveldb") {
				continue
			}
			for _, g := range prefixGlobals(c, b) {
				written[g] = b.Name()
			}
		}
	}
	c.Floor(nil, "key families written by the block writer", len(written), 6)
	merged := map[string]*ssa.Function{}
	famBuilder := map[string]string{} // leveldb key family global -> redis key builder of the merge step
	if parent := c.Need(R + "mergeTempDatabaseFromLeveldb"); parent != nil {
		for _, step := range c.FuncsWithPrefix(R + "merge") {
			if step == parent || step.Parent() != nil {
				continue
			}
			for _, in := range c.CallsTo(step, "(*storage/leveldb.PrefixStorage).Iter") {
				d := c.D(CallArg(in, 0))
				if !strings.HasPrefix(d, "util.BytesPrefix(isaacdatabase.") {
					c.Report(step, "merge step iterates one key family", c.InstrPos(in), false, d)
					continue
				}
				g := strings.TrimSuffix(strings.TrimPrefix(d, "util.BytesPrefix(isaacdatabase."), "[:])")
				merged[g] = step
				// the step is reached from the merge and its failure fails the merge
				// copied bytes are the stored bytes, under a key derived from the stored key or value
				if mc, ok := CallArg(in, 1).(*ssa.MakeClosure); ok {
					cb := mc.Fn.(*ssa.Function)
					sets := c.CallsTo(cb, "(*storage/redis.Storage).Set")
					if c.Exists(cb, "family "+g+": copied with Set", sets, 1) {
						c.ArgIs(cb, "family "+g+": the stored bytes are copied unchanged", sets, 1, 2, "b")
						for _, s := range sets {
							kd := c.D(CallArg(s, 1))
							okKey := strings.HasPrefix(kd, "isaacdatabase.redis") && (strings.Contains(kd, "(key)") || strings.Contains(kd, "(b)") ||
								strings.Contains(kd, "(k,") || strings.Contains(kd, "(string(b))") || strings.Contains(kd, "valuehash.Bytes(b)"))
							c.Report(cb, "family "+g+": Redis key is built from the iterated key or value", c.InstrPos(s), okKey, kd)
						}
					}
					c.MP(cb, "family "+g+": copy continues only after the record was set", c.ReturnsD(cb, 0, "true"), 1, GOkTo("(*storage/redis.Storage).Set"))
				} else {
					c.Unresolved(step, "family "+g+": copy callback", c.D(CallArg(in, 1)))
				}
				c.ArgIs(step, "family "+g+": iterated in full", []ssa.Instruction{in}, 1, 2, "true", "false")
				// the step succeeds only after this family was copied (tail call counts)
				c.MP(step, "family "+g+": the step succeeds only after the family was iterated", c.SuccessReturns(step), 1, GOk(c.D(in.(ssa.Value))))
				famBuilder[g] = redisBuilderOf(c, CallArg(in, 1))
			}
			// step wired into the merge
			n := 0
			for _, f := range WithClosures(parent) {
				for _, in := range allInstrs(f) {
					if cc := callCommon(in); cc != nil && CalleeOf(cc) == step {
						n++
						c.MP(f, "merge fails if step "+step.Name()+" fails", c.SuccessReturns(f), 1, GOkTo("(*isaac/database.RedisPermanent)."+step.Name()))
					}
				}
			}
			c.Report(parent, "merge runs step "+step.Name(), parent.Pos(), n == 1, fmt.Sprintf("%d call sites", n))
		}
	}
	var wk []string
	for g := range written {
		wk = append(wk, g)
	}
	sort.Strings(wk)
	for _, g := range wk {
		c.Report(nil, "written key family "+g+" ("+written[g]+") has a Redis merge step", 0, merged[g] != nil, "")
	}
	for g := range merged {
		if written[g] == "" {
			c.Report(merged[g], "merged key family "+g+" is written by the block writer", merged[g].Pos(), false, "")
		}
	}
	// R26.3 --------------------------------------------------------------------------------------
	c.Rule("R26.3", "KeyTable")
	users := map[string][2]int{} // redis key builder / zset name -> [writers, readers]
	for _, fn := range c.FuncsWithPrefix(R) {
		root := fn
		for root.Parent() != nil {
			root = root.Parent()
		}
		isW := strings.HasPrefix(root.Name(), "merge")
		for _, in := range allInstrs(fn) {
			if cc := callCommon(in); cc != nil {
				if b := CalleeOf(cc); b != nil && strings.HasPrefix(b.Name(), "redis") && b.Pkg != nil && b.Pkg.Pkg.Name() == "isaacdatabase" && b.Name() != "redisStateKey" {
					u := users[b.Name()]
					if isW {
						u[0]++
					} else {
						u[1]++
					}
					users[b.Name()] = u
				}
			}
			var ops []*ssa.Value
			for _, o := range in.Operands(ops) {
				if g, ok := (*o).(*ssa.Global); ok && strings.HasPrefix(g.Name(), "redisZKey") {
					u := users[g.Name()]
					if isW {
						u[0]++
					} else {
						u[1]++
					}
					users[g.Name()] = u
				}
			}
		}
	}
	var names []string
	for k := range users {
		names = append(names, k)
	}
	sort.Strings(names)
	c.Floor(nil, "Redis key builders and sorted-set names in use", len(names), 7)
	for _, k := range names {
		u := users[k]
		if k == "redisStateKeyFromLeveldb" {
			// writer-side form of redisStateKey (strips the leveldb family prefix)
			c.Report(nil, "Redis key "+k+" is written by the merge", 0, u[0] >= 1, fmt.Sprintf("writers %d readers %d", u[0], u[1]))
			continue
		}
		c.Report(nil, "Redis key "+k+" is both written by the merge and read", 0, u[0] >= 1 && u[1] >= 1, fmt.Sprintf("writers %d readers %d", u[0], u[1]))
	}
	if fn := c.Need("isaac/database.redisStateKeyFromLeveldb"); fn != nil {
		c.Exists(fn, "state key of the merge is the reader's state key of the unprefixed leveldb key", c.ReturnsD(fn, 0, "isaacdatabase.redisStateKey(b[2:])"), 1)
	}
	// R26.4 --------------------------------------------------------------------------------------
	c.Rule("R26.4", "SiblingAgreement")
	for _, m := range []struct{ name, param string }{
		{"SuffrageProof", "suffrageHeight"}, {"SuffrageProofBytes", "suffrageHeight"}, {"SuffrageProofByBlockHeight", "height"},
		{"State", "key"}, {"StateBytes", "key"}, {"ExistsInStateOperation", "h"}, {"ExistsKnownOperation", "h"},
		{"BlockMap", "height"}, {"BlockMapBytes", "height"},
	} {
		lf, rf := c.Need(L+m.name), c.Need(R+m.name)
		if lf == nil || rf == nil {
			continue
		}
		ls, rs := strings.Join(semanticCallees(c, lf), ", "), strings.Join(semanticCallees(c, rf), ", ")
		c.Report(rf, m.name+": both back-ends consult the same last-value shortcuts, caches and frame readers", rf.Pos(), ls == rs,
			"leveldb: ["+ls+"]; redis: ["+rs+"]")
		if m.param != "" {
			lc, rc := strings.Join(heightConds(c, lf, m.param), " ; "), strings.Join(heightConds(c, rf, m.param), " ; ")
			c.Report(rf, m.name+": both back-ends compare the query with the last values the same way", rf.Pos(), lc == rc, "leveldb: ["+lc+"]; redis: ["+rc+"]")
		}
	}
	// both back-ends answer each read from the same key family: leveldb builder -> family -> the
	// redis builder the merge copies that family under
	lb2fam := map[string]string{}
	for g, b := range written {
		lb2fam[b] = g
	}
	for _, m := range []string{"SuffrageProof", "SuffrageProofBytes", "SuffrageProofByBlockHeight", "State", "StateBytes",
		"ExistsInStateOperation", "ExistsKnownOperation", "BlockMap", "BlockMapBytes"} {
		lf, rf := c.Need(L+m), c.Need(R+m)
		if lf == nil || rf == nil {
			continue
		}
		want := map[string]bool{}
		unresolved := ""
		for lb := range buildersUsed(c, lf, "leveldb", 1) {
			fam, ok := lb2fam[lb]
			if !ok || famBuilder[fam] == "" {
				unresolved = lb
				continue
			}
			want[famBuilder[fam]] = true
		}
		got := buildersUsed(c, rf, "redis", 1)
		if unresolved != "" {
			c.Unresolved(rf, m+": key family of leveldb builder "+unresolved, "no merge step copies it")
			continue
		}
		ws, gs := strings.Join(sortedKeys(want), ","), strings.Join(sortedKeys(got), ",")
		c.Report(rf, m+": both back-ends read the same key family", rf.Pos(), ws == gs && ws != "", "leveldb reads family copied under ["+ws+"]; redis reads ["+gs+"]")
	}
	// reload of the last values: newest member of the sorted set, bounds inclusive
	if fn := c.Need(R + "loadLast"); fn != nil {
		var zr []ssa.Instruction
		for _, f := range WithClosures(fn) {
			zr = append(zr, c.CallsTo(f, "(*storage/redis.Storage).ZRangeArgs")...)
		}
		if c.Exists(fn, "last-value reload scans the sorted set", zr, 1) {
			fields := structLitFields(c, fn, CallArg(zr[0], 1))
			for _, w := range [][2]string{
				{"Key", "zkey"}, {"Start", "(\"[\" + begin)"}, {"Stop", "(\"[\" + end)"}, {"ByLex", "true"}, {"Rev", "true"}, {"Count", "1"},
			} {
				c.Report(fn, "last-value reload: "+w[0]+" = "+w[1]+" (newest member, both bounds inclusive)", c.InstrPos(zr[0]), fields[w[0]] == w[1], "got "+fields[w[0]])
			}
		}
	}
	for _, t := range []struct{ fn, z, b, e string }{
		{"loadLastBlockMap", "isaacdatabase.redisZKeyBlockMaps", "isaacdatabase.redisZBeginBlockMaps", "isaacdatabase.redisZEndBlockMaps"},
		{"loadLastSuffrageProof", "isaacdatabase.redisZKeySuffrageProofsByBlockHeight", "isaacdatabase.redisZBeginSuffrageProofsByBlockHeight", "isaacdatabase.redisZEndSuffrageProofsByBlockHeight"},
	} {
		if fn := c.Need(R + t.fn); fn != nil {
			ll := c.CallsD(fn, "db.loadLast(*)")
			c.ArgIs(fn, t.fn+": scans its own sorted set", ll, 1, 0, t.z)
			c.ArgIs(fn, t.fn+": from the genesis member", ll, 1, 1, t.b)
			c.ArgIs(fn, t.fn+": to the largest possible member", ll, 1, 2, t.e)
		}
	}
	// by-block-height: newest record at or below the height, in both
	if fn := c.Need(R + "SuffrageProofByBlockHeight"); fn != nil {
		var zr []ssa.Instruction
		for _, f := range WithClosures(fn) {
			zr = append(zr, c.CallsTo(f, "(*storage/redis.Storage).ZRangeArgs")...)
		}
		if c.Exists(fn, "redis by-height lookup scans the sorted set", zr, 1) {
			fields := structLitFields(c, fn, CallArg(zr[0], 1))
			for _, w := range [][2]string{
				{"Key", "isaacdatabase.redisZKeySuffrageProofsByBlockHeight"},
				{"Stop", "(\"[\" + isaacdatabase.redisSuffrageProofByBlockHeightKey(height))"},
				{"Start", "(\"[\" + isaacdatabase.redisZBeginSuffrageProofsByBlockHeight)"},
				{"ByLex", "true"}, {"Rev", "true"}, {"Count", "1"},
			} {
				c.Report(fn, "redis by-height lookup: "+w[0]+" = "+w[1]+" (newest record at or below the height, inclusive)", c.InstrPos(zr[0]), fields[w[0]] == w[1], "got "+fields[w[0]])
			}
		}
	}
}

// redisBuilderOf: the redis key builder called in the copy callback cb (a MakeClosure value).
func redisBuilderOf(c *Ctx, cbv ssa.Value) string {
	mc, ok := cbv.(*ssa.MakeClosure)
	if !ok {
		return ""
	}
	for _, in := range allInstrs(mc.Fn.(*ssa.Function)) {
		if cc := callCommon(in); cc != nil {
			if b := CalleeOf(cc); b != nil && strings.HasPrefix(b.Name(), "redis") && strings.HasSuffix(b.Name(), "Key") || (b != nil && b.Name() == "redisStateKeyFromLeveldb") {
				if b.Name() == "redisStateKeyFromLeveldb" {
					return "redisStateKey"
				}
				return b.Name()
			}
		}
	}
	return ""
}

// buildersUsed: key builders (name prefix) called by fn, its closures and, one level down, by the
// helper methods of the same database types it calls.
func buildersUsed(c *Ctx, fn *ssa.Function, prefix string, depth int) map[string]bool {
	out := map[string]bool{}
	for _, f := range WithClosures(fn) {
		for _, in := range allInstrs(f) {
			cc := callCommon(in)
			if cc == nil {
				continue
			}
			b := CalleeOf(cc)
			if b == nil {
				continue
			}
			if strings.HasPrefix(b.Name(), prefix) && strings.HasSuffix(b.Name(), "Key") && b.Signature.Recv() == nil {
				out[b.Name()] = true
				continue
			}
			n := CalleeFullName(cc)
			if depth > 0 && b.Blocks != nil && (strings.HasPrefix(n, "(*isaac/database.RedisPermanent).") || strings.HasPrefix(n, "(*isaac/database.LeveldbPermanent).") || strings.HasPrefix(n, "(*isaac/database.baseLeveldb).")) &&
				!strings.HasSuffix(n, ".st") && !strings.Contains(n, ").Last") {
				for k := range buildersUsed(c, b, prefix, depth-1) {
					out[k] = true
				}
			}
		}
	}
	return out
}

// prefixGlobals: the leveldbKey*/leveldbKeyPrefix* globals a key builder references.
func prefixGlobals(c *Ctx, b *ssa.Function) []string {
	set := map[string]bool{}
	for _, in := range allInstrs(b) {
		var ops []*ssa.Value
		for _, o := range in.Operands(ops) {
			if g, ok := (*o).(*ssa.Global); ok && strings.HasPrefix(g.Name(), "leveldbKey") {
				set[g.Name()] = true
			}
		}
	}
	var out []string
	for k := range set {
		out = append(out, k)
	}
	sort.Strings(out)
	return out
}

// structLitFields: v is (a load of) a local struct literal; field name -> descriptor of the stored value.
func structLitFields(c *Ctx, fn *ssa.Function, v ssa.Value) map[string]string {
	out := map[string]string{}
	if u, ok := v.(*ssa.UnOp); ok {
		v = u.X
	}
	al, ok := v.(*ssa.Alloc)
	if !ok {
		return out
	}
	for _, in := range allInstrs(al.Parent()) {
		st, ok := in.(*ssa.Store)
		if !ok {
			continue
		}
		fa, ok := st.Addr.(*ssa.FieldAddr)
		if !ok || fa.X != ssa.Value(al) {
			continue
		}
		out[fieldName(fa)] = c.D(st.Val)
	}
	return out
}

// canonCond renders a branch condition so that operand order and the side a comparison is written
// from do not matter: a == b sorts its operands, a > b becomes b < a, short-circuit phis list their
// (sorted) leaves.
func canonCond(c *Ctx, v ssa.Value, seen map[ssa.Value]bool) string {
	if seen[v] {
		return "↺"
	}
	seen[v] = true
	switch x := v.(type) {
	case *ssa.BinOp:
		a, b := c.D(x.X), c.D(x.Y)
		switch x.Op.String() {
		case "==", "!=":
			if b < a {
				a, b = b, a
			}
			return "(" + a + " " + x.Op.String() + " " + b + ")"
		case ">":
			return "(" + b + " < " + a + ")"
		case ">=":
			return "(" + b + " <= " + a + ")"
		case "<", "<=":
			return "(" + a + " " + x.Op.String() + " " + b + ")"
		}
	case *ssa.UnOp:
		if x.Op.String() == "!" {
			return "!" + canonCond(c, x.X, seen)
		}
	case *ssa.Phi:
		var parts []string
		for _, e := range x.Edges {
			parts = append(parts, canonCond(c, e, seen))
		}
		sort.Strings(parts)
		return "φ(" + strings.Join(parts, "|") + ")"
	}
	return c.D(v)
}
