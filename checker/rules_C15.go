package main

import (
	"golang.org/x/tools/go/ssa"
)

func init() {
	Register(&Property{
		ID: "C15",
		Decides: "(R15.1) BatchWork drops no batch's error; ImportBlocks reports success only after BatchWork succeeded and the importers of the last batch were saved (no bypass around the final saveImporters) for the whole range to-from+1; " +
			"(R15.2) a batch's importer list is replaced only after the previous batch's importers were saved; every imported block's importer is stored in the batch list, and only after importBlock succeeded for the map fetched for that height; " +
			"(R15.3) saveImporters succeeds only after every importer's Save succeeded, every deferred merge function ran, and the database merge callback succeeded; (R15.4) an importer's Save succeeds only if isfinished answered true, and isfinished answers true only if every item of the block map is recorded finished.; (R15.j) jobs handed to a worker read only captured variables that the submitter does not assign again (no job works on a later batch/slot than the one it was created for)",
		NotDecided: "that BatchWork visits every index exactly once (C33); slot arithmetic of the batch list over runtime heights; the rest of the importers' own Save (C16/C21).",
		Run:        runC15,
	})
}

func runC15(c *Ctx) {
	c.Rule("R15.j", "AsyncCapture")
	c.AsyncCaptures(c.Need("isaac/block.importBlock"), "*.NewJob", 1)
	parent := c.Need("isaac/block.ImportBlocks")
	if parent == nil {
		return
	}
	batchWorkErrRules(c, "R15.1")
	c.Rule("R15.1", "MustPass")
	succ := c.SuccessReturns(parent)
	c.MP(parent, "success: BatchWork succeeded", succ, 1, GOkTo("util.BatchWork"))
	c.MP(parent, "success: the last batch's importers were saved", succ, 1, GOk("isaacblock.saveImporters(ctx, var:ims, mergeBlockWriterDatabasesf)"))
	bw := c.CallsTo(parent, "util.BatchWork")
	c.ArgIs(parent, "range is to - from + 1 blocks", bw, 1, 1, "((to - from) + 1).Int64()")
	c.ArgIs(parent, "batch limit handed on", bw, 1, 2, "batchlimit")
	final := c.CallsD(parent, "isaacblock.saveImporters(*)")
	c.MP(parent, "final save after BatchWork succeeded", final, 1, GOkTo("util.BatchWork"))
	// R15.2
	c.Rule("R15.2", "MustPass")
	if pref := c.ClosureWithStore(parent, "&var:ims"); pref != nil {
		sts := c.StoresD(pref, "&var:ims")
		c.MP(pref, "batch list replaced only after the previous batch was saved (or there was none)", sts, 2,
			GNil("var:ims"), GOk("isaacblock.saveImporters(ctx, var:ims, mergeBlockWriterDatabasesf)"))
		c.MP(pref, "batch preparation succeeds only if the previous batch was saved", c.SuccessReturns(pref), 1,
			GNil("var:ims"), GOk("isaacblock.saveImporters(ctx, var:ims, mergeBlockWriterDatabasesf)"))
	}
	if job := c.ClosureWithCall(parent, "isaacblock.importBlock(*)"); job != nil {
		h := "(from + i)"
		m := "call(blockMapf)(ctx, " + h + ")"
		im := "call(newBlockImporter)(" + m + "#0)"
		slot := c.StoresD(job, "&var:ims[*]")
		c.StoredIs(job, "batch slot takes the block's importer", slot, 1, im+"#0")
		c.MP(job, "importer stored only after the block's items were imported", slot, 1, GOk("isaacblock.importBlock(ctx, "+h+", "+m+"#0, "+im+"#0, readers, blockItemf)"))
		c.MP(job, "job success: importer stored in the batch list", c.SuccessReturns(job), 1, GStored("&var:ims[*]"))
		c.MP(job, "job success: block map found", c.SuccessReturns(job), 1, GTrue(m+"#1"))
		c.MP(job, "job success: block map fetched", c.SuccessReturns(job), 1, GOk(m))
		ib := c.CallsTo(job, "isaac/block.importBlock")
		c.ArgIs(job, "items imported for the job's height", ib, 1, 1, h)
		c.ArgIs(job, "items imported for the fetched map", ib, 1, 2, m+"#0")
		c.ArgIs(job, "items written to the importer created for that map", ib, 1, 3, im+"#0")
	}
	// R15.3
	c.Rule("R15.3", "MustPass")
	if fn := c.Need("isaac/block.saveImporters"); fn != nil {
		succ := c.SuccessReturns(fn)
		c.MP(fn, "success: not empty", succ, 1, GCmp("len(ims)", ">=", "1"))
		c.MP(fn, "success: every importer saved", succ, 1, GOk("ims[0].Save(ctx)"), GOkTo("util.RunJobWorker"))
		c.MP(fn, "success: deferred merge ran (single) / all deferred merges ran (batch)", succ, 1,
			GOk("call(ims[0].Save(ctx)#0)(ctx)"), GLoopDone("(ι < len(make([]func(context.Context) error)))"))
		c.ForEach(fn, "each deferred merge function ran successfully", "(ι < len(make([]func(context.Context) error)))", 1,
			GOk("call(make([]func(context.Context) error)[ι])(ctx)"))
		c.MP(fn, "success: database merge callback succeeded (if given)", succ, 1, GNil("mergeBlockWriterDatabasesf"), GOk("call(mergeBlockWriterDatabasesf)(ctx)"))
		c.MP(fn, "single importer path only for exactly one importer", c.CallsD(fn, "ims[0].Save(ctx)"), 1, GCmp("len(ims)", "<", "2"))
		rj := c.CallsTo(fn, "util.RunJobWorker")
		c.ArgIs(fn, "one save job per importer", rj, 1, 2, "len(ims)")
		if cl := c.ClosureWithCall(fn, "ims[i].Save(ctx)"); cl != nil {
			st := c.StoresD(cl, "&make([]func(context.Context) error)[i]")
			c.StoredIs(cl, "deferred merge of importer i kept at slot i", st, 1, "ims[i].Save(ctx)#0")
			c.MP(cl, "job success: importer saved", c.SuccessReturns(cl), 1, GOk("ims[i].Save(ctx)"))
			c.MP(cl, "job success: deferred merge kept", c.SuccessReturns(cl), 1, GStored("&make([]func(context.Context) error)[i]"))
		}
	}
	_ = ssa.Instruction(nil)
	// R15.4: an importer is saved (and so counted as stored) only when every item of its block map was written
	c.Rule("R15.4", "MustPass")
	if fn := c.Need("isaac/block.(*BlockImporter).Save"); fn != nil {
		c.MP(fn, "saved only when every item of the map is finished", c.SuccessReturns(fn), 1, GTrue("im.isfinished()"))
	}
	isfinishedRules(c)
}
